import sys
import math
import numpy as np

from hydrodiy.gis import gutils
from hydrodiy.gis.grid import Grid

RNG = np.random.default_rng(20240915)
RELTOL = 1e-6       # the property speaks about points farther than 1e-6 x size
MARGIN = 2.0        # we stay a factor 2 inside that quantifier
NCHECK = [0, 0, 0]  # polygons, point answers, grid cells checked


# ----------------------------------------------------------------------
# Independent references for the even-odd rule
# ----------------------------------------------------------------------
def closed_edges(poly):
    """ Edges of the polygon, closing edge included """
    return poly, np.roll(poly, -1, axis=0)


def ref_evenodd_h(poly, pts):
    """ Crossing number of the ray towards +x, half-open rule on y,
        side decided with a cross product (no division) """
    a, b = closed_edges(poly)
    x = pts[:, 0][:, None]
    y = pts[:, 1][:, None]
    strad = (a[None, :, 1] < y) != (b[None, :, 1] < y)
    cross = (b[None, :, 0]-a[None, :, 0])*(y-a[None, :, 1]) \
        - (x-a[None, :, 0])*(b[None, :, 1]-a[None, :, 1])
    up = b[None, :, 1] > a[None, :, 1]
    right = np.where(up, cross > 0, cross < 0)
    return ((strad & right).sum(axis=1) % 2).astype(np.int32)


def ref_evenodd_v(poly, pts):
    """ Same thing with the ray towards -y (a different set of edges
        is counted; only the parity has to agree) """
    a, b = closed_edges(poly)
    x = pts[:, 0][:, None]
    y = pts[:, 1][:, None]
    strad = (a[None, :, 0] <= x) != (b[None, :, 0] <= x)
    cross = (b[None, :, 0]-a[None, :, 0])*(y-a[None, :, 1]) \
        - (x-a[None, :, 0])*(b[None, :, 1]-a[None, :, 1])
    rightw = b[None, :, 0] > a[None, :, 0]
    below = np.where(rightw, cross > 0, cross < 0)
    return ((strad & below).sum(axis=1) % 2).astype(np.int32)


def dist_to_boundary(poly, pts):
    """ Distance of every point to the closest edge (closing edge incl.) """
    a, b = closed_edges(poly)
    d = b-a
    l2 = (d**2).sum(axis=1)
    l2s = np.where(l2 > 0, l2, 1.)
    w = pts[:, None, :]-a[None, :, :]
    t = (w*d[None, :, :]).sum(axis=2)/l2s[None, :]
    t = np.where(l2[None, :] > 0, np.clip(t, 0., 1.), 0.)
    proj = a[None, :, :]+t[:, :, None]*d[None, :, :]
    return np.sqrt(((pts[:, None, :]-proj)**2).sum(axis=2)).min(axis=1)


def polysize(poly):
    return max(np.ptp(poly[:, 0]), np.ptp(poly[:, 1]))


def in_quantifier(poly, pts):
    big = max(polysize(poly), np.abs(poly).max(), np.abs(pts).max())
    return dist_to_boundary(poly, pts) > MARGIN*RELTOL*big


# ----------------------------------------------------------------------
# Polygons
# ----------------------------------------------------------------------
def q(a):
    """ Coordinates are either equal or differ by >= 1e-3 >> atol=1e-8 """
    return np.round(np.asarray(a, dtype=np.float64)*1000)/1000


def gen_polygons():
    out = []
    # random vertex soup: mostly self-intersecting, non-convex
    for n in [3, 3, 4, 4, 5, 6, 7, 9, 12, 20]:
        for _ in range(6):
            out.append(("random", q(RNG.uniform(-1, 1, (n, 2)))))
    # star shaped
    for n in [3, 5, 8, 13, 30]:
        for _ in range(4):
            th = np.sort(RNG.uniform(0, 2*np.pi, n))
            if np.diff(np.r_[th, th[0]+2*np.pi]).max() > np.pi-0.05:
                th = np.linspace(0, 2*np.pi, n, endpoint=False)+0.1
            r = RNG.uniform(0.3, 1., n)
            out.append(("star", q(np.c_[r*np.cos(th), r*np.sin(th)])))
    # convex (regular n-gons, squashed and rotated)
    for n in [3, 4, 5, 6, 11]:
        th = np.linspace(0, 2*np.pi, n, endpoint=False)+RNG.uniform(0, 1)
        out.append(("convex", q(np.c_[2*np.cos(th), 0.7*np.sin(th)])))
    # lattice soups: horizontal, vertical, collinear edges, repeated
    # vertices, vertices level with one another
    for n in [3, 4, 5, 6, 8, 10, 14]:
        for _ in range(10):
            p = RNG.integers(0, 6, (n, 2)).astype(np.float64)
            if polysize(p) == 0 or np.ptp(p[:, 0]) == 0 \
                    or np.ptp(p[:, 1]) == 0:
                continue
            out.append(("lattice", p))
    # hand made
    ell = [[0, 0], [4, 0], [4, 1], [1, 1], [1, 3], [0, 3]]
    ushape = [[0, 0], [5, 0], [5, 4], [4, 4], [4, 1], [1, 1], [1, 4], [0, 4]]
    plus = [[1, 0], [2, 0], [2, 1], [3, 1], [3, 2], [2, 2], [2, 3], [1, 3],
            [1, 2], [0, 2], [0, 1], [1, 1]]
    stairs = [[0, 0], [1, 0], [2, 0], [3, 0], [3, 1], [2, 1], [2, 2],
              [1, 2], [1, 3], [0, 3], [0, 2], [0, 1]]
    bowtie = [[0, 0], [4, 4], [4, 0], [0, 4]]
    th = np.arange(5)*4*np.pi/5+np.pi/2
    pentagram = q(np.c_[np.cos(th), np.sin(th)])
    comb = [[0, 0], [7, 0], [7, 3], [6, 3], [6, 1], [5, 1], [5, 3], [4, 3],
            [4, 1], [3, 1], [3, 3], [2, 3], [2, 1], [1, 1], [1, 3], [0, 3]]
    diamond = [[2, 0], [4, 2], [2, 4], [0, 2]]
    spike = [[0, 0], [4, 0], [4, 2], [2, 2], [2, 4], [2, 2], [0, 2]]
    triangle = [[-1., -1.], [0., 1.], [1., 0.]]
    for nm, p in [("L", ell), ("U", ushape), ("plus", plus),
                  ("stairs", stairs), ("bowtie", bowtie),
                  ("pentagram", pentagram), ("comb", comb),
                  ("diamond", diamond), ("spike", spike),
                  ("triangle", triangle)]:
        out.append((nm, np.array(p, dtype=np.float64)))
    # repeated vertices and collinear mid-points inserted
    extra = []
    for nm, p in out[::7]:
        k = RNG.integers(0, len(p))
        rep = np.insert(p, k, p[k], axis=0)
        extra.append((nm+"+repeat", rep))
        nxt = p[(k+1) % len(p)]
        mid = q((p[k]+nxt)/2) if nm in ("lattice", "L", "U") else None
        if mid is not None and np.allclose(mid, (p[k]+nxt)/2):
            extra.append((nm+"+mid", np.insert(p, k+1, mid, axis=0)))
    return out+extra


def gen_points(poly, nrand=120):
    x0, x1 = poly[:, 0].min(), poly[:, 0].max()
    y0, y1 = poly[:, 1].min(), poly[:, 1].max()
    dx, dy = x1-x0, y1-y0
    pts = [np.c_[RNG.uniform(x0-0.4*dx, x1+0.4*dx, nrand),
                 RNG.uniform(y0-0.4*dy, y1+0.4*dy, nrand)]]
    vx = np.unique(poly[:, 0])
    vy = np.unique(poly[:, 1])
    # level with a vertex (same y), inside and outside the bounding box
    xs = np.r_[RNG.uniform(x0-0.4*dx, x1+0.4*dx, 7), x0-0.3*dx, x1+0.3*dx]
    pts.append(np.array([[x, y] for y in vy for x in xs]))
    # above/below a vertex (same x)
    ys = np.r_[RNG.uniform(y0-0.4*dy, y1+0.4*dy, 7), y0-0.3*dy, y1+0.3*dy]
    pts.append(np.array([[x, y] for x in vx for y in ys]))
    # same x as one vertex and same y as another one
    pts.append(np.array([[x, y] for x in vx for y in vy]))
    # mid way between vertex levels, and on the bounding box lines
    mx = (vx[1:]+vx[:-1])/2
    my = (vy[1:]+vy[:-1])/2
    if len(mx) and len(my):
        pts.append(np.array([[x, y] for x in mx for y in my]))
        pts.append(np.array([[x, y] for x in mx for y in vy]))
        pts.append(np.array([[x, y] for x in vx for y in my]))
    # the four sides of the bounding box and just beyond
    for xx in [x0, x1, x0-0.1*dx, x1+0.1*dx]:
        pts.append(np.c_[np.full(5, xx), RNG.uniform(y0, y1, 5)])
    for yy in [y0, y1, y0-0.1*dy, y1+0.1*dy]:
        pts.append(np.c_[RNG.uniform(x0, x1, 5), np.full(5, yy)])
    pts = np.ascontiguousarray(np.vstack(pts), dtype=np.float64)
    return pts


def fail(msg):
    print("FAIL:", msg)
    sys.exit(1)


# ----------------------------------------------------------------------
# 1. agreement with the even-odd rule and invariances
# ----------------------------------------------------------------------
def check_polygon(name, poly):
    pts = gen_points(poly)
    ok = in_quantifier(poly, pts)
    pts = pts[ok]
    if len(pts) == 0:
        fail(f"{name}: no usable point")
    expected = ref_evenodd_h(poly, pts)
    if not np.array_equal(expected, ref_evenodd_v(poly, pts)):
        fail(f"{name}: the two references disagree (demo bug)")

    got = gutils.points_inside_polygon(pts, poly)
    if got.dtype != np.int32 or got.shape != (len(pts),):
        fail(f"{name}: wrong output type")
    if not set(np.unique(got)) <= {0, 1}:
        fail(f"{name}: answers other than 0/1")
    if not np.array_equal(got, expected):
        bad = np.flatnonzero(got != expected)[:5]
        fail(f"{name}: even-odd mismatch at {pts[bad].tolist()} "
             f"polygon={poly.tolist()}")
    NCHECK[0] += 1
    NCHECK[1] += len(pts)

    nv = len(poly)
    variants = []
    # any starting vertex
    for k in range(1, nv):
        variants.append((f"roll{k}", np.roll(poly, k, axis=0)))
    # either orientation (as a view with negative strides, and as a copy)
    variants.append(("reversed-view", poly[::-1]))
    variants.append(("reversed", np.ascontiguousarray(poly[::-1])))
    variants.append(("reversed-rolled", np.roll(poly[::-1], nv//2, axis=0)))
    # closed vertex list
    variants.append(("closed", np.vstack([poly, poly[:1]])))
    variants.append(("closed-reversed", np.vstack([poly, poly[:1]])[::-1]))
    for vn, pv in variants:
        g = gutils.points_inside_polygon(pts, pv)
        if not np.array_equal(g, expected):
            fail(f"{name}/{vn}: answer changed")
        NCHECK[1] += len(pts)

    # translation and scaling of polygon and points together
    for s, t in [(1., (10., -7.)), (2., (0., 0.)), (0.25, (3., 5.)),
                 (1e3, (0., 0.)), (1e-2, (0., 0.)), (37.3, (-1234.5, 98.7)),
                 (1., (1e3, 1e3)), (-1., (0., 0.)), (3., (0.1, 0.2))]:
        t = np.array(t)
        p2 = poly*s+t[None, :]
        x2 = pts*s+t[None, :]
        ok2 = in_quantifier(p2, x2)
        g = gutils.points_inside_polygon(x2, p2)
        if not np.array_equal(g[ok2], expected[ok2]):
            fail(f"{name}: answer changed by scale {s} shift {t}")
        NCHECK[1] += int(ok2.sum())

    # one point at a time gives the same thing as all at once
    for i in RNG.choice(len(pts), size=min(10, len(pts)), replace=False):
        g = gutils.points_inside_polygon(pts[i:i+1], poly)
        if g.shape != (1,) or g[0] != expected[i]:
            fail(f"{name}: single point call differs")

    # user supplied output vector, whatever it contains on entry
    buf = RNG.integers(-5, 5, len(pts)).astype(np.int32)
    ret = gutils.points_inside_polygon(pts, poly, inside=buf)
    if ret is not buf or not np.array_equal(buf, expected):
        fail(f"{name}: user supplied inside vector not filled properly")
    buf[:] = 1
    gutils.points_inside_polygon(pts, poly[::-1], inside=buf)
    if not np.array_equal(buf, expected):
        fail(f"{name}: user supplied inside vector (all ones) not reset")

    # inputs are not modified
    pcopy, xcopy = poly.copy(), pts.copy()
    gutils.points_inside_polygon(pts, poly)
    if not (np.array_equal(pcopy, poly) and np.array_equal(xcopy, pts)):
        fail(f"{name}: inputs modified")
    return pts, expected


# ----------------------------------------------------------------------
# 2. cells_inside_polygon = cells whose centre is inside
# ----------------------------------------------------------------------
def centres(nrows, ncols, csz, xll, yll):
    cells = np.arange(nrows*ncols)
    row, col = cells//ncols, cells % ncols
    return cells, np.c_[xll+csz*(col+0.5), yll+csz*(nrows-1-row+0.5)]


def check_cells(gr, name, poly):
    nrows, ncols = int(gr.nrows), int(gr.ncols)
    cells, xy = centres(nrows, ncols, float(gr.cellsize),
                        float(gr.xllcorner), float(gr.yllcorner))
    ok = in_quantifier(poly, xy)
    expected = ref_evenodd_h(poly, xy).astype(bool)
    df = gr.cells_inside_polygon(poly)
    if sorted(df.columns) != ["cell", "x", "y"]:
        fail(f"{name}: columns {list(df.columns)}")
    got = np.asarray(df["cell"]).astype(np.int64)
    if len(np.unique(got)) != len(got):
        fail(f"{name}: duplicated cells")
    if len(got) and (got.min() < 0 or got.max() >= nrows*ncols):
        fail(f"{name}: cell number out of range")
    gotmask = np.zeros(nrows*ncols, dtype=bool)
    gotmask[got] = True
    # cells with a centre within tolerance of the boundary may go either way
    if not np.array_equal(gotmask[ok], expected[ok]):
        bad = cells[ok][gotmask[ok] != expected[ok]][:5]
        fail(f"{name}: wrong cells {bad.tolist()} polygon={poly.tolist()}")
    if not (np.allclose(df["x"], xy[got, 0], rtol=0, atol=1e-12) and
            np.allclose(df["y"], xy[got, 1], rtol=0, atol=1e-12)):
        fail(f"{name}: x/y columns are not the cell centres")
    # consistent with points_inside_polygon on the centres
    pin = gutils.points_inside_polygon(xy, poly).astype(bool)
    if not np.array_equal(pin[ok], gotmask[ok]):
        fail(f"{name}: cells and points disagree")
    NCHECK[2] += int(ok.sum())
    return df


def run_core():
    polys = gen_polygons()
    for i, (nm, poly) in enumerate(polys):
        check_polygon(f"{nm}#{i}", poly)

    # grids: square, rectangular, 1 row, 1 column, 1 cell, shifted, scaled
    grids = [Grid("a", 10), Grid("b", 7, 4, cellsize=0.5, xllcorner=-1.,
                                 yllcorner=-0.5),
             Grid("c", 1, 9, cellsize=0.7, xllcorner=1.9, yllcorner=-0.3),
             Grid("d", 9, 1, cellsize=0.7, xllcorner=-0.3, yllcorner=1.9),
             Grid("e", 1, 1, cellsize=3., xllcorner=0.2, yllcorner=0.3),
             Grid("f", 23, 17, cellsize=0.37, xllcorner=-1.3, yllcorner=-1.1),
             Grid("g", 12, 12, cellsize=1., xllcorner=-3, yllcorner=-3)]
    test_poly = np.array([[0.5, 2.3], [7.2, 9.5], [6.2, 2.2]])
    for gr in grids:
        check_cells(gr, gr.name+"/suite", test_poly)
        for i, (nm, poly) in enumerate(polys[::3]):
            df1 = check_cells(gr, f"{gr.name}/{nm}#{i}", poly)
            # rotation / reversal / closing do not change the set of cells
            for pv in [np.roll(poly, 1, axis=0), poly[::-1],
                       np.vstack([poly, poly[:1]])]:
                df2 = check_cells(gr, f"{gr.name}/{nm}#{i}/variant", pv)
                _, xy = centres(int(gr.nrows), int(gr.ncols),
                                float(gr.cellsize), float(gr.xllcorner),
                                float(gr.yllcorner))
                ok = in_quantifier(poly, xy)
                m1 = np.zeros(len(xy), bool)
                m1[np.asarray(df1["cell"])] = True
                m2 = np.zeros(len(xy), bool)
                m2[np.asarray(df2["cell"])] = True
                if not np.array_equal(m1[ok], m2[ok]):
                    fail(f"{gr.name}/{nm}#{i}: cells changed with variant")
    return polys


# ----------------------------------------------------------------------
# 3. Cases chosen for this rewrite (output vector initialisation, order of
#    the edges, merged straddle test, early exits)
# ----------------------------------------------------------------------
def run_extra():
    tri = np.array([[-1., -1.], [0., 1.], [1., 0.]])
    ushape = np.array([[0, 0], [5, 0], [5, 4], [4, 4], [4, 1], [1, 1],
                       [1, 4], [0, 4]], dtype=np.float64)

    # One output vector re-used over a long history of calls with
    # different polygons, never cleaned by the caller. Points outside the
    # bounding box (never looked at by the crossing loop) must be reported
    # as 0 whatever the vector contained before.
    pts = np.c_[RNG.uniform(-3, 8, 500), RNG.uniform(-3, 8, 500)]
    buf = np.full(len(pts), 7, dtype=np.int32)
    polys = [tri, ushape, ushape[::-1]+0.5, tri*3+1., ushape*0.3]
    for it in range(40):
        poly = np.ascontiguousarray(polys[it % len(polys)])
        ok = in_quantifier(poly, pts)
        expected = ref_evenodd_h(poly, pts)
        if it % 3 == 0:
            buf[:] = RNG.integers(-9, 9, len(buf))
        ret = gutils.points_inside_polygon(pts, poly, inside=buf)
        if ret is not buf:
            fail("inside vector not returned")
        if not set(np.unique(buf)) <= {0, 1}:
            fail("stale values left in inside vector")
        if not np.array_equal(buf[ok], expected[ok]):
            fail("re-used inside vector")
        fresh = gutils.points_inside_polygon(pts, poly)
        if not np.array_equal(fresh, buf):
            fail("fresh and re-used inside vectors differ")
        NCHECK[1] += int(ok.sum())

    # everything outside the bounding box, dirty vector
    far = np.array([[10., 10.], [-10., 0.], [0.5, -10.], [0.5, 10.],
                    [-1.5, 0.], [1.5, 0.]])
    buf = np.full(len(far), 1, dtype=np.int32)
    gutils.points_inside_polygon(far, tri, inside=buf)
    if buf.any():
        fail("points outside bounding box with dirty vector")
    if gutils.points_inside_polygon(far, tri).any():
        fail("points outside bounding box")

    # no point at all
    if gutils.points_inside_polygon(np.zeros((0, 2)), tri).shape != (0,):
        fail("no points")
    e = np.zeros(0, dtype=np.int32)
    if gutils.points_inside_polygon(np.zeros((0, 2)), tri, inside=e) is not e:
        fail("no points, supplied vector")

    # wrong vectors are still refused with a ValueError
    for bad in [np.zeros(2, dtype=np.int32), np.zeros(len(far)),
                np.zeros(len(far), dtype=np.int64)]:
        try:
            gutils.points_inside_polygon(far, tri, inside=bad)
        except ValueError:
            pass
        else:
            fail("wrong inside vector accepted")

    # The closing edge is the only one crossed
    poly = np.array([[3., 0.], [0., 0.], [0., 3.]])  # closing edge=hypotenuse
    p = np.array([[1., 1.], [2.5, 2.5], [1., 2.5], [0.5, 0.5], [2., 0.5]])
    for k in range(3):
        pv = np.roll(poly, k, axis=0)
        if not np.array_equal(gutils.points_inside_polygon(p, pv),
                              [1, 0, 0, 1, 1]):
            fail("closing edge")
        if not np.array_equal(gutils.points_inside_polygon(p, pv[::-1]),
                              [1, 0, 0, 1, 1]):
            fail("closing edge, reversed")

    # point level with several vertices at once, on either side of them
    comb = np.array([[0, 0], [7, 0], [7, 3], [6, 3], [6, 1], [5, 1], [5, 3],
                     [4, 3], [4, 1], [3, 1], [3, 3], [2, 3], [2, 1], [1, 1],
                     [1, 3], [0, 3]], dtype=np.float64)
    xs = np.arange(-0.5, 8, 0.5)
    for yy in [1., 3., 0., 2.]:
        p = np.c_[xs, np.full(len(xs), yy)]
        p = p[in_quantifier(comb, p)]
        for pv in [comb, comb[::-1], np.roll(comb, 5, axis=0)]:
            if not np.array_equal(gutils.points_inside_polygon(p, pv),
                                  ref_evenodd_v(comb, p)):
                fail("comb, level with vertices")
        NCHECK[1] += 3*len(p)

    # Outside what the property covers, but cheap to look at: 1 or 2
    # vertices enclose nothing
    p = RNG.uniform(-2, 2, (200, 2))
    seg = np.array([[-1., -1.], [1., 0.5]])
    p = p[in_quantifier(seg, p)]
    for deg in [seg, seg[:1], seg[::-1], np.vstack([seg, seg[:1]])]:
        if gutils.points_inside_polygon(p, deg).any():
            fail("degenerate polygon encloses something")


if __name__ == "__main__":
    run_core()
    run_extra()
    print(f"OK - {NCHECK[0]} polygons, {NCHECK[1]} point answers, "
          f"{NCHECK[2]} grid cells checked")
    sys.exit(0)
