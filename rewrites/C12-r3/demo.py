#!/usr/bin/env python
"""Demo / checker for property C12.

C12: bounded parameter vectors (hydrodiy.data.containers.Vector) keep their
invariants under any history of assignments, resets, clones and dictionary
round trips; read-only uses of a transform leave its parameters, constants
and bounds unchanged.

Run as
    PYTHONPATH=<tree>/src /venv/bin/python demo.py

The program drives real Vector objects and an independent pure-Python
reference model side by side, through
  * every operation sequence up to a fixed depth (depth 2 over the full
    operation alphabet, depth 3 over a reduced one, depth 4 over a small one),
  * long random sequences,
and, for every transform class, interleavings of read-only calls with
parameter assignments. It only uses the public interface and only inputs
inside the stated quantifier (values inside the bounds, exactly on a bound,
or at least 1e-6 outside). It exits 0 when every check passed, on the unmodified
library as well as on the rewritten one (the same checks apply to both).

Rewrite r3 changes incidental behaviour only: exception subclasses and texts,
python scalars instead of numpy scalars in to_dict and for the hit flag, order of
the dictionary keys, printing formats, read-only flags on names/bounds/defaults,
a tolerance of 1e-10 in the hit test of element assignment (as already used for
whole-vector assignment), lenient from_dict. The extra section at the end
(part_focus) therefore checks the dictionary round trip through every
representation a caller may legitimately use (as produced, deep-copied,
re-ordered, through json) and that errors are errors whatever their class.

An optional argument scales the amount of enumeration (default 1.0, about
1 to 2 minutes; e.g. 0.2 for a quick run, 5 for a long one).
"""
import itertools
import math
import random
import sys
import warnings

import numpy as np

from hydrodiy.data.containers import Vector
from hydrodiy.stat import transform

warnings.filterwarnings("ignore")
np.seterr(all="ignore")

NAN = float("nan")
INF = float("inf")
NCHECKS = [0]


class Failure(Exception):
    pass


def check(cond, *msg):
    NCHECKS[0] += 1
    if not cond:
        raise Failure(" ".join(str(m) for m in msg))


# ---------------------------------------------------------------------------
# Reference model
# ---------------------------------------------------------------------------
def isnan(x):
    return x != x


def clip1(x, lo, hi):
    if isnan(x):
        return x
    if x < lo:
        return lo
    if x > hi:
        return hi
    return x


class Model(object):
    """ Pure python model of a bounded vector """

    def __init__(self, names, defaults, mins, maxs, chk, acc):
        self.names = [str(n) for n in names]
        self.n = len(self.names)
        self.mins = [float(x) for x in mins]
        self.maxs = [float(x) for x in maxs]
        self.defaults = [float(x) for x in defaults]
        self.chk = bool(chk)
        self.acc = bool(acc)
        self.values = list(self.defaults)
        self.hit = False

    def copy(self):
        m = Model(self.names, self.defaults, self.mins, self.maxs,
                  self.chk, self.acc)
        m.values = list(self.values)
        m.hit = self.hit
        return m

    # each setter returns True if the assignment is accepted, False if it has
    # to be rejected (in which case the model is left untouched)
    def set_one(self, i, x):
        x = float(x)
        if isnan(x) and not self.acc:
            return False
        self.values[i] = clip1(x, self.mins[i], self.maxs[i])
        if self.chk:
            self.hit = (x < self.mins[i]) or (x > self.maxs[i])
        return True

    def set_all(self, xs):
        xs = [float(x) for x in np.asarray(xs, dtype=float).ravel()] \
            if not np.isscalar(xs) else [float(xs)]
        if len(xs) != self.n:
            return False
        if any(isnan(x) for x in xs) and not self.acc:
            return False
        self.values = [clip1(x, lo, hi) for x, lo, hi
                       in zip(xs, self.mins, self.maxs)]
        self.hit = self.chk and any((x < lo) or (x > hi) for x, lo, hi
                                    in zip(xs, self.mins, self.maxs))
        return True

    def reset(self):
        self.values = list(self.defaults)
        self.hit = False


# ---------------------------------------------------------------------------
# Observation of a real vector through its public interface
# ---------------------------------------------------------------------------
def same(a, b):
    """ numerical equality of two float sequences, nan == nan """
    if isinstance(a, np.ndarray) or np.isscalar(a):
        a = np.atleast_1d(a).ravel().tolist()
    if isinstance(b, np.ndarray) or np.isscalar(b):
        b = np.atleast_1d(b).ravel().tolist()
    if len(a) != len(b):
        return False
    for x, y in zip(a, b):
        x = float(x)
        y = float(y)
        if not (x == y or (x != x and y != y)):
            return False
    return True


def observe(v):
    """ Snapshot (deep copied) of everything observable """
    return {
        "names": [str(n) for n in v.names],
        "mins": np.asarray(v.mins, dtype=np.float64).tolist(),
        "maxs": np.asarray(v.maxs, dtype=np.float64).tolist(),
        "defaults": np.asarray(v.defaults, dtype=np.float64).tolist(),
        "values": np.asarray(v.values, dtype=np.float64).tolist(),
        "hit": bool(v.hitbounds),
        "nval": int(v.nval),
        "chk": bool(v.check_hitbounds),
        "acc": bool(v.accept_nan),
        "cb": bool(v.check_bounds),
    }


def same_obs(o1, o2):
    for k in o1:
        if k in ("mins", "maxs", "defaults", "values"):
            if not same(o1[k], o2[k]):
                return False
        elif o1[k] != o2[k]:
            return False
    return True


def check_against_model(v, m, where, light=False):
    """ All invariants of the property, checked on vector v against model m.
    light=True skips the redundant read accesses (by key, by attribute,
    to_dict, str). """
    o = observe(v)
    check(o["nval"] == m.n, where, "nval", o["nval"], m.n)
    check(o["names"] == m.names, where, "names changed", o["names"], m.names)
    check(same(o["mins"], m.mins), where, "mins changed", o["mins"], m.mins)
    check(same(o["maxs"], m.maxs), where, "maxs changed", o["maxs"], m.maxs)
    check(same(o["defaults"], m.defaults), where, "defaults changed",
          o["defaults"], m.defaults)
    check(o["chk"] == m.chk and o["acc"] == m.acc and o["cb"] is True,
          where, "flags changed")
    check(len(o["values"]) == m.n, where, "length of values")

    # values within bounds, nan only if allowed
    for x, lo, hi in zip(o["values"], o["mins"], o["maxs"]):
        if isnan(x):
            check(m.acc, where, "nan stored but not allowed")
        else:
            check(lo <= x <= hi, where, "value out of bounds", x, lo, hi)

    # exact expected state
    check(same(o["values"], m.values), where, "values", o["values"],
          "expected", m.values)
    check(o["hit"] == m.hit, where, "hitbounds", o["hit"], "expected", m.hit)

    # values is a flat float64 array
    vals = v.values
    check(isinstance(vals, np.ndarray) and vals.ndim == 1
          and vals.dtype == np.float64, where, "values array type")

    if light:
        return o

    # access by key and by attribute agree with values
    for i, nm in enumerate(m.names):
        check(same([v[nm]], [m.values[i]]), where, "getitem", nm)
        check(same([getattr(v, nm)], [m.values[i]]), where, "getattr", nm)

    # dictionary is consistent with the state
    d = v.to_dict()
    check(int(d["nval"]) == m.n and bool(d["hitbounds"]) == m.hit
          and bool(d["check_hitbounds"]) == m.chk
          and bool(d["accept_nan"]) == m.acc
          and bool(d["check_bounds"]) is True
          and len(d["data"]) == m.n, where, "to_dict header")
    for i, e in enumerate(d["data"]):
        check(str(e["name"]) == m.names[i]
              and same([e["value"], e["min"], e["max"], e["default"]],
                       [m.values[i], m.mins[i], m.maxs[i], m.defaults[i]]),
              where, "to_dict data", i)

    # printing works and is read-only
    s = str(v)
    check(isinstance(s, str), where, "str")
    check(same_obs(observe(v), o), where, "reading changed the state")
    return o


def no_shared_memory(v, w, where):
    for att in ("values", "mins", "maxs", "defaults", "names"):
        a, b = getattr(v, att), getattr(w, att)
        if isinstance(a, np.ndarray) and isinstance(b, np.ndarray):
            check(not np.shares_memory(a, b), where, "shared memory", att)
        else:
            check(a is not b or len(a) == 0, where, "same object", att)


def check_independent(v, w, m, where):
    """ v and w are supposed to be independent copies. Writing to w must not
    be seen in v. (w is left modified.) """
    no_shared_memory(v, w, where)
    if m.n == 0:
        return
    o = observe(v)
    # write everything we can to w
    alt = [alternative(m, i) for i in range(m.n)]
    w.values = alt
    check(same_obs(observe(v), o), where, "copy not independent (values)")
    w.reset()
    check(same_obs(observe(v), o), where, "copy not independent (reset)")
    w[m.names[0]] = alt[0]
    setattr(w, m.names[-1], alt[-1])
    check(same_obs(observe(v), o), where, "copy not independent (item)")


def alternative(m, i):
    """ A value for component i, inside the bounds, different from current """
    lo, hi = m.mins[i], m.maxs[i]
    cands = []
    if math.isfinite(lo) and math.isfinite(hi):
        cands = [lo, hi, 0.5 * (lo + hi), lo + 0.25 * (hi - lo)]
    elif math.isfinite(lo):
        cands = [lo, lo + 1.0, lo + 3.5]
    elif math.isfinite(hi):
        cands = [hi, hi - 1.0, hi - 3.5]
    else:
        cands = [0.0, -7.25, 11.5]
    for c in cands:
        if not (c == m.values[i]):
            return c
    return cands[0]


# ---------------------------------------------------------------------------
# Operations
# ---------------------------------------------------------------------------
class Ctx(object):
    """ A vector under test, its model, and the copies left behind """

    def __init__(self, v, m):
        self.v = v
        self.m = m
        self.left_behind = []   # (vector, observation) which must not change


def expect_reject(fun, ctx, where):
    before = observe(ctx.v)
    try:
        fun()
    except Exception:
        pass
    else:
        raise Failure(str(where) + " : invalid assignment was not rejected")
    check(same_obs(observe(ctx.v), before), where,
          "rejected assignment changed the state")


def apply_op(ctx, op, where):
    v, m = ctx.v, ctx.m
    kind = op[0]

    if kind in ("attr", "key"):
        _, i, x = op
        nm = m.names[i]
        if kind == "attr":
            def fun():
                setattr(v, nm, x)
        else:
            def fun():
                v[nm] = x
        trial = m.copy()
        if trial.set_one(i, x):
            fun()
            m.set_one(i, x)
        else:
            expect_reject(fun, ctx, where)

    elif kind == "all":
        _, xs = op

        def fun():
            v.values = xs
        trial = m.copy()
        if trial.set_all(xs):
            keep = np.array(xs, dtype=float, copy=True) \
                if isinstance(xs, np.ndarray) else None
            fun()
            m.set_all(xs)
            if keep is not None:
                # the caller's array is neither modified nor captured
                check(same(keep, xs), where, "input array modified")
                check(not np.shares_memory(v.values, xs), where,
                      "input array captured")
        else:
            expect_reject(fun, ctx, where)

    elif kind == "reset":
        v.reset()
        m.reset()

    elif kind == "badkey":
        _, x = op

        def fun():
            v["no_such_name"] = x
        expect_reject(fun, ctx, where)

        def fun2():
            return v["no_such_name"]
        expect_reject(fun2, ctx, where)

    elif kind in ("clone", "dict"):
        if kind == "clone":
            w = v.clone()
        else:
            d = v.to_dict()
            w = Vector.from_dict(d)
            # building from a dictionary does not alter the dictionary
            check(int(d["nval"]) == m.n and len(d["data"]) == m.n, where,
                  "dictionary altered")
        check(w is not v, where, "copy is the same object")
        check(isinstance(w, Vector), where, "copy type")
        ov = check_against_model(v, m, (where, "source"))
        ow = check_against_model(w, m, (where, "copy"))
        check(same_obs(ov, ow), where, "copy differs from source")
        no_shared_memory(v, w, where)

        # independence: hammer a second copy and the source's copy
        if kind == "clone":
            w2 = v.clone()
        else:
            w2 = Vector.from_dict(v.to_dict())
        check_independent(v, w2, m, where)       # writes to w2, v unchanged
        check(same_obs(observe(w), ow), where, "copies are linked")
        check_independent(w2, w, m, where)        # dummy direction
        # w was written to by the previous line: take a fresh copy to go on
        if kind == "clone":
            w = v.clone()
        else:
            w = Vector.from_dict(v.to_dict())
        check_against_model(w, m, (where, "fresh copy"))

        # continue with the copy; the source must stay as it is
        ctx.left_behind.append((v, ov))
        ctx.v = w
        ctx.m = m.copy()
        return

    else:
        raise ValueError(kind)


def run_sequence(cfg, ops, label, every_step=True):
    """ Runs one sequence of operations on a new vector. The complete set of
    checks is made after every step, or (every_step=False, used in the
    exhaustive enumeration where every prefix is a sequence of its own) after
    the last step only. Rejections and copies are always checked in full. """
    v, m = build(cfg)
    ctx = Ctx(v, m)
    if every_step or len(ops) == 0:
        check_against_model(ctx.v, ctx.m, label + " init")
    last = len(ops) - 1
    for k, op in enumerate(ops):
        where = (label, k, op)
        apply_op(ctx, op, where)
        if every_step or k == last:
            check_against_model(ctx.v, ctx.m, where,
                                light=not every_step and last >= 2)
            for u, ou in ctx.left_behind:
                check(same_obs(observe(u), ou), where,
                      "a vector left behind by clone/from_dict has changed")


# ---------------------------------------------------------------------------
# Configurations
# ---------------------------------------------------------------------------
def build(cfg):
    names, defaults, mins, maxs, chk, acc, style = cfg[:7]
    n = len(names) if names is not None else 0
    if style == "plain":
        v = Vector(names, defaults, mins, maxs, check_hitbounds=chk,
                   accept_nan=acc)
    elif style == "arrays":
        v = Vector(np.array(names), np.array(defaults, dtype=float),
                   np.array(mins, dtype=float), np.array(maxs, dtype=float),
                   True, chk, acc)
    elif style == "scalar":
        # single name given as a plain string, scalars for the rest
        v = Vector(names[0], defaults[0], mins[0], maxs[0],
                   check_hitbounds=chk, accept_nan=acc)
    elif style == "nobounds":
        v = Vector(names, check_hitbounds=chk, accept_nan=acc)
    elif style == "none":
        v = Vector(None, check_hitbounds=chk, accept_nan=acc)
        names = []
    else:
        raise ValueError(style)

    if style in ("nobounds", "none"):
        defaults = [0.] * n
        mins = [-INF] * n
        maxs = [INF] * n
    m = Model(names if names is not None else [], defaults, mins, maxs,
              chk, acc)
    return v, m


def configs():
    out = []
    layouts = [
        # names, defaults, mins, maxs, style
        ([], [], [], [], "plain"),
        (None, [], [], [], "none"),
        (["a"], [0.5], [0.], [1.], "plain"),
        (["a"], [0.5], [0.], [1.], "scalar"),
        (["nu"], [1e-10], [1e-10], [INF], "plain"),
        (["x"], [-2.], [-INF], [-1.], "arrays"),
        (["p"], [0.], [-INF], [INF], "nobounds"),
        (["fix"], [2.], [2.], [2.], "plain"),
        (["a", "b"], [0.5, 0.5], [0., 0.], [1., 1.], "plain"),
        (["lower", "logdelta"], [0., 0.], [-INF, -10.], [INF, 10.],
         "arrays"),
        (["nu", "lam"], [1e-10, 1.], [1e-10, 0.], [INF, 3.], "plain"),
        (["u", "v"], [0., 0.], [-INF, -INF], [INF, INF], "nobounds"),
        (["a", "b", "c"], [0.5, -3., 7.], [0., -5., 7.], [1., -1., INF],
         "plain"),
        (["nu", "scale", "lam"], [0., 1., 1.], [-INF, 1e-5, -1.],
         [INF, INF, 3.], "arrays"),
        (["w", "x", "y", "z"], [0., 1., -1., 100.], [-1., 1., -INF, -INF],
         [1., 1., 0., INF], "plain"),
        (["0", "1", "2", "3"], [0.] * 4, [-INF] * 4, [INF] * 4, "nobounds"),
        # large magnitude: 1e-6 is only ~70 ulp there
        (["big", "neg"], [1e8, -1e8], [1e8 - 5., -1e8 - 5.],
         [1e8 + 5., -1e8 + 5.], "plain"),
    ]
    # tier 2: deepest enumeration; tier 1: deep; tier 0: depth 1 in full,
    # depth 2-3 on the small alphabet when check_hitbounds is on; all of
    # them get random sequences
    tiers = {2: 2, 8: 2, 0: 1, 4: 1, 6: 1, 9: 1, 12: 1, 14: 1}
    for k, (names, defaults, mins, maxs, style) in enumerate(layouts):
        for chk in (False, True):
            for acc in (False, True):
                out.append((names, defaults, mins, maxs, chk, acc, style,
                            tiers.get(k, 0)))

    # nan defaults, as used for the constants of the transforms
    out.append((["xmax"], [NAN], [1e-10], [INF], False, True, "plain", 1))
    out.append((["xmax"], [NAN], [1e-10], [INF], True, True, "plain", 1))
    out.append((["lam", "k"], [NAN, 1.], [0., 0.], [3., 2.], True, True,
                "plain", 0))
    return out


def candidates(lo, hi, acc_any_nan=True, level=2):
    """ Values for one component: inside, on the bounds, outside (at least
    1e-6 away), nan """
    c = []
    if math.isfinite(lo) and math.isfinite(hi):
        c.append(0.5 * (lo + hi))
        inside = [lo + 1e-6, hi - 1e-6] if hi - lo > 1e-5 else []
    elif math.isfinite(lo):
        c.append(lo + 2.5)
        inside = [lo + 1e-6, 1e12]
    elif math.isfinite(hi):
        c.append(hi - 2.5)
        inside = [hi - 1e-6, -1e12]
    else:
        c.append(1.25)
        inside = [-1e300, 0., -0., 1e300]
    if math.isfinite(lo):
        c += [lo, lo - 1e-6]
    if math.isfinite(hi):
        c += [hi, hi + 1e-6]
    if level >= 1:
        c.append(NAN)
    if level >= 2:
        c += inside
        if math.isfinite(lo):
            c += [lo - 1., lo - 1e9]
        if math.isfinite(hi):
            c += [hi + 1., hi + 1e9]
    return c


def alphabet(m, level):
    """ Operation alphabet for a vector described by model m.
    level 2 = full, 1 = reduced, 0 = small """
    ops = [("reset",), ("clone",), ("dict",), ("badkey", 0.5)]
    n = m.n
    per = [candidates(lo, hi, level=level)
           for lo, hi in zip(m.mins, m.maxs)]

    # failing whole-vector assignments: wrong lengths
    ops.append(("all", [0.5] * (n + 1)))
    if level >= 1:
        if n >= 2:
            ops.append(("all", [0.5] * (n - 1)))
        if n >= 1:
            ops.append(("all", []))
        if n != 1:
            ops.append(("all", 0.5))
        ops.append(("all", np.zeros((n + 1, 2))))
        ops.append(("badkey", NAN))

    if n == 0:
        ops.append(("all", []))
        ops.append(("all", np.zeros(0)))
        ops.append(("all", ()))
        return ops

    # by attribute / by key
    for i in range(n):
        for j, x in enumerate(per[i]):
            if level == 0:
                ops.append((("attr", "key")[(i + j) % 2], i, x))
            else:
                ops.append(("attr", i, x))
                ops.append(("key", i, x))
    if level >= 2:
        # other scalar types
        lo, hi = m.mins[0], m.maxs[0]
        mid = per[0][0]
        ops.append(("attr", 0, np.float64(mid)))
        ops.append(("key", 0, np.array(mid)))
        ops.append(("attr", 0, np.float32(mid)
                    if float(np.float32(mid)) == mid else mid))
        ops.append(("key", 0, int(round(mid)) if lo <= round(mid) <= hi
                    else mid))
        ops.append(("attr", 0, 10 ** 6))
        ops.append(("key", 0, -10 ** 6))

    # whole vector
    if level >= 2 and n <= 2:
        combos = list(itertools.product(*[p[:6] for p in per]))
    else:
        # all inside / each position in turn takes each of its candidates
        base = [p[0] for p in per]
        combos = [tuple(base)]
        for i in range(n):
            for x in per[i][1:(6 if level >= 1 else 4)]:
                t = list(base)
                t[i] = x
                combos.append(tuple(t))
        # everything below, everything above, all nan
        combos.append(tuple(lo - 1. if math.isfinite(lo) else b
                            for lo, b in zip(m.mins, base)))
        combos.append(tuple(hi + 1. if math.isfinite(hi) else b
                            for hi, b in zip(m.maxs, base)))
        combos.append(tuple([NAN] * n))
    for k, t in enumerate(combos):
        form = k % 4 if level >= 1 else 0
        if form == 0:
            ops.append(("all", list(t)))
        elif form == 1:
            ops.append(("all", np.array(t, dtype=float)))
        elif form == 2:
            ops.append(("all", tuple(t)))
        else:
            arr = np.array(t, dtype=float)
            ops.append(("all", arr.reshape((n, 1)) if n != 4
                        else arr.reshape((2, 2))))
    if n == 1 and level >= 1:
        ops.append(("all", per[0][0]))          # scalar for a 1-vector
        ops.append(("all", np.float64(per[0][0])))
    return ops


# ---------------------------------------------------------------------------
# Part 1: vectors, exhaustive + random
# ---------------------------------------------------------------------------
def strided_product(alpha, depth, budget):
    """ All sequences of the given depth over alpha if there are no more
    than budget of them, otherwise every k-th one in lexicographic order
    with k coprime with len(alpha) so that all positions keep varying """
    total = len(alpha) ** depth
    k = 1
    if total > budget:
        k = -(-total // int(budget))
        while math.gcd(k, len(alpha)) != 1:
            k += 1
    for j, ops in enumerate(itertools.product(alpha, repeat=depth)):
        if j % k == 0:
            yield ops


def part_vectors(rng, scale):
    nseq = 0
    nocap = float("inf")
    for ic, cfg in enumerate(configs()):
        _, m = build(cfg)
        chk, tier = cfg[4], cfg[7]
        label = "cfg{0}{1}".format(ic, (cfg[0], cfg[4], cfg[5], cfg[6]))

        full = alphabet(m, 2)
        reduced = alphabet(m, 1)
        small = alphabet(m, 0)

        # exhaustive: (alphabet, depth, cap on the number of sequences);
        # beyond the cap, sequences are sampled with a fixed stride
        plans = [(full, 0, nocap), (full, 1, nocap)]
        if tier == 2:
            plans.append((full if m.n <= 1 else reduced, 2, nocap))
            plans.append((small, 3, nocap if (m.n <= 1 and chk)
                          else 600 * scale))
            plans.append((small, 4, 300 * scale))
            plans.append((small, 5, 100 * scale))
        elif tier == 1:
            plans.append((reduced if m.n <= 1 else small, 2, nocap))
            plans.append((small, 3, 200 * scale))
            plans.append((small, 4, 100 * scale))
        elif chk:
            plans.append((small, 2, nocap))
            plans.append((small, 3, 150 * scale))
        for alpha, depth, cap in plans:
            for ops in strided_product(alpha, depth, cap):
                run_sequence(cfg, ops, label + " exh", every_step=False)
                nseq += 1

        # random, long, all checks at every step
        for r in range(int(10 * scale)):
            length = rng.choice([5, 10, 20, 40, 80])
            weights = [4 if op[0] in ("attr", "key") else
                       (3 if op[0] == "all" else 1) for op in full]
            ops = rng.choices(full, weights=weights, k=length)
            # fully random in-quantifier values every other time
            ops = [randomise(rng, m, op) for op in ops]
            run_sequence(cfg, ops, label + " rnd{0}".format(r))
            nseq += 1
    return nseq


def random_value(rng, lo, hi):
    kind = rng.random()
    if kind < 0.15 and math.isfinite(lo):
        return lo
    if kind < 0.3 and math.isfinite(hi):
        return hi
    if kind < 0.45 and math.isfinite(lo):
        return lo - 1e-6 - abs(rng.gauss(0, 1)) * 10 ** rng.randint(-6, 6)
    if kind < 0.6 and math.isfinite(hi):
        return hi + 1e-6 + abs(rng.gauss(0, 1)) * 10 ** rng.randint(-6, 6)
    if kind < 0.65:
        return NAN
    # inside, at least 1e-6 from the bounds
    if math.isfinite(lo) and math.isfinite(hi):
        if hi - lo < 1e-5:
            return lo
        return lo + 1e-6 + rng.random() * (hi - lo - 2e-6)
    if math.isfinite(lo):
        return lo + 1e-6 + abs(rng.gauss(0, 1)) * 10 ** rng.randint(-6, 6)
    if math.isfinite(hi):
        return hi - 1e-6 - abs(rng.gauss(0, 1)) * 10 ** rng.randint(-6, 6)
    return rng.gauss(0, 1) * 10 ** rng.randint(-6, 6)


def randomise(rng, m, op):
    if rng.random() < 0.5:
        return op
    if op[0] in ("attr", "key"):
        i = op[1]
        return (op[0], i, random_value(rng, m.mins[i], m.maxs[i]))
    if op[0] == "all" and not np.isscalar(op[1]) \
            and np.asarray(op[1]).size == m.n and m.n > 0:
        xs = [random_value(rng, lo, hi) for lo, hi in zip(m.mins, m.maxs)]
        return ("all", xs if rng.random() < 0.5 else np.array(xs))
    return op


# ---------------------------------------------------------------------------
# Part 1b: focus of this rewrite
# ---------------------------------------------------------------------------
def part_focus(rng, scale):
    """ Focus of rewrite r3: dictionary representations, error classes """
    import copy
    import json
    n = 0
    for cfg in configs():
        v, m = build(cfg)
        ctx = Ctx(v, m)
        for rep in range(6):
            # some history
            full = alphabet(m, 2)
            for op in rng.choices(full, k=6):
                if op[0] in ("clone", "dict"):
                    continue
                apply_op(ctx, op, "focus3 history")
            v, m = ctx.v, ctx.m
            check_against_model(v, m, "focus3 history")

            d = v.to_dict()
            variants = [d, copy.deepcopy(d),
                        dict(reversed(list(d.items()))),
                        json.loads(json.dumps(copy.deepcopy(d),
                                              default=lambda o: o.item()))]
            variants[2]["data"] = [dict(reversed(list(e.items())))
                                   for e in d["data"]]
            for k, dv in enumerate(variants):
                w = Vector.from_dict(dv)
                check_against_model(w, m, "focus3 variant {0}".format(k))
                no_shared_memory(v, w, "focus3")
                # continue with the copy for a while, the source stays put
                o = observe(v)
                ctx2 = Ctx(w, m.copy())
                for op in rng.choices(full, k=4):
                    if op[0] in ("clone", "dict"):
                        continue
                    apply_op(ctx2, op, "focus3 continue")
                    check_against_model(ctx2.v, ctx2.m, "focus3 continue")
                check(same_obs(observe(v), o), "focus3", "source changed")
                n += 1

        # failing assignments raise an Exception (any class), every time
        for fun in (lambda: v.__setitem__("zz", 1.),
                    lambda: v.__getitem__("zz"),
                    lambda: setattr(v, "values", [0.] * (m.n + 1))):
            for _ in range(2):
                expect_reject(fun, ctx, "focus3 errors")
        if m.n > 0 and not m.acc:
            for fun in (lambda: v.__setitem__(m.names[0], NAN),
                        lambda: setattr(v, m.names[-1], NAN),
                        lambda: setattr(v, "values", [NAN] * m.n)):
                expect_reject(fun, ctx, "focus3 errors")
    return n


# ---------------------------------------------------------------------------
# Part 2: transforms
# ---------------------------------------------------------------------------
def model_of(v):
    o = observe(v)
    m = Model(o["names"], o["defaults"], o["mins"], o["maxs"],
              o["chk"], o["acc"])
    m.values = list(o["values"])
    m.hit = o["hit"]
    return m


def transform_inputs(name):
    if name == "Softmax":
        xs = [np.array([[0.1, 0.2, 0.3], [0.05, 0.05, 0.6]]),
              np.array([0.2, 0.1])]
        ys = [np.array([[0.3, -1., 2.], [0., 0., 0.]]), np.array([1., 2.])]
    else:
        xs = [0.7, np.array([0.3]), np.linspace(-2., 5., 8), np.array([]),
              np.array([0., 1., NAN])]
        ys = [0.2, np.array([-0.5]), np.linspace(-1., 1., 5), np.array([]),
              np.array([0., -3., NAN])]
    return xs, ys


def readonly_calls(trans, name):
    xs, ys = transform_inputs(name)
    calls = []
    for x in xs:
        calls.append(("forward", lambda x=x: trans.forward(x), x))
        calls.append(("jacobian", lambda x=x: trans.jacobian(x), x))
    for y in ys:
        calls.append(("backward", lambda y=y: trans.backward(y), y))
    calls.append(("params_sample", lambda: trans.params_sample(), None))
    calls.append(("params_sample7", lambda: trans.params_sample(7), None))
    calls.append(("params_logprior", lambda: trans.params_logprior(), None))
    calls.append(("str", lambda: str(trans), None))
    calls.append(("str params", lambda: str(trans.params)
                  + str(trans.constants), None))
    calls.append(("read", lambda: [trans[n] for n in trans.params.names]
                  + [getattr(trans, n) for n in trans.constants.names], None))
    return calls


def assignments(trans, pm, cm):
    """ (description, function, model update) for parameter / constant
    assignments through every route """
    out = []
    for who, vec, m in (("params", trans.params, pm),
                        ("constants", trans.constants, cm)):
        for i, nm in enumerate(m.names):
            for x in candidates(m.mins[i], m.maxs[i], level=2):
                routes = [
                    ("{0}[{1}]={2}".format(who, nm, x),
                     lambda vec=vec, nm=nm, x=x: vec.__setitem__(nm, x)),
                    ("{0}.{1}={2}".format(who, nm, x),
                     lambda vec=vec, nm=nm, x=x: setattr(vec, nm, x)),
                    ("trans[{0}]={1}".format(nm, x),
                     lambda nm=nm, x=x: trans.__setitem__(nm, x)),
                    ("trans.{0}={1}".format(nm, x),
                     lambda nm=nm, x=x: setattr(trans, nm, x)),
                ]
                for desc, fun in routes:
                    out.append((desc, fun,
                                lambda mm, i=i, x=x: mm.set_one(i, x), who))
        if m.n > 0:
            per = [candidates(lo, hi, level=1)
                   for lo, hi in zip(m.mins, m.maxs)]
            for t in list(itertools.product(*per))[:60]:
                out.append(("{0}.values={1}".format(who, t),
                            lambda vec=vec, t=t: setattr(vec, "values",
                                                         list(t)),
                            lambda mm, t=t: mm.set_all(list(t)), who))
            out.append(("{0}.values=badlen".format(who),
                        lambda vec=vec, n=m.n: setattr(vec, "values",
                                                       [0.5] * (n + 1)),
                        lambda mm, n=m.n: mm.set_all([0.5] * (n + 1)), who))
    out.append(("trans.reset()", lambda: trans.reset(),
                lambda mm: (mm.reset(), True)[1], "params"))
    out.append(("trans[unknown]", lambda: trans.__setitem__("no_such", 1.),
                lambda mm: False, "params"))
    return out


def set_valid_constants(trans):
    for nm, val in (("nu", 0.1), ("lam", 0.3), ("xmax", 12.)):
        if nm in list(trans.constants.names):
            trans.constants[nm] = val


def part_transforms(rng, scale):
    ncalls = 0
    for name in transform.__all__:
        for variant in range(3):
            if variant == 0:
                trans = getattr(transform, name)()
            elif variant == 1:
                trans = transform.get_transform(name)
                set_valid_constants(trans)
            else:
                trans = transform.get_transform(name)
                set_valid_constants(trans)
                # start from non default parameters
                for i, nm in enumerate(list(trans.params.names)):
                    pm0 = model_of(trans.params)
                    trans.params[nm] = alternative(pm0, i)

            pm = model_of(trans.params)
            cm = model_of(trans.constants)
            check_against_model(trans.params, pm, name + " params init")
            check_against_model(trans.constants, cm, name + " const init")
            calls = readonly_calls(trans, name)
            assigns = assignments(trans, pm, cm)
            where = name

            def do_assign(a):
                desc, fun, upd, who = a
                m = pm if who == "params" else cm
                trial = m.copy()
                before_p = observe(trans.params)
                before_c = observe(trans.constants)
                if upd(trial):
                    fun()
                    upd(m)
                else:
                    try:
                        fun()
                    except Exception:
                        pass
                    else:
                        raise Failure(name + " " + desc + " not rejected")
                    check(same_obs(observe(trans.params), before_p)
                          and same_obs(observe(trans.constants), before_c),
                          name, desc, "rejected assignment changed state")
                check_against_model(trans.params, pm, name + " " + desc)
                check_against_model(trans.constants, cm, name + " " + desc)

            def do_call(c):
                cname, fun, arg = c
                before_p = observe(trans.params)
                before_c = observe(trans.constants)
                keep = np.array(arg, dtype=float, copy=True) \
                    if arg is not None else None
                try:
                    fun()
                except Exception:
                    # e.g. constants not set: an error is fine, but it
                    # still has to be read-only
                    pass
                check(same_obs(observe(trans.params), before_p), name,
                      cname, "changed the parameters")
                check(same_obs(observe(trans.constants), before_c), name,
                      cname, "changed the constants")
                if keep is not None:
                    check(same(keep, arg), name, cname, "changed its input")
                check_against_model(trans.params, pm, name + " " + cname)
                check_against_model(trans.constants, cm, name + " " + cname)

            # all read-only calls in the initial state, twice
            for c in calls + calls:
                do_call(c)
                ncalls += 1

            # every assignment followed by a few read-only calls
            # (rotating so that every (assignment kind, call) pair occurs)
            k = 0
            for a in assigns:
                do_assign(a)
                for _ in range(2):
                    do_call(calls[k % len(calls)])
                    k += 1
                    ncalls += 1

            # every read-only call between two assignments
            for j, c in enumerate(calls):
                do_assign(assigns[(7 * j) % len(assigns)])
                do_call(c)
                do_assign(assigns[(11 * j + 3) % len(assigns)])
                do_call(c)
                ncalls += 2

            # random interleavings
            for _ in range(int(150 * scale)):
                if rng.random() < 0.5:
                    do_assign(rng.choice(assigns))
                else:
                    do_call(rng.choice(calls))
                    ncalls += 1

            # clone / dictionary round trip of parameter vectors in the end
            for vec, m in ((trans.params, pm), (trans.constants, cm)):
                w = vec.clone()
                check_against_model(w, m, name + " clone")
                w2 = Vector.from_dict(vec.to_dict())
                check_against_model(w2, m, name + " dict")
                no_shared_memory(vec, w, name)
                no_shared_memory(vec, w2, name)
    return ncalls


def main():
    scale = float(sys.argv[1]) if len(sys.argv) > 1 else 1.
    rng = random.Random(20240612)
    np.random.seed(5446)
    try:
        nseq = part_vectors(rng, scale)
        ncalls = part_transforms(rng, scale)
        nseq += part_focus(rng, scale)
    except Failure as err:
        print("PROPERTY VIOLATED:", err)
        return 1
    print("C12 demo: {0} operation sequences on vectors, {1} read-only "
          "transform calls, {2} individual checks: all passed".format(
              nseq, ncalls, NCHECKS[0]))
    return 0


if __name__ == "__main__":
    sys.exit(main())
