#!/usr/bin/env python
""" C07 demo: grid cell numbers, rows/columns and coordinates are mutually
consistent.

Run as:  PYTHONPATH=<tree>/src /venv/bin/python demo.py

Checks (all inside the stated quantifier of the property):
  * row-major numbering from the top-left corner (cell2rowcol);
  * cell2coord returns the cell centre;
  * coord2cell returns c for points inside the footprint of c (including
    points 1e-9 relative away from the four edges and the four corners) and
    -1 outside the extent (four sides + four diagonals, near to far);
  * coord2cell(cell2coord(c)) == c;
  * neighbours agree with the numbering, are symmetric, mirror, are -1 off
    the grid;
  * invalid cell numbers are flagged (-1 / NaN / an error), never mapped.
plus a number of "usage pattern" checks (repeated calls, interleaved grids,
fresh results, geometry edited through the public attributes, clones,
assorted input layouts) which hold on the unmodified library too.

Exits 0 when everything holds, 1 otherwise.
"""
import sys
import copy
import pickle
import itertools
import numpy as np

from hydrodiy.gis.grid import Grid

NFAIL = 0
NCHECK = 0


def check(cond, msg):
    global NFAIL, NCHECK
    NCHECK += 1
    if not bool(cond):
        NFAIL += 1
        if NFAIL < 40:
            print("FAIL:", msg)


def expected_rowcol(cells, nrows, ncols):
    cells = np.asarray(cells, dtype=np.int64)
    return np.column_stack([cells // ncols, cells % ncols])


def expected_centre(cells, nrows, ncols, csz, xll, yll):
    rc = expected_rowcol(cells, nrows, ncols)
    x = xll + (rc[:, 1] + 0.5) * csz
    y = yll + (nrows - 1 - rc[:, 0] + 0.5) * csz
    return np.column_stack([x, y])


def expected_neighbours(c, nrows, ncols):
    row, col = divmod(int(c), int(ncols))
    out = []
    for dr in (-1, 0, 1):
        for dc in (-1, 0, 1):
            r, k = row + dr, col + dc
            if (dr == 0 and dc == 0) or r < 0 or r >= nrows \
                    or k < 0 or k >= ncols:
                out.append(-1)
            else:
                out.append(r * ncols + k)
    return np.array(out, dtype=np.int64)


def raises(fun, *args):
    try:
        fun(*args)
    except Exception:
        return True
    return False


def invalid_cells(ncells):
    i64 = np.iinfo(np.int64)
    return np.array([-1, -2, -ncells, -ncells - 1, ncells, ncells + 1,
                     2 * ncells, 2**31, -2**31, 2**62, -2**62,
                     i64.max, i64.min], dtype=np.int64)


def check_grid(nrows, ncols, csz, xll, yll, rng, full_neighbours=True):
    tag = f"[nr={nrows} nc={ncols} csz={csz!r} xll={xll!r} yll={yll!r}]"
    gr = Grid("demo", ncols, nrows, cellsize=csz, xllcorner=xll,
              yllcorner=yll)
    ncells = nrows * ncols
    cells = np.arange(ncells, dtype=np.int64)
    # absolute tolerance on coordinates / margin from edges
    scale = csz + abs(xll) + abs(yll) + max(nrows, ncols) * csz
    atol = 1e-11 * scale
    margin = 1e-9 * scale
    check(margin < 1e-3 * csz, tag + " margin small relative to cell")

    # --- numbering -------------------------------------------------------
    rc = gr.cell2rowcol(cells)
    check(isinstance(rc, np.ndarray) and rc.shape == (ncells, 2),
          tag + " cell2rowcol shape")
    check(np.array_equal(rc, expected_rowcol(cells, nrows, ncols)),
          tag + " cell2rowcol row-major from top-left")
    check(rc[0, 0] == 0 and rc[0, 1] == 0, tag + " cell 0 is top-left")
    check(rc[-1, 0] == nrows - 1 and rc[-1, 1] == ncols - 1,
          tag + " last cell is bottom-right")

    # --- centres ---------------------------------------------------------
    xy = gr.cell2coord(cells)
    check(isinstance(xy, np.ndarray) and xy.shape == (ncells, 2),
          tag + " cell2coord shape")
    xye = expected_centre(cells, nrows, ncols, csz, xll, yll)
    check(np.all(np.abs(xy - xye) <= atol), tag + " cell2coord = centre")
    # top-left cell has smallest x and largest y
    check(xy[0, 0] == xy[:, 0].min() and xy[0, 1] == xy[:, 1].max(),
          tag + " cell 0 centre is top-left")

    # --- round trip ------------------------------------------------------
    back = gr.coord2cell(xy)
    check(isinstance(back, np.ndarray) and back.shape == (ncells,),
          tag + " coord2cell shape")
    check(np.array_equal(back, cells), tag + " coord2cell(cell2coord(c))=c")
    # one at a time (length 1 inputs, scalars)
    for c in {0, ncells - 1, ncells // 2, min(1, ncells - 1)}:
        p = gr.cell2coord(c)
        check(p.shape == (1, 2), tag + " cell2coord scalar shape")
        check(gr.coord2cell(p)[0] == c, tag + f" round trip scalar c={c}")
        check(gr.coord2cell(p[0])[0] == c, tag + f" round trip 1d pt c={c}")
        check(gr.coord2cell([list(p[0])])[0] == c,
              tag + f" round trip list c={c}")
        r1 = gr.cell2rowcol(c)
        check(r1.shape == (1, 2) and r1[0, 0] == c // ncols
              and r1[0, 1] == c % ncols, tag + " cell2rowcol scalar")

    # --- points inside each footprint ------------------------------------
    half = 0.5 * csz - margin
    # awkward offsets: centre, four edges, four corners (margin away)
    offs = np.array(list(itertools.product([-half, 0., half], repeat=2)))
    for off in offs:
        pts = xye + off[None, :]
        got = gr.coord2cell(pts)
        check(np.array_equal(got, cells),
              tag + f" inside footprint offset={off/csz}")
    # random interior points, several per cell
    for _ in range(3):
        u = rng.uniform(-half, half, size=(ncells, 2))
        got = gr.coord2cell(xye + u)
        check(np.array_equal(got, cells), tag + " inside footprint random")
    # shuffled order + length 2
    perm = rng.permutation(ncells)
    got = gr.coord2cell((xye + rng.uniform(-half, half, (ncells, 2)))[perm])
    check(np.array_equal(got, cells[perm]), tag + " shuffled points")
    if ncells >= 2:
        got = gr.coord2cell(xye[[ncells - 1, 0]])
        check(np.array_equal(got, [ncells - 1, 0]), tag + " two points")

    # --- points outside the extent ---------------------------------------
    x0, x1 = xll, xll + ncols * csz
    y0, y1 = yll, yll + nrows * csz
    xin = np.array([x0 + margin, 0.5 * (x0 + x1), x1 - margin])
    yin = np.array([y0 + margin, 0.5 * (y0 + y1), y1 - margin])
    dists = np.array([margin, 1e-6 * csz + margin, 1e-3 * csz, 0.5 * csz,
                      csz, 1.5 * csz, ncols * csz, nrows * csz,
                      1e3 * csz, 1e6 * csz, 1e12 * csz, 1e100, 1e300])
    outside = []
    for d in dists:
        xl, xr, yb, yt = x0 - d, x1 + d, y0 - d, y1 + d
        for y in yin:
            outside += [[xl, y], [xr, y]]              # left, right
        for x in xin:
            outside += [[x, yb], [x, yt]]              # below, above
        outside += [[xl, yb], [xl, yt], [xr, yb], [xr, yt]]  # diagonals
    # different distances on the two axes for diagonals
    for dx, dy in itertools.permutations(dists[[0, 3, 9, 12]], 2):
        outside += [[x0 - dx, y1 + dy], [x1 + dx, y0 - dy],
                    [x0 - dx, y0 - dy], [x1 + dx, y1 + dy]]
    outside = np.array(outside)
    got = gr.coord2cell(outside)
    check(got.shape == (len(outside),) and np.all(got == -1),
          tag + f" outside points give -1 (bad: "
          f"{outside[got != -1][:3].tolist()})")
    # not-a-point inputs are never mapped to a cell either
    weird = np.array([[np.nan, yin[1]], [xin[1], np.nan], [np.nan, np.nan],
                      [np.inf, yin[1]], [-np.inf, yin[1]],
                      [xin[1], np.inf], [xin[1], -np.inf],
                      [np.inf, -np.inf]])
    got = gr.coord2cell(weird)
    check(np.all(got == -1), tag + " nan/inf points give -1")
    # mix inside / outside in one call
    mix = np.vstack([xye[:1], outside[:3], xye[-1:], weird[:2], xye[:1]])
    got = gr.coord2cell(mix)
    check(np.array_equal(got, [0, -1, -1, -1, ncells - 1, -1, -1, 0]),
          tag + " mixed inside/outside")

    # --- invalid cell numbers --------------------------------------------
    bad = invalid_cells(ncells)
    xyb = gr.cell2coord(bad)
    check(xyb.shape == (len(bad), 2) and np.all(np.isnan(xyb)),
          tag + " cell2coord invalid -> nan")
    rcb = gr.cell2rowcol(bad)
    check(rcb.shape == (len(bad), 2) and np.all(rcb == -1),
          tag + " cell2rowcol invalid -> -1")
    for b in bad:
        check(raises(gr.neighbours, b), tag + f" neighbours({b}) raises")
        check(np.all(np.isnan(gr.cell2coord(b))),
              tag + f" cell2coord({b}) nan")
        check(np.all(gr.cell2rowcol(b) == -1),
              tag + f" cell2rowcol({b}) -1")
    # mixed valid / invalid in one call, invalid first, last and repeated
    mixc = np.array([-1, 0, ncells, ncells - 1, -1, 0, 2**62, ncells - 1],
                    dtype=np.int64)
    ok = np.array([False, True, False, True, False, True, False, True])
    xym = gr.cell2coord(mixc)
    rcm = gr.cell2rowcol(mixc)
    check(np.all(np.isnan(xym[~ok])) and
          np.all(np.abs(xym[ok] - expected_centre(mixc[ok], nrows, ncols,
                                                   csz, xll, yll)) <= atol),
          tag + " cell2coord mixed")
    check(np.all(rcm[~ok] == -1) and
          np.array_equal(rcm[ok], expected_rowcol(mixc[ok], nrows, ncols)),
          tag + " cell2rowcol mixed")
    # empty input
    check(gr.cell2coord(np.zeros(0, dtype=np.int64)).shape == (0, 2),
          tag + " cell2coord empty")
    check(gr.cell2rowcol(np.zeros(0, dtype=np.int64)).shape == (0, 2),
          tag + " cell2rowcol empty")

    # --- neighbours ------------------------------------------------------
    if full_neighbours:
        ncheck = cells
    else:
        # corners, edges and a sample of the interior
        ncheck = np.unique(np.concatenate([
            cells[:ncols + 2], cells[-ncols - 2:],
            cells[::ncols], cells[ncols - 1::ncols],
            rng.choice(cells, 60)]))
    allnb = {}
    for c in ncheck:
        nb = gr.neighbours(c)
        allnb[int(c)] = nb
        check(isinstance(nb, np.ndarray) and nb.shape == (9,),
              tag + " neighbours shape")
        check(np.array_equal(nb, expected_neighbours(c, nrows, ncols)),
              tag + f" neighbours({c}) agree with numbering")
        check(nb[4] == -1, tag + " centre slot is -1")
        # agree with cell2rowcol
        valid = nb >= 0
        if valid.any():
            rcn = gr.cell2rowcol(nb[valid])
            k = np.arange(9)[valid]
            check(np.array_equal(rcn[:, 0] - c // ncols, k // 3 - 1)
                  and np.array_equal(rcn[:, 1] - c % ncols, k % 3 - 1),
                  tag + f" neighbours({c}) positions")
    for c, nb in allnb.items():
        for k in range(9):
            d = int(nb[k])
            if d < 0:
                continue
            nbd = allnb[d] if d in allnb else gr.neighbours(d)
            check(nbd[8 - k] == c,
                  tag + f" neighbours symmetric/mirror c={c} k={k}")

    return gr


def usage_patterns(rng):
    """ Histories of calls on the public API: results must not depend on
    what was called before. """
    ga = Grid("a", 5, 7, cellsize=2., xllcorner=130., yllcorner=-39.)
    gb = Grid("b", 3, 2, cellsize=0.025, xllcorner=-250., yllcorner=12.5)

    ca = np.arange(35)
    cb = np.arange(6)
    xa = expected_centre(ca, 7, 5, 2., 130., -39.)
    xb = expected_centre(cb, 2, 3, 0.025, -250., 12.5)

    # interleaved calls on two grids, repeated
    for _ in range(3):
        check(np.allclose(ga.cell2coord(ca), xa, rtol=0, atol=1e-9),
              "interleave a centre")
        check(np.allclose(gb.cell2coord(cb), xb, rtol=0, atol=1e-9),
              "interleave b centre")
        check(np.array_equal(ga.coord2cell(xa), ca), "interleave a cell")
        check(np.array_equal(gb.coord2cell(xb), cb), "interleave b cell")
        check(np.all(gb.coord2cell(xa) == -1), "a centres outside b")
        check(np.array_equal(ga.neighbours(6),
                             expected_neighbours(6, 7, 5)), "interleave nb a")
        check(np.array_equal(gb.neighbours(4),
                             expected_neighbours(4, 2, 3)), "interleave nb b")
        check(np.array_equal(ga.cell2rowcol(ca),
                             expected_rowcol(ca, 7, 5)), "interleave rc a")
        check(np.array_equal(gb.cell2rowcol(cb),
                             expected_rowcol(cb, 2, 3)), "interleave rc b")

    # an error does not poison later calls
    check(raises(ga.neighbours, 35), "neighbours(ncells) raises")
    check(np.array_equal(ga.neighbours(34), expected_neighbours(34, 7, 5)),
          "neighbours fine after error")
    check(raises(ga.coord2cell, np.zeros((3, 3))), "bad shape rejected")
    check(np.array_equal(ga.coord2cell(xa), ca), "coord2cell fine after error")

    # results are fresh: editing them does not change later answers
    r = ga.cell2coord(ca)
    r[:] = -999.
    check(np.allclose(ga.cell2coord(ca), xa, rtol=0, atol=1e-9),
          "cell2coord result is fresh")
    r = ga.cell2rowcol(ca)
    r[:] = -999
    check(np.array_equal(ga.cell2rowcol(ca), expected_rowcol(ca, 7, 5)),
          "cell2rowcol result is fresh")
    r = ga.neighbours(12)
    r[:] = -999
    check(np.array_equal(ga.neighbours(12), expected_neighbours(12, 7, 5)),
          "neighbours result is fresh")
    r = ga.coord2cell(xa)
    r[:] = -999
    check(np.array_equal(ga.coord2cell(xa), ca), "coord2cell result fresh")
    # ... and inputs are not modified
    xin = xa.copy()
    cin = ca.copy()
    ga.coord2cell(xin)
    ga.cell2coord(cin)
    ga.cell2rowcol(cin)
    check(np.array_equal(xin, xa) and np.array_equal(cin, ca),
          "inputs untouched")

    # input layouts
    xf = np.asfortranarray(xa)
    xr = xa.copy()
    xr.setflags(write=False)
    cr = ca.copy()
    cr.setflags(write=False)
    wide = np.zeros((35, 6))
    wide[:, ::3] = xa
    for nm, pts in [("fortran", xf), ("readonly", xr), ("list", xa.tolist()),
                    ("strided", wide[:, ::3]), ("reversed", xa[::-1][::-1]),
                    ("float32", xa.astype(np.float32)),
                    ("int", np.round(xa).astype(np.int64))]:
        check(np.array_equal(ga.coord2cell(pts), ca), f"layout {nm}")
    for nm, cc in [("readonly", cr), ("list", ca.tolist()),
                   ("int32", ca.astype(np.int32)),
                   ("uint8", ca.astype(np.uint8)),
                   ("strided", np.repeat(ca, 2)[::2]),
                   ("tuple", tuple(ca.tolist()))]:
        check(np.allclose(ga.cell2coord(cc), xa, rtol=0, atol=1e-9),
              f"cell layout {nm} cell2coord")
        check(np.array_equal(ga.cell2rowcol(cc), expected_rowcol(ca, 7, 5)),
              f"cell layout {nm} cell2rowcol")
    for c in [np.int32(7), np.int64(7), 7, np.array(7)]:
        check(np.array_equal(ga.neighbours(c), expected_neighbours(7, 7, 5)),
              "neighbours scalar types")

    # geometry edited through the public attributes is honoured
    gc = ga.clone()
    gc.xllcorner = -10.
    gc.yllcorner = 1000.
    gc.cellsize = 0.5
    xc = expected_centre(ca, 7, 5, 0.5, -10., 1000.)
    check(np.allclose(gc.cell2coord(ca), xc, rtol=0, atol=1e-9),
          "edited geometry: centres")
    check(np.array_equal(gc.coord2cell(xc), ca), "edited geometry: cells")
    check(np.all(gc.coord2cell(xa) == -1), "edited geometry: old pts outside")
    # ... without touching the grid it was cloned from
    check(np.allclose(ga.cell2coord(ca), xa, rtol=0, atol=1e-9),
          "clone independent: centres")
    check(np.array_equal(ga.coord2cell(xa), ca), "clone independent: cells")
    check(ga.xllcorner == 130. and ga.yllcorner == -39.
          and ga.cellsize == 2. and ga.nrows == 7 and ga.ncols == 5,
          "clone independent: attributes")
    check(gc.xllcorner == -10. and gc.yllcorner == 1000.
          and gc.cellsize == 0.5, "edited attributes read back")
    check(gc.xlim == (-10., -7.5) and gc.ylim == (1000., 1003.5), "xlim/ylim")

    # copies, pickles and dictionaries keep the geometry
    for nm, g2 in [("deepcopy", copy.deepcopy(gb)),
                   ("copy", copy.copy(gb)),
                   ("pickle", pickle.loads(pickle.dumps(gb))),
                   ("dict", Grid.from_dict(gb.to_dict())),
                   ("clone int", gb.clone(np.int32))]:
        check(np.allclose(g2.cell2coord(cb), xb, rtol=0, atol=1e-12),
              f"{nm}: centres")
        check(np.array_equal(g2.coord2cell(xb), cb), f"{nm}: cells")
        check(np.array_equal(g2.neighbours(0), expected_neighbours(0, 2, 3)),
              f"{nm}: neighbours")
        check(g2.same_geometry(gb), f"{nm}: same geometry")
    for att, typ in [("nrows", np.int64), ("ncols", np.int64),
                     ("cellsize", np.float64), ("xllcorner", np.float64),
                     ("yllcorner", np.float64)]:
        check(isinstance(getattr(gb, att), typ), f"type of {att}")
    # nrows defaults to ncols
    gs = Grid("sq", 4)
    check(gs.nrows == 4 and gs.ncols == 4 and gs.shape == (4, 4), "square")
    check(np.array_equal(gs.coord2cell(gs.cell2coord(np.arange(16))),
                         np.arange(16)), "square round trip")

    # many points in one call (several internal blocks, if any) and
    # the same points one block at a time
    gl = Grid("large", 211, 97, cellsize=0.3, xllcorner=-31.7,
              yllcorner=1502.3)
    nl = 211 * 97
    cl = rng.integers(-50, nl + 50, size=30011)
    okl = (cl >= 0) & (cl < nl)
    xl = gl.cell2coord(cl)
    check(np.all(np.isnan(xl[~okl])) and not np.any(np.isnan(xl[okl])),
          "large: nan exactly on invalid")
    check(np.allclose(xl[okl], expected_centre(cl[okl], 97, 211, 0.3,
                                               -31.7, 1502.3),
                      rtol=0, atol=1e-9), "large: centres")
    rl = gl.cell2rowcol(cl)
    check(np.all(rl[~okl] == -1) and
          np.array_equal(rl[okl], expected_rowcol(cl[okl], 97, 211)),
          "large: rowcol")
    pl = np.where(np.isnan(xl), -1e7, xl) \
        + rng.uniform(-0.149, 0.149, size=xl.shape)
    bl = gl.coord2cell(pl)
    check(np.array_equal(bl, np.where(okl, cl, -1)), "large: coord2cell")
    for start in [0, 1, 1023, 1024, 4095, 4096, 30010]:
        for n in [1, 2, 1023, 1024, 1025]:
            sl = slice(start, start + n)
            if len(cl[sl]) == 0:
                continue
            a = gl.cell2coord(cl[sl])
            check(np.array_equal(a, xl[sl], equal_nan=True),
                  "large: slices same as whole (cell2coord)")
            check(np.array_equal(gl.cell2rowcol(cl[sl]), rl[sl]),
                  "large: slices same as whole (cell2rowcol)")
            check(np.array_equal(gl.coord2cell(pl[sl]), bl[sl]),
                  "large: slices same as whole (coord2cell)")
    # xvalues / yvalues are the centres of first row / first column
    check(np.allclose(gl.xvalues, -31.7 + (np.arange(211) + 0.5) * 0.3,
                      rtol=0, atol=1e-9), "xvalues")
    check(np.allclose(gl.yvalues, 1502.3 + (96 - np.arange(97) + 0.5) * 0.3,
                      rtol=0, atol=1e-9), "yvalues")


def main():
    rng = np.random.default_rng(7)

    shapes = [(1, 1), (1, 2), (2, 1), (2, 2), (1, 7), (7, 1), (3, 3),
              (7, 5), (4, 9)]
    # cell sizes over eight orders of magnitude, not only powers of two
    sizes = [1e-4, 0.025, 1. / 3, 1., 2., 3.7, 250., 1e4]
    # origins (in cell sizes) up to 1e4 cell sizes from zero
    origins = [(0., 0.), (-1e4, 1e4), (1e4, -1e4), (1234.567, -9876.54321),
               (-0.5, 0.25), (-3., -2.), (9999.9, 9999.9)]

    ngrid = 0
    for (nr, nc), csz in itertools.product(shapes, sizes):
        # rotate through the origins so that every shape meets every origin
        for k in range(2):
            ox, oy = origins[(ngrid + 3 * k) % len(origins)]
            check_grid(nr, nc, csz, ox * csz, oy * csz, rng)
        ngrid += 1
    # every origin with every size on one awkward shape
    for csz, (ox, oy) in itertools.product(sizes, origins):
        check_grid(3, 2, csz, ox * csz, oy * csz, rng)
    # origins that are not multiples of the cell size
    for csz in sizes:
        check_grid(5, 4, csz, 1e4 * csz - 0.3 * csz, -777.123456789 * csz,
                   rng)
        check_grid(2, 3, csz, 17.03, -0.001, rng)
    # larger grids (neighbours sampled)
    check_grid(37, 53, 0.05, 112., -44., rng, full_neighbours=False)
    check_grid(53, 37, 9000., -9e7, 9e7, rng, full_neighbours=False)
    check_grid(1, 300, 1e-4, 0.9999, -1., rng, full_neighbours=False)
    check_grid(300, 1, 1e4, -1e8, 1e8, rng, full_neighbours=False)

    usage_patterns(rng)

    print(f"{NCHECK} checks, {NFAIL} failures")
    return 1 if NFAIL else 0


if __name__ == "__main__":
    sys.exit(main())
