#!/usr/bin/env python
"""Self-contained check of property C12 (bounded parameter vectors keep their
invariants under any history).

Run as:  PYTHONPATH=<tree>/src /venv/bin/python demo.py

The program carries an independent pure-Python reference model of a bounded
vector and drives hydrodiy.data.containers.Vector (and the parameter /
constant vectors of every transform class in hydrodiy.stat.transform) through
operation sequences, exhaustively up to a fixed depth and randomly beyond.
After every single operation it compares the full observable state with the
model.  Exit status 0 means that every check passed.
"""
import itertools
import math
import random
import sys
import warnings

import numpy as np

from hydrodiy.data.containers import Vector
from hydrodiy.stat import transform

warnings.filterwarnings("ignore")
np.seterr(all="ignore")

NAN = float("nan")
INF = float("inf")
NCHECKS = [0]


def fail(msg):
    print("C12 VIOLATION: " + msg)
    sys.exit(1)


def same(a, b):
    """ Exact equality of float arrays, NaN equal to NaN """
    a = np.atleast_1d(np.asarray(a, dtype=np.float64))
    b = np.atleast_1d(np.asarray(b, dtype=np.float64))
    if a.shape != b.shape:
        return False
    return bool(np.all((a == b) | (np.isnan(a) & np.isnan(b))))


def isnan(x):
    return x != x


# ---------------------------------------------------------------------------
# Reference model
# ---------------------------------------------------------------------------
class Model(object):
    def __init__(self, names, defaults, mins, maxs, ckhit, nanok):
        self.names = [str(n) for n in names]
        self.n = len(self.names)
        self.defaults = [float(x) for x in defaults]
        self.mins = [float(x) for x in mins]
        self.maxs = [float(x) for x in maxs]
        self.ckhit = bool(ckhit)
        self.nanok = bool(nanok)
        self.values = list(self.defaults)
        self.hit = False

    def copy(self):
        m = Model(self.names, self.defaults, self.mins, self.maxs,
                  self.ckhit, self.nanok)
        m.values = list(self.values)
        m.hit = self.hit
        return m

    def clip(self, i, x):
        if isnan(x):
            return x
        if x < self.mins[i]:
            return self.mins[i]
        if x > self.maxs[i]:
            return self.maxs[i]
        return x

    def out(self, i, x):
        return (not isnan(x)) and (x < self.mins[i] or x > self.maxs[i])

    def set_one(self, i, x):
        """ returns True if accepted """
        if isnan(x) and not self.nanok:
            return False
        self.values[i] = self.clip(i, x)
        if self.ckhit:
            self.hit = self.out(i, x)
        return True

    def set_all(self, xs):
        if len(xs) != self.n:
            return False
        if any(isnan(x) for x in xs) and not self.nanok:
            return False
        self.values = [self.clip(i, x) for i, x in enumerate(xs)]
        self.hit = self.ckhit and any(self.out(i, x)
                                      for i, x in enumerate(xs))
        return True

    def reset(self):
        self.values = list(self.defaults)
        self.hit = False


def build(model):
    """ Build the library vector corresponding to a (fresh) model """
    if model.n == 0:
        return Vector([], check_hitbounds=model.ckhit,
                      accept_nan=model.nanok)
    return Vector(list(model.names), list(model.defaults),
                  list(model.mins), list(model.maxs),
                  check_hitbounds=model.ckhit, accept_nan=model.nanok)


def check(vec, m, where):
    """ Compare full observable state of vec with the model """
    NCHECKS[0] += 1
    if vec.nval != m.n:
        fail("%s: nval %r != %r" % (where, vec.nval, m.n))
    if [str(x) for x in vec.names] != m.names:
        fail("%s: names changed: %r" % (where, vec.names))
    if not same(vec.mins, m.mins):
        fail("%s: mins changed: %r != %r" % (where, vec.mins, m.mins))
    if not same(vec.maxs, m.maxs):
        fail("%s: maxs changed: %r != %r" % (where, vec.maxs, m.maxs))
    if not same(vec.defaults, m.defaults):
        fail("%s: defaults changed: %r != %r" % (where, vec.defaults,
                                                 m.defaults))
    if bool(vec.check_hitbounds) != m.ckhit or bool(vec.accept_nan) != m.nanok:
        fail("%s: flags changed" % where)

    vals = np.array(vec.values, dtype=np.float64)
    if not same(vals, m.values):
        fail("%s: values %r, expected %r" % (where, vals, m.values))
    if bool(vec.hitbounds) != m.hit:
        fail("%s: hitbounds %r, expected %r (values %r)"
             % (where, vec.hitbounds, m.hit, vals))

    for i, nm in enumerate(m.names):
        v = float(vals[i])
        if isnan(v):
            if not m.nanok:
                fail("%s: NaN stored but not allowed" % where)
        elif not (m.mins[i] <= v <= m.maxs[i]):
            fail("%s: value %r outside [%r, %r]" % (where, v, m.mins[i],
                                                    m.maxs[i]))
        if not same(vec[nm], v) or not same(getattr(vec, nm), v):
            fail("%s: item/attribute access to %s inconsistent" % (where, nm))

    dct = vec.to_dict()
    if dct["nval"] != m.n or len(dct["data"]) != m.n \
            or bool(dct["hitbounds"]) != m.hit \
            or bool(dct["check_hitbounds"]) != m.ckhit \
            or bool(dct["accept_nan"]) != m.nanok:
        fail("%s: to_dict header wrong: %r" % (where, dct))
    for i, e in enumerate(dct["data"]):
        if str(e["name"]) != m.names[i] or not same(e["value"], m.values[i]) \
                or not same(e["min"], m.mins[i]) \
                or not same(e["max"], m.maxs[i]) \
                or not same(e["default"], m.defaults[i]):
            fail("%s: to_dict element %d wrong: %r" % (where, i, e))


def must_fail(fun, vec, m, where):
    try:
        fun()
    except Exception:
        pass
    else:
        fail("%s: assignment should have been rejected" % where)
    check(vec, m, where + " (after rejection)")


# ---------------------------------------------------------------------------
# Operations.  Each returns the (vector, model) pair to continue with and
# appends abandoned pairs to `retired` so that their independence from the
# continuing object can be verified at the end of the sequence.
# ---------------------------------------------------------------------------
def op_set_attr(vec, m, retired, i, x):
    nm = m.names[i]
    mm = m.copy()
    if mm.set_one(i, x):
        setattr(vec, nm, x)
        m.set_one(i, x)
    else:
        must_fail(lambda: setattr(vec, nm, x), vec, m, "attr NaN")
    return vec, m


def op_set_key(vec, m, retired, i, x):
    nm = m.names[i]
    mm = m.copy()
    if mm.set_one(i, x):
        vec[nm] = x
        m.set_one(i, x)
    else:
        def fun():
            vec[nm] = x
        must_fail(fun, vec, m, "key NaN")
    return vec, m


def op_set_all(vec, m, retired, xs, kind=0):
    mm = m.copy()
    if kind == 0:
        arg = list(xs)
    elif kind == 1:
        arg = np.array(xs, dtype=np.float64)
    else:
        arg = tuple(xs)
    if mm.set_all(xs):
        vec.values = arg
        m.set_all(xs)
        if isinstance(arg, np.ndarray) and arg.size > 0:
            # the vector must not alias the caller's array
            keep = arg.copy()
            arg[:] = 12345.678
            check(vec, m, "set_all aliasing")
            arg[:] = keep
    else:
        def fun():
            vec.values = arg
        must_fail(fun, vec, m, "set_all rejected %r" % (xs,))
    return vec, m


def op_reset(vec, m, retired):
    vec.reset()
    m.reset()
    return vec, m


def op_clone(vec, m, retired):
    vec2 = vec.clone()
    m2 = m.copy()
    check(vec2, m2, "clone")
    for a, b in [(vec.values, vec2.values), (vec.mins, vec2.mins),
                 (vec.maxs, vec2.maxs), (vec.defaults, vec2.defaults)]:
        if m.n > 0 and np.shares_memory(a, b):
            fail("clone shares memory with the original")
    # perturb the original: the clone must not move
    xs = [m.defaults[i] if j % 2 == 0 else m.maxs[i] + 3.
          for j, i in enumerate(range(m.n))]
    xs = [0. if isnan(x) and not m.nanok else x for x in xs]
    if m.set_all(xs):
        vec.values = xs
    check(vec, m, "original after clone")
    check(vec2, m2, "clone after original moved")
    retired.append((vec, m))
    return vec2, m2


def op_dict(vec, m, retired):
    dct = vec.to_dict()
    vec2 = Vector.from_dict(dct)
    m2 = m.copy()
    check(vec2, m2, "from_dict(to_dict)")
    if m.n > 0 and np.shares_memory(vec.values, vec2.values):
        fail("dict round trip shares memory with the original")
    # tampering with the dictionary afterwards changes nobody
    dct["hitbounds"] = not m.hit
    for e in dct["data"]:
        e["value"] = 4321.
        e["min"] = -4321.
        e["name"] = "tampered"
    check(vec, m, "original after dict tampering")
    check(vec2, m2, "copy after dict tampering")
    # perturb the original
    xs = [m.mins[i] - 2. for i in range(m.n)]
    if m.set_all(xs):
        vec.values = xs
    check(vec2, m2, "dict copy after original moved")
    retired.append((vec, m))
    return vec2, m2


def op_fail_len(vec, m, retired, delta):
    n = m.n + delta
    if n < 0:
        n = m.n + 1
    xs = [0.5] * n
    if n == m.n:
        return vec, m

    def fun():
        vec.values = xs
    must_fail(fun, vec, m, "wrong length %d" % n)

    def fun2():
        vec.values = np.array(xs)
    must_fail(fun2, vec, m, "wrong length array %d" % n)
    if m.n != 1:
        def fun3():
            vec.values = 0.25
        must_fail(fun3, vec, m, "scalar for length %d" % m.n)
    return vec, m


def op_fail_key(vec, m, retired):
    def fun():
        vec["not_a_name"] = 0.5
    must_fail(fun, vec, m, "unknown key set")

    def fun2():
        return vec["not_a_name"]
    must_fail(fun2, vec, m, "unknown key get")
    return vec, m


def op_fail_nan(vec, m, retired):
    """ only meaningful if NaN is not accepted and n>0 """
    if m.nanok or m.n == 0:
        return vec, m
    for i in range(m.n):
        op_set_attr(vec, m, retired, i, NAN)
        op_set_key(vec, m, retired, i, np.float64("nan"))
        xs = list(m.values)
        xs[i] = NAN
        op_set_all(vec, m, retired, xs, kind=i % 3)
    return vec, m


def run_sequence(m0, ops):
    m = m0.copy()
    m.reset()
    vec = build(m)
    check(vec, m, "fresh vector")
    retired = []
    for k, op in enumerate(ops):
        vec, m = op[0](vec, m, retired, *op[1:])
        check(vec, m, "after op %d %s" % (k, op[0].__name__))
    for j, (v, mm) in enumerate(retired):
        check(v, mm, "retired object %d at the end" % j)


# ---------------------------------------------------------------------------
# Input grids
# ---------------------------------------------------------------------------
def grid(lo, hi, full=False):
    """ values inside, on and outside (>=1e-6 away) the bounds """
    out = []
    if math.isinf(lo) and math.isinf(hi):
        out = [lo, -1e300, -1.5, 0., 2.5, 1e300, hi]
    elif math.isinf(lo):
        out = [lo, -1e300, hi - 3., hi - 1e-6, hi, hi + 1e-6, hi + 7., INF]
    elif math.isinf(hi):
        out = [-INF, lo - 7., lo - 1e-6, lo, lo + 1e-6, lo + 3., 1e300, hi]
    else:
        mid = 0.5 * (lo + hi)
        out = [lo - 1.5, lo - 1e-6, lo, mid, hi, hi + 1e-6, hi + 2.5]
        if full:
            out += [lo + 1e-6, hi - 1e-6, -INF, INF, -1e300, 1e300]
    if not full:
        # reduced grid for the exhaustive part
        if math.isinf(lo) and math.isinf(hi):
            out = [lo, 0., hi]
        elif math.isinf(lo):
            out = [lo, hi - 1e-6, hi, hi + 1e-6]
        elif math.isinf(hi):
            out = [lo - 1e-6, lo, lo + 1e-6, hi]
        else:
            out = [lo - 1e-6, lo, 0.5 * (lo + hi), hi, hi + 1e-6]
    return out


def alphabet(m, full=False):
    ops = []
    for i in range(m.n):
        for x in grid(m.mins[i], m.maxs[i], full) + [NAN]:
            ops.append((op_set_attr, i, x))
            ops.append((op_set_key, i, x))
    if m.n > 0:
        gr = [grid(m.mins[i], m.maxs[i], full) for i in range(m.n)]
        picks = [[g[0] for g in gr], [g[-1] for g in gr],
                 [g[len(g) // 2] for g in gr],
                 [g[(2 * i + 1) % len(g)] for i, g in enumerate(gr)],
                 list(m.mins), list(m.maxs)]
        withnan = [g[len(g) // 2] for g in gr]
        withnan[-1] = NAN
        picks.append(withnan)
        for k, xs in enumerate(picks):
            ops.append((op_set_all, xs, k % 3))
    else:
        ops.append((op_set_all, [], 0))
        ops.append((op_set_all, [], 1))
    ops.append((op_reset,))
    ops.append((op_clone,))
    ops.append((op_dict,))
    ops.append((op_fail_len, 1))
    ops.append((op_fail_len, -1))
    ops.append((op_fail_key,))
    ops.append((op_fail_nan,))
    return ops


def configs():
    """ (names, defaults, mins, maxs) families, 0 to 4 names """
    out = []
    out.append(([], [], [], []))
    out.append((["a"], [0.5], [0.], [1.]))
    out.append((["a"], [0.], [-INF], [INF]))
    out.append((["a"], [2.], [2.], [INF]))
    out.append((["a"], [-4.], [-INF], [-1.]))
    out.append((["a"], [1.], [1.], [1.]))
    out.append((["a", "b"], [0.5, -2.], [0., -INF], [1., 5.]))
    out.append((["x1", "x2"], [3., 3.], [3., -1e3], [INF, 1e3]))
    out.append((["p", "q", "r"], [0., 1e-5, 1.], [-INF, 1e-5, -1.],
                [INF, INF, 3.]))
    out.append((["a", "b", "c", "d"], [0.1, -0.1, 10., 0.],
                [0., -1., 10., -INF], [1., 0., 1e6, INF]))
    return out


def reduced(ops):
    """ smaller alphabet for the deepest exhaustive level: every kind of
        operation stays, with fewer value choices """
    out = []
    nkey = 0
    nall = 0
    for op in ops:
        if op[0] is op_set_key:
            # keep the first (below the bounds / on an infinite bound) and
            # the NaN value for key assignment
            nkey += 1
            if isnan(op[2]) or nkey == 1:
                out.append(op)
        elif op[0] is op_set_all:
            nall += 1
            if nall in (1, 2) or any(isnan(x) for x in op[1]):
                out.append(op)
        elif op[0] is op_fail_len and op[1] < 0:
            continue
        elif op[0] is op_fail_nan:
            continue
        else:
            out.append(op)
    return out


def exhaustive():
    nseq = 0
    for icfg, (names, defaults, mins, maxs) in enumerate(configs()):
        if len(names) > 2:
            continue
        for ckhit, nanok in itertools.product([False, True], repeat=2):
            m0 = Model(names, defaults, mins, maxs, ckhit, nanok)
            ops = alphabet(m0)
            # depth 2 with the full alphabet
            for d in (1, 2):
                for seq in itertools.product(ops, repeat=d):
                    run_sequence(m0, seq)
                    nseq += 1
            # depth 3 with the reduced alphabet (0 names, [0, 1], [2, inf[)
            if icfg in (0, 1, 3):
                for seq in itertools.product(reduced(ops), repeat=3):
                    run_sequence(m0, seq)
                    nseq += 1
            if nanok and len(names) > 0:
                # NaN defaults are legal when NaN is accepted
                m1 = Model(names, [NAN] * len(names), mins, maxs,
                           ckhit, nanok)
                for seq in itertools.product(reduced(alphabet(m1)),
                                             repeat=2):
                    run_sequence(m1, seq)
                    nseq += 1
    return nseq


def randomised(rng, nseq=200, length=40):
    cfgs = configs()
    for k in range(nseq):
        names, defaults, mins, maxs = cfgs[k % len(cfgs)]
        ckhit = rng.random() < 0.6
        nanok = rng.random() < 0.4
        if nanok and names and rng.random() < 0.3:
            defaults = [NAN if rng.random() < 0.5 else d for d in defaults]
        m0 = Model(names, defaults, mins, maxs, ckhit, nanok)
        ops = alphabet(m0, full=True)
        seq = []
        for _ in range(length):
            if m0.n > 0 and rng.random() < 0.3:
                # random whole vector inside / on / outside the bounds
                xs = []
                for i in range(m0.n):
                    g = grid(m0.mins[i], m0.maxs[i], True)
                    x = rng.choice(g)
                    if rng.random() < 0.3:
                        lo = max(m0.mins[i], -50.)
                        hi = min(m0.maxs[i], 50.)
                        x = rng.uniform(lo - 10., hi + 10.)
                        for b in (m0.mins[i], m0.maxs[i]):
                            if abs(x - b) < 1e-6:
                                x = b
                    xs.append(x)
                seq.append((op_set_all, xs, rng.randrange(3)))
            else:
                seq.append(rng.choice(ops))
        run_sequence(m0, seq)


def other_forms():
    """ lengths 1 and 2, scalar broadcast form, 2-d input, integer input """
    m = Model(["a"], [0.5], [0.], [1.], True, False)
    v = build(m)
    v.values = 0.75
    m.set_all([0.75])
    check(v, m, "scalar to length-1 vector")
    v.values = 3
    m.set_all([3.])
    check(v, m, "int scalar to length-1 vector")
    v.a = True
    m.set_one(0, 1.)
    check(v, m, "bool to attribute")

    m = Model(["a", "b", "c", "d"], [0.] * 4, [-1.] * 4, [1.] * 4,
              True, False)
    v = build(m)
    v.values = np.array([[0.5, 2.], [-1., 1.]])
    m.set_all([0.5, 2., -1., 1.])
    check(v, m, "2-d array to length-4 vector")
    v.values = np.arange(4)
    m.set_all([0., 1., 2., 3.])
    check(v, m, "integer array")
    v.values = v.values
    m.set_all(list(m.values))
    check(v, m, "self assignment")
    v.values = v.values[::-1]
    m.set_all(list(m.values)[::-1])
    check(v, m, "reversed self assignment")
    v.values = v.defaults
    m.set_all(list(m.defaults))
    v.a = 0.3
    m.set_one(0, 0.3)
    check(v, m, "defaults must not alias values")
    v.values = v.mins
    m.set_all(list(m.mins))
    v["b"] = 0.3
    m.set_one(1, 0.3)
    check(v, m, "mins must not alias values")

    # single-name constructor forms
    v = Vector("a")
    m = Model(["a"], [0.], [-INF], [INF], False, False)
    check(v, m, "Vector('a')")
    v = Vector(["a", "b"])
    m = Model(["a", "b"], [0., 0.], [-INF] * 2, [INF] * 2, False, False)
    check(v, m, "Vector(['a', 'b'])")
    v = Vector(["a", "b"], mins=[1., -5.], maxs=[2., -3])
    m = Model(["a", "b"], [1., -3.], [1., -5.], [2., -3.], False, False)
    check(v, m, "defaults derived from bounds")
    v = Vector(None)
    m = Model([], [], [], [], False, False)
    check(v, m, "Vector(None)")


# ---------------------------------------------------------------------------
# Transforms: read-only calls never move parameters, constants or bounds
# ---------------------------------------------------------------------------
CONSTANTS = {"BoxCox1lam": {"nu": 0.1}, "BoxCox1nu": {"lam": 0.5},
             "LogSinh": {"xmax": 5.}, "Manly": {"xmax": 5.}}


def model_of(vec):
    m = Model([str(n) for n in vec.names], list(vec.defaults),
              list(vec.mins), list(vec.maxs),
              bool(vec.check_hitbounds), bool(vec.accept_nan))
    m.values = [float(x) for x in vec.values]
    m.hit = bool(vec.hitbounds)
    return m


def readonly_calls(trans, rng):
    name = trans.name
    if name == "Softmax":
        x = np.array([[0.1, 0.2, 0.3], [0.05, 0.5, 0.2]])
        y = np.array([[-1., 0.5, 2.], [0., 0., 0.]])
        bad = np.array([[0.6, 0.6, 0.1]])
    else:
        x = np.linspace(-3., 7., 11)
        y = np.linspace(-2., 2., 9)
        bad = np.array([np.nan, -1e30, 1e30, 0.])
    calls = [lambda: trans.forward(x), lambda: trans.backward(y),
             lambda: trans.jacobian(x), lambda: trans.forward(bad),
             lambda: trans.backward(bad), lambda: trans.jacobian(bad),
             lambda: trans.params_sample(7), lambda: trans.params_sample(),
             lambda: trans.params_logprior(), lambda: str(trans),
             lambda: str(trans.params), lambda: str(trans.constants),
             lambda: trans.params.to_dict(), lambda: trans.params.to_series(),
             lambda: trans.backward_censored(y, 0.1)]
    if name != "Softmax":
        calls += [lambda: trans.forward(1.5), lambda: trans.backward(0.3),
                  lambda: trans.jacobian(1.5),
                  lambda: trans.backward(trans.forward(x))]
    return calls


def transforms(rng):
    for name in transform.__all__:
        for unset_constants in [False, True]:
            trans = transform.get_transform(name)
            if not unset_constants:
                for k, val in CONSTANTS.get(name, {}).items():
                    trans[k] = val
            elif name not in CONSTANTS:
                continue
            pm = model_of(trans.params)
            cm = model_of(trans.constants)
            check(trans.params, pm, name + " params initially")
            check(trans.constants, cm, name + " constants initially")
            calls = readonly_calls(trans, rng)

            for step in range(150):
                r = rng.random()
                if r < 0.6 or pm.n == 0:
                    fun = rng.choice(calls)
                    try:
                        out = fun()
                    except Exception:
                        # e.g. constants still NaN, invalid Softmax input
                        pass
                    check(trans.params, pm, name + " params after read-only")
                    check(trans.constants, cm,
                          name + " constants after read-only")
                    continue

                # parameter / constant assignment through the transform
                which = rng.random()
                if which < 0.8 or cm.n == 0:
                    vec, m = trans.params, pm
                else:
                    vec, m = trans.constants, cm
                i = rng.randrange(m.n)
                x = rng.choice(grid(m.mins[i], m.maxs[i], True) + [NAN])
                how = rng.randrange(6)
                nm = m.names[i]
                mm = m.copy()
                if how == 5:
                    trans.reset()
                    pm.reset()
                elif how == 4:
                    xs = [rng.choice(grid(m.mins[j], m.maxs[j], True))
                          for j in range(m.n)]
                    xs[i] = x
                    if mm.set_all(xs):
                        vec.values = xs
                        m.set_all(xs)
                    else:
                        def fun():
                            vec.values = xs
                        must_fail(fun, vec, m, name + " set_all NaN")
                else:
                    def fun():
                        if how == 0:
                            trans[nm] = x
                        elif how == 1:
                            setattr(trans, nm, x)
                        elif how == 2:
                            vec[nm] = x
                        else:
                            setattr(vec, nm, x)
                    if mm.set_one(i, x):
                        fun()
                        m.set_one(i, x)
                    else:
                        must_fail(fun, vec, m, name + " NaN rejected")
                check(trans.params, pm, name + " params after assignment")
                check(trans.constants, cm,
                      name + " constants after assignment")
                for j, nmj in enumerate(pm.names):
                    if not same(getattr(trans, nmj), pm.values[j]) or \
                            not same(trans[nmj], pm.values[j]):
                        fail(name + ": transform attribute access wrong")

    # two instances of the same class never share parameter state
    for name in transform.__all__:
        t1 = transform.get_transform(name)
        t2 = transform.get_transform(name)
        if t1.params.nval == 0:
            continue
        m2 = model_of(t2.params)
        t1.params.values = [x + 0.5 if np.isfinite(x) else 0.7
                            for x in t1.params.mins]
        t1.forward(np.array([[0.1, 0.2]])) if name == "Softmax" else None
        check(t2.params, m2, name + " second instance unaffected")


def main():
    rng = random.Random(1234)
    np.random.seed(4321)
    other_forms()
    nseq = exhaustive()
    randomised(rng)
    transforms(rng)
    print("exhaustive sequences: %d, state comparisons: %d"
          % (nseq, NCHECKS[0]))
    print("C12 demo OK")
    return 0


if __name__ == "__main__":
    sys.exit(main())
