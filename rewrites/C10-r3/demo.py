#!/usr/bin/env python
"""Property C10 demo: rank- and PIT-based forecast diagnostics depend only on
ranks and stay in range.

Run as:  PYTHONPATH=<tree>/src /venv/bin/python demo.py
Exits 0 when every check passes, 1 otherwise.

All inputs are inside the quantifier of the property: n >= 2 forecasts,
m >= 1 members, finite values lying on a coarse grid (so two values are either
exactly tied or separated by much more than the tie tolerance 1e-6, also after
the monotone maps), samples of 1..700 values in the open interval (0, 1) for
the uniformity statistics, values outside [0, 1] / NaN for the rejection.
"""
import sys
import math
import itertools
import warnings

import numpy as np

from hydrodiy.stat import metrics
import c_hydrodiy_stat

warnings.filterwarnings("ignore")

NFAIL = 0
NCHECK = 0


def check(cond, msg):
    global NFAIL, NCHECK
    NCHECK += 1
    if not cond:
        NFAIL += 1
        if NFAIL <= 40:
            print("FAIL:", msg)


# ----------------------------------------------------------------------------
# Reference implementations (textbook formulas)
# ----------------------------------------------------------------------------
def wm_fmat_ranks(sim):
    """ Weigel and Mason (2011), Eq. 1 and 2, by direct pairwise counting """
    sim = np.atleast_2d(np.asarray(sim, dtype=np.float64))
    n, m = sim.shape
    F = np.zeros((n, n))
    ranks = np.ones(n)
    for i in range(n):
        for j in range(i+1, n):
            a = sim[i][:, None]
            b = sim[j][None, :]
            # sum of mid-ranks of ensemble i within the pooled ensemble,
            # minus m(m+1)/2, equals #(a>b)+#(a==b)/2
            cross = np.sum(a > b) + 0.5*np.sum(a == b)
            # .. check this against explicit mid-ranks
            F[i, j] = cross/m/m
            if F[i, j] > 0.5:
                ranks[i] += 1
            elif F[i, j] < 0.5:
                ranks[j] += 1
            else:
                ranks[i] += 0.5
                ranks[j] += 0.5
    return F, ranks


def wm_fmat_midranks(sim):
    """ Same as above but literally via pooled mid-ranks """
    from scipy.stats import rankdata
    sim = np.atleast_2d(np.asarray(sim, dtype=np.float64))
    n, m = sim.shape
    F = np.zeros((n, n))
    for i in range(n):
        for j in range(i+1, n):
            rk = rankdata(np.concatenate([sim[i], sim[j]]))
            F[i, j] = (np.sum(rk[:m])-m*(m+1)/2)/m/m
    return F


def ensrank(sim, eps=1e-6):
    sim = np.ascontiguousarray(sim, dtype=np.float64)
    n = sim.shape[0]
    fmat = np.zeros((n, n))
    ranks = np.zeros(n)
    ierr = c_hydrodiy_stat.ensrank(np.float64(eps), sim, fmat, ranks)
    return ierr, fmat, ranks


def pearson(x, y):
    x = np.asarray(x, dtype=float)
    y = np.asarray(y, dtype=float)
    x = x-x.mean()
    y = y-y.mean()
    return float(np.sum(x*y)/math.sqrt(np.sum(x*x)*np.sum(y*y)))


def cvm_ref(x):
    xs = sorted(float(v) for v in x)
    n = len(xs)
    return 1./(12*n)+math.fsum(((2*i-1)/(2.*n)-xs[i-1])**2
                               for i in range(1, n+1))


def ad_ref(x):
    xs = sorted(float(v) for v in x)
    n = len(xs)
    s = math.fsum((2*i-1)*(math.log(xs[i-1])+math.log1p(-xs[n-i]))
                  for i in range(1, n+1))
    return -n-s/n


MAPS = {
    "exp": np.exp,
    "arctan": np.arctan,
    "cubic": lambda x: x**3,
    "affine": lambda x: 3.*x+2.,
    "affine_small": lambda x: 1e-2*x-7.
}


def grid_values(rng, shape, nlevels):
    """ values on a grid of step 0.5 in [-5, 5]: exact ties or gaps of at
    least 0.5 (still > 1e-3 after all the maps) """
    lev = rng.choice(np.arange(-10, 11), size=nlevels, replace=False)*0.5
    return rng.choice(lev, size=shape)


# ----------------------------------------------------------------------------
# A. discrimination score
# ----------------------------------------------------------------------------
def section_dscore():
    rng = np.random.default_rng(5446)
    TOL = 1e-12

    # A.1 Weigel and Mason (2011) worked example
    sim = np.array([[22, 23, 26, 27, 32],
                    [28, 31, 33, 34, 36],
                    [24, 25, 26, 27, 28]], dtype=np.float64)
    ierr, fmat, ranks = ensrank(sim)
    check(ierr == 0, "A1 ierr")
    check(np.allclose(fmat[np.triu_indices(3, 1)], [0.08, 0.44, 0.98],
                      atol=1e-14), "A1 fmat Weigel")
    check(np.array_equal(ranks, [1., 3., 2.]), "A1 ranks Weigel")

    # A.2 random grids, including heavy ties, identical ensembles, m=1
    for n, m, nlev in itertools.product([2, 3, 5, 17, 40],
                                        [1, 2, 3, 7, 20],
                                        [1, 2, 4, 15]):
        for rep in range(3):
            sim = grid_values(rng, (n, m), nlev)
            if rep == 1 and n > 2:
                # a few forecasts share exactly the same ensemble
                sim[1] = sim[0]
                sim[-1] = sim[0][::-1]
            obs = grid_values(rng, n, min(21, max(nlev, 2)))
            if rep == 2:
                # distinct observations
                obs = rng.permutation(np.arange(-10, 11))[:n]*0.5 \
                    if n <= 21 else rng.permutation(n)*0.5
            tag = f"A2 n={n} m={m} nlev={nlev} rep={rep}"

            # .. ensemble ranks = pairwise mid-rank comparison
            Fref, rref = wm_fmat_ranks(sim)
            Fmid = wm_fmat_midranks(sim)
            check(np.allclose(Fref, Fmid, atol=1e-13), tag+" (self-check)")
            ierr, fmat, ranks = ensrank(sim)
            iu = np.triu_indices(n, 1)
            check(ierr == 0, tag+" ierr")
            check(np.allclose(fmat[iu], Fref[iu], atol=1e-13),
                  tag+" fmat upper triangle")
            check(np.array_equal(ranks, rref), tag+" ranks")

            # .. range
            D = metrics.dscore(obs, sim)
            degenerate = np.all(rref == rref[0]) or np.all(obs == obs[0])
            if np.isnan(D):
                check(degenerate and np.all(rref == rref[0]),
                      tag+" D is nan for non-constant ranks")
                continue
            check(-1e-15 <= D <= 1+1e-15, tag+f" D={D} outside [0,1]")

            # .. D is the rank correlation between obs and WM ranks
            if len(np.unique(obs)) == n:
                oranks = np.argsort(np.argsort(obs))
                Dref = (pearson(oranks, rref)+1)/2
                check(abs(D-Dref) < 1e-10, tag+f" D={D} vs ref {Dref}")

            # .. invariances
            for nm, g in MAPS.items():
                D1 = metrics.dscore(g(obs), sim)
                check(abs(D1-D) < TOL, tag+f" obs map {nm}: {D1} vs {D}")
                D2 = metrics.dscore(obs, g(sim))
                check(abs(D2-D) < TOL, tag+f" sim map {nm}: {D2} vs {D}")
                D3 = metrics.dscore(g(obs), g(sim))
                check(abs(D3-D) < TOL, tag+f" both map {nm}: {D3} vs {D}")

            simp = np.array([rng.permutation(row) for row in sim])
            D4 = metrics.dscore(obs, simp)
            check(abs(D4-D) < TOL, tag+f" member permutation: {D4} vs {D}")
            D5 = metrics.dscore(obs, sim[:, ::-1])
            check(abs(D5-D) < TOL, tag+f" member reversal: {D5} vs {D}")
            ierr, _, ranksp = ensrank(simp)
            check(np.array_equal(ranksp, rref), tag+" ranks permuted members")

    # A.3 perfect and inverse ordering
    for n, m in itertools.product([2, 3, 6, 17, 33, 100], [1, 2, 5, 31]):
        obs = rng.permutation(n)*0.5-3.
        # members spread by less than the gap between forecasts, with ties
        spread = rng.choice([0., 0.125, 0.25], size=(n, m))
        for nm, g in MAPS.items():
            if nm == "exp" and n > 40:
                continue
            sim = obs[:, None]+spread
            D = metrics.dscore(g(obs), sim)
            check(abs(D-1.) < TOL, f"A3 perfect n={n} m={m} {nm}: D={D}")
            D = metrics.dscore(obs, g(sim))
            check(abs(D-1.) < TOL, f"A3 perfect/sim n={n} m={m} {nm}: D={D}")
            D = metrics.dscore(g(obs), -sim)
            check(abs(D) < TOL, f"A3 inverse n={n} m={m} {nm}: D={D}")
            D = metrics.dscore(-obs, g(sim))
            check(abs(D) < TOL, f"A3 inverse/obs n={n} m={m} {nm}: D={D}")

    # A.4 input layouts: lists, obs as column, 1d sim = one member
    obs = [0.5, 2., 1., 4.]
    sim = [[1., 2.], [3., 4.], [2., 2.], [4., 9.]]
    D0 = metrics.dscore(obs, sim)
    check(abs(D0-1.) < TOL, f"A4 lists D={D0}")
    D1 = metrics.dscore(np.array(obs), np.array(sim)[:, ::-1].copy())
    check(abs(D1-1.) < TOL, f"A4 arrays D={D1}")
    simi = np.array(sim).astype(int)
    check(abs(metrics.dscore(np.array(obs), simi)-1.) < TOL, "A4 int sim")
    # inputs are not modified
    o = np.array(obs)
    s = np.array(sim)
    metrics.dscore(o, s)
    check(np.array_equal(o, obs) and np.array_equal(s, sim),
          "A4 inputs modified")

    # A.5 large magnitudes and large ensembles (still exact ties or big gaps)
    sim = np.array([[1e15, 2e15, 2e15], [2e15, 2e15, 3e15],
                    [1e15, 1e15, 2e15]])
    Fref, rref = wm_fmat_ranks(sim)
    ierr, fmat, ranks = ensrank(sim)
    check(np.array_equal(ranks, rref), "A5 ranks large magnitude")
    check(np.allclose(fmat[np.triu_indices(3, 1)],
                      Fref[np.triu_indices(3, 1)], atol=1e-14),
          "A5 fmat large magnitude")
    sim = grid_values(rng, (6, 501), 12)
    sim[3] = rng.permutation(sim[2])
    Fref, rref = wm_fmat_ranks(sim)
    ierr, fmat, ranks = ensrank(sim)
    check(np.array_equal(ranks, rref), "A5 ranks m=501")
    check(np.allclose(fmat[np.triu_indices(6, 1)],
                      Fref[np.triu_indices(6, 1)], atol=1e-14),
          "A5 fmat m=501")


# ----------------------------------------------------------------------------
# B. PIT
# ----------------------------------------------------------------------------
def section_pit():
    rng = np.random.default_rng(99)
    np.random.seed(4242)
    TOL = 1e-12

    # B.1 strict increase with the number of members below the obs
    for m in [1, 2, 3, 10, 51]:
        members = rng.permutation(np.arange(m))*1.-2.      # distinct
        srt = np.sort(members)
        # obs strictly between members: k members below, k=0..m
        obs = np.concatenate([[srt[0]-0.5], srt+0.5])
        ens = np.tile(members, (m+1, 1))
        # shuffle forecasts so that order of rows does not matter
        kk = rng.permutation(m+1)
        nbelow = np.arange(m+1)[kk]

        pits, sudo = metrics.pit(obs[kk], ens[kk], random=False,
                                 censor=-100.)
        check(pits.shape == (m+1,), f"B1 m={m} shape")
        check(np.all((pits >= 0) & (pits <= 1)), f"B1 m={m} range")
        check(np.all(np.diff(pits[np.argsort(nbelow)]) > 0),
              f"B1 m={m} not strictly increasing")
        check(np.allclose(pits, nbelow/m, atol=TOL), f"B1 m={m} values")
        check(not np.any(sudo), f"B1 m={m} sudo")

        for cst in [0., 0.1, 0.3, 0.375, 0.5]:
            pits, sudo = metrics.pit(obs[kk], ens[kk], random=True, cst=cst,
                                     censor=-100.)
            check(pits.shape == (m+1,), f"B1r m={m} cst={cst} shape")
            check(np.all((pits >= 0) & (pits <= 1)),
                  f"B1r m={m} cst={cst} range")
            check(np.all(np.diff(pits[np.argsort(nbelow)]) > 0),
                  f"B1r m={m} cst={cst} not strictly increasing")
            check(np.allclose(pits, (nbelow+0.5-cst)/(1.-cst+m), atol=TOL),
                  f"B1r m={m} cst={cst} values")
            check(not np.any(sudo), f"B1r m={m} cst={cst} sudo")

    # B.2 grids with ties between obs and members
    for n, m, nlev in itertools.product([1, 2, 5, 30], [1, 2, 4, 13],
                                        [1, 3, 12]):
        ens = grid_values(rng, (n, m), nlev)
        obs = grid_values(rng, n, nlev)
        left = np.sum(ens < obs[:, None], axis=1)
        right = np.sum(ens <= obs[:, None], axis=1)
        tag = f"B2 n={n} m={m} nlev={nlev}"

        for censor in [0., -1.5, 2., 7., -7., obs[0], ens[0, 0]]:
            sudoref = (obs <= censor) & np.any(ens <= censor, axis=1)

            pits, sudo = metrics.pit(obs, ens, censor=censor)
            check(np.array_equal(np.asarray(sudo).astype(bool), sudoref),
                  tag+f" censor={censor} sudo flag")
            check(np.all((pits >= 0) & (pits <= 1)), tag+" range")
            ref = (left+right+(right > left))*0.5/m
            check(np.allclose(pits, ref, atol=TOL), tag+" values (rank)")

            for cst in [0., 0.3, 0.5]:
                pits, sudo = metrics.pit(obs, ens, random=True, cst=cst,
                                         censor=censor)
                check(np.array_equal(np.asarray(sudo).astype(bool), sudoref),
                      tag+f" censor={censor} cst={cst} sudo flag (random)")
                check(np.all((pits >= 0) & (pits <= 1)),
                      tag+f" cst={cst} range (random)")
                lo = (left+0.5-cst)/(1.-cst+m)
                hi = (right+0.5-cst)/(1.-cst+m)
                check(np.all((pits >= lo-TOL) & (pits <= hi+TOL)),
                      tag+f" cst={cst} bracket (random)")
                # pit is one of the plotting positions
                k = pits*(1.-cst+m)-0.5+cst
                check(np.allclose(k, np.round(k), atol=1e-9),
                      tag+f" cst={cst} plotting position (random)")

        # monotone maps do not change non-random pits
        pits0, _ = metrics.pit(obs, ens)
        for nm, g in MAPS.items():
            pits1, _ = metrics.pit(g(obs), g(ens))
            check(np.allclose(pits0, pits1, atol=TOL), tag+f" map {nm}")
        # nor does permuting members
        pits1, _ = metrics.pit(obs, ens[:, ::-1])
        check(np.allclose(pits0, pits1, atol=TOL), tag+" member reversal")

    # B.3 sudo flag: obs / members exactly at the threshold
    obs = np.array([0., 0., 1., 1., -1., 0., 2.])
    ens = np.array([[0., 1.], [1., 2.], [0., 1.], [1., 2.], [3., 4.],
                    [-1., -2.], [0., 0.]])
    for random in [False, True]:
        _, sudo = metrics.pit(obs, ens, random=random, censor=0.)
        check(np.array_equal(np.asarray(sudo).astype(bool),
                             [True, False, False, False, False, True,
                              False]), f"B3 sudo random={random}")
        _, sudo = metrics.pit(obs, ens, random=random, censor=1.)
        check(np.array_equal(np.asarray(sudo).astype(bool),
                             [True, True, True, True, False, True,
                              False]), f"B3 sudo censor=1 random={random}")

    # B.4 layouts: lists, single forecast, column obs
    pits, sudo = metrics.pit([3], [0, 0, 0, 1, 2, 3, 3, 3, 3, 3, 3, 4, 4, 4,
                                   4])
    check(np.allclose(pits, [0.5666666666666667], atol=TOL), "B4 hassan")
    check(not np.any(sudo), "B4 hassan sudo")
    pits, sudo = metrics.pit(np.array([[1.5], [0.]]),
                             np.array([[1., 2., 3.], [0., 1., 2.]]))
    check(np.allclose(pits, [1./3, 1./3], atol=TOL), "B4 column obs")
    check(np.array_equal(np.asarray(sudo).astype(bool), [False, True]),
          "B4 column obs sudo")


# ----------------------------------------------------------------------------
# C. uniformity statistics
# ----------------------------------------------------------------------------
def section_unif():
    rng = np.random.default_rng(2011)
    np.random.seed(2011)

    samples = []
    for n in [1, 2, 3, 4, 7, 10, 50, 101, 300, 700]:
        samples.append((f"unif n={n}", rng.uniform(0, 1, n)))
        samples.append((f"beta n={n}", rng.beta(0.3, 2., n)*0.999998+1e-6))
        samples.append((f"even n={n}", (np.arange(n)+0.5)/n))
        samples.append((f"ties n={n}", rng.choice([0.25, 0.5, 0.75], n)))
        samples.append((f"const n={n}", np.full(n, 0.3)))
        samples.append((f"rounded n={n}",
                        np.clip(np.round(rng.uniform(0, 1, n), 1),
                                0.05, 0.95)))
    samples.append(("edge", np.array([1e-12, 1-1e-12, 0.5, 1e-6, 0.999])))
    samples.append(("edge tiny", np.array([1e-300, 0.3])))
    samples.append(("edge one", np.array([0.5])))
    samples.append(("edge near1", np.array([1.-2.**-53])))

    for nm, x in samples:
        n = len(x)
        orders = {"asis": x, "sorted": np.sort(x),
                  "reversed": np.sort(x)[::-1].copy(),
                  "shuffled": rng.permutation(x)}
        cref = cvm_ref(x)
        aref = ad_ref(x)
        c0 = a0 = pc0 = pa0 = None
        for onm, xo in orders.items():
            tag = f"C {nm} {onm}"
            xin = xo.copy()

            # Cramer-von Mises
            cv, pv = metrics.cramer_von_mises_test(xin)
            check(np.array_equal(xin, xo), tag+" CvM modified its input")
            check(abs(cv-cref) <= 1e-10*max(1., abs(cref)),
                  tag+f" CvM stat {cv} vs {cref}")
            check(0. <= pv <= 1., tag+f" CvM pvalue {pv}")
            if c0 is None:
                c0, pc0 = cv, pv
            check(abs(cv-c0) <= 1e-12*max(1., abs(c0)),
                  tag+" CvM order dependence")
            check(abs(pv-pc0) <= 1e-9, tag+" CvM pvalue order dependence")

            # Anderson-Darling
            ad, pa = metrics.anderson_darling_test(xin)
            check(np.array_equal(xin, xo), tag+" AD modified its input")
            check(abs(ad-aref) <= 1e-9*max(1., abs(aref))+1e-11*n,
                  tag+f" AD stat {ad} vs {aref}")
            check(0. <= pa <= 1., tag+f" AD pvalue {pa}")
            if a0 is None:
                a0, pa0 = ad, pa
            check(abs(ad-a0) <= 1e-12*max(1., abs(a0)),
                  tag+" AD order dependence")
            check(abs(pa-pa0) <= 1e-9, tag+" AD pvalue order dependence")

        # list input for AD
        ad, pa = metrics.anderson_darling_test(list(x))
        check(abs(ad-aref) <= 1e-9*max(1., abs(aref))+1e-11*n,
              f"C {nm} AD list input")

    # rejection
    good = rng.uniform(0.1, 0.9, 9)
    for bad in [-0.1, 1.5, -1e-9, 1+1e-9, 10., -np.inf, np.inf, np.nan]:
        for pos in [0, 4, 9]:
            for n in [1, 2, 10]:
                if n == 1:
                    x = np.array([bad])
                elif n == 2:
                    x = np.array([bad, 0.5]) if pos == 0 \
                        else np.array([0.5, bad])
                else:
                    x = np.insert(good, pos, bad)
                try:
                    res = metrics.anderson_darling_test(x)
                    check(False, f"C reject bad={bad} pos={pos} n={n}:"
                          + f" no error, returned {res}")
                except Exception:
                    check(True, "")
    x = np.array([np.nan, np.nan, 0.5])
    try:
        metrics.anderson_darling_test(x)
        check(False, "C reject several nan")
    except Exception:
        check(True, "")
    x = np.array([-0.5, 1.5, np.nan, 0.5])
    try:
        metrics.anderson_darling_test(x)
        check(False, "C reject mixture")
    except Exception:
        check(True, "")

    # alpha: p-values in [0, 1] for the three tests
    for n, m in itertools.product([2, 5, 40, 200], [1, 3, 20]):
        ens = grid_values(rng, (n, m), 10)
        obs = grid_values(rng, n, 10)
        sudoref = (obs <= 0.) & np.any(ens <= 0., axis=1)
        for tp in ["CV", "KS", "AD"]:
            for cst in [0., 0.3, 0.5]:
                st, pv, sudo = metrics.alpha(obs, ens, cst=cst, type=tp)
                tag = f"C alpha n={n} m={m} {tp} cst={cst}"
                check(0. <= pv <= 1., tag+f" pvalue {pv}")
                check(np.isfinite(st) and st >= -1e-12, tag+f" stat {st}")
                check(np.array_equal(np.asarray(sudo).astype(bool),
                                     sudoref), tag+" sudo")
    # reliable forecasts get a high p-value
    n, m = 100, 200
    obs = np.linspace(0, 1, n)
    ens = np.repeat(np.linspace(0, 1, m)[None, :], n, 0)
    for tp in ["CV", "KS", "AD"]:
        st, pv, sudo = metrics.alpha(obs, ens, type=tp)
        check(0.99 < pv <= 1., f"C alpha reliable {tp} pv={pv}")


def main():
    print("metrics module:", metrics.__file__)
    print("C module      :", c_hydrodiy_stat.__file__)
    section_dscore()
    print(f".. dscore done ({NCHECK} checks, {NFAIL} failures)")
    section_pit()
    print(f".. pit done ({NCHECK} checks, {NFAIL} failures)")
    section_unif()
    print(f".. uniformity done ({NCHECK} checks, {NFAIL} failures)")

    if NFAIL > 0:
        print(f"C10 demo: {NFAIL} FAILED checks out of {NCHECK}")
        sys.exit(1)
    print(f"C10 demo: all {NCHECK} checks passed")
    sys.exit(0)


if __name__ == "__main__":
    main()
