#!/usr/bin/env python
"""Property check for hydrodiy.data.dutils.var2h (C14).

Run as:  PYTHONPATH=<tree>/src /venv/bin/python demo.py

Every value returned by var2h must be either missing or the exact period
average of the piecewise-linear interpolant of the observations (rainfall:
the period total of the increments spread uniformly over their intervals).
Apart from the final output period, a period is missing exactly when an
interval overlapping it is invalid (NaN / negative end value, or longer than
maxgapsec).  Intervals that merely touch a period boundary leave the period
unconstrained.  The result must not depend on the storage unit or time zone
of the index.

The reference is computed with exact rational arithmetic (fractions).
Exit status 0 = all checks passed.
"""
import sys
import math
from fractions import Fraction
from datetime import timezone, timedelta

import numpy as np
import pandas as pd

from hydrodiy.data import dutils

RTOL = 1e-10
NCHECK = {"series": 0, "values": 0, "missing": 0, "touch": 0, "final_set": 0}
FAILURES = []


def fail(msg):
    FAILURES.append(msg)
    if len(FAILURES) <= 20:
        print("FAIL:", msg)


# --------------------------------------------------------------------------
# Exact reference
# --------------------------------------------------------------------------
def is_bad(v):
    return math.isnan(v) or v < 0


def reference(tsec, values, period, rainfall, maxgapsec):
    """ Returns hstart, nvalh and for each output period a tuple
        (status, exact) where status is one of
        'value'  : period must hold the value `exact`
        'missing': period must be missing
        'either' : missing, or the value `exact` (touching invalid interval)
    """
    tsec = [int(t) for t in tsec]
    values = [float(v) for v in values]
    n = len(tsec)
    t0, tn = tsec[0], tsec[-1]
    hstart = (t0 // 3600) * 3600 + 3600
    nvalh = (tn - t0) // period

    invalid = []
    for j in range(n-1):
        inv = is_bad(values[j]) or is_bad(values[j+1]) \
            or (tsec[j+1] - tsec[j]) > maxgapsec
        invalid.append(inv)

    out = []
    for i in range(nvalh):
        start = hstart + i*period
        end = start + period

        if tn < end or t0 > start:
            # period not covered by the data: no average exists
            out.append(("missing", None))
            continue

        overlap_invalid = False
        touch_invalid = False
        total = Fraction(0)
        computable = True
        for j in range(n-1):
            a, b = tsec[j], tsec[j+1]
            if a < end and b > start:
                # overlaps the open period (includes zero-length intervals
                # strictly inside the period)
                if invalid[j]:
                    overlap_invalid = True
                    continue
                lo, hi = max(a, start), min(b, end)
                if hi > lo:
                    v1, v2 = Fraction(values[j]), Fraction(values[j+1])
                    if rainfall:
                        total += v2*Fraction(hi-lo, b-a)
                    else:
                        slope = (v2-v1)/(b-a)
                        y1 = v1+slope*(lo-a)
                        y2 = v1+slope*(hi-a)
                        total += (y1+y2)/2*(hi-lo)
            elif invalid[j] and (b == start or a == end):
                touch_invalid = True

        if overlap_invalid:
            out.append(("missing", None))
        else:
            exact = total if rainfall else total/period
            out.append(("either" if touch_invalid else "value", exact))

    return hstart, nvalh, out


# --------------------------------------------------------------------------
# Checking one call
# --------------------------------------------------------------------------
def make_index(tsec, unit="ns", tz=None):
    idx = pd.DatetimeIndex(np.array(tsec, dtype="int64")
                           .astype("datetime64[s]")).as_unit(unit)
    if tz is not None:
        # same wall clock, expressed in time zone tz
        idx = idx.tz_localize(tz)
    return idx


def check(tsec, values, period=3600, rainfall=False, maxgapsec=5*86400,
          unit="ns", tz=None, label=""):
    idx = make_index(tsec, unit, tz)
    se = pd.Series(np.array(values, dtype=np.float64), index=idx)
    kw = dict(nbsec_per_period=period, rainfall=rainfall,
              maxgapsec=maxgapsec)
    seh = dutils.var2h(se, **kw)
    NCHECK["series"] += 1

    hstart, nvalh, ref = reference(tsec, values, period, rainfall,
                                   maxgapsec)
    desc = f"{label} P={period} rain={rainfall} gap={maxgapsec} "\
           f"unit={unit} tz={tz} t={list(tsec)} v={list(values)}"

    if len(seh) != nvalh:
        fail(f"length {len(seh)} != {nvalh}: {desc}")
        return seh

    # period labels: wall-clock start of each period
    if nvalh > 0:
        lab = seh.index
        if lab.tz is not None:
            lab = lab.tz_localize(None)
        lab = lab.as_unit("s").asi8
        expected_lab = hstart + period*np.arange(nvalh)
        if not np.array_equal(lab, expected_lab):
            fail(f"period labels differ: {desc}")
            return seh

    valid = [v for v in values if not math.isnan(v)]
    scale = max([abs(v) for v in valid] + [1e-300])
    res = seh.values
    for i, (status, exact) in enumerate(ref):
        r = float(res[i])
        final = i == nvalh-1
        if math.isnan(r):
            if status == "value" and not final:
                fail(f"period {i} missing but no invalid interval "
                     f"overlaps it: {desc}")
            NCHECK["missing"] += 1
            continue

        # not missing
        if status == "missing":
            fail(f"period {i} = {r} but should be missing: {desc}")
            continue
        if math.isinf(r):
            fail(f"period {i} infinite: {desc}")
            continue
        err = abs(Fraction(r)-exact)
        if err > RTOL*scale:
            fail(f"period {i} = {r!r}, exact = {float(exact)!r}: {desc}")
        NCHECK["values"] += 1
        if status == "either":
            NCHECK["touch"] += 1
        if final:
            NCHECK["final_set"] += 1

    return seh


def same(a, b):
    return len(a) == len(b) and \
        np.array_equal(a.values, b.values, equal_nan=True)


# --------------------------------------------------------------------------
# Hand-written cases
# --------------------------------------------------------------------------
H = 3600
BASE = 946684800  # 2000-01-01 00:00:00


def hand_cases():
    for period in [1800, 3600]:
        for rain in [False, True]:
            kw = dict(period=period, rainfall=rain)

            # two observations only
            check([BASE+600, BASE+5*H+1200], [1., 3.], label="len2", **kw)
            check([BASE, BASE+2*H], [1., 3.], label="len2-on-hour", **kw)
            check([BASE, BASE+2*period], [0., 7.5], label="len2-min", **kw)
            check([BASE+1, BASE+2*period+1], [2., 7.5], label="len2-min1",
                  **kw)
            check([BASE+3599, BASE+3599+2*period], [2., 7.5],
                  label="len2-min3599", **kw)
            check([BASE+600, BASE+5*H+1200], [1., np.nan], label="len2-nan",
                  **kw)
            check([BASE+600, BASE+5*H+1200], [-1., 2.], label="len2-neg",
                  **kw)
            # two observations further apart than maxgapsec
            check([BASE+600, BASE+5*H+1200], [1., 3.], maxgapsec=3600,
                  label="len2-gap", **kw)
            # gap exactly maxgapsec is valid, one more second is not
            check([BASE+10, BASE+10+7200, BASE+10+7200+7201, BASE+8*H],
                  [1., 2., 3., 4.], maxgapsec=7200, label="gap-exact", **kw)

            # regular series, stamps on every boundary
            t = [BASE+k*period for k in range(12)]
            v = [float(k*k % 7) for k in range(12)]
            check(t, v, label="regular", **kw)

            # stamps exactly on boundaries with NaN / negative values there
            for bad in [np.nan, -2.]:
                for pos in range(12):
                    vv = list(v)
                    vv[pos] = bad
                    check(t, vv, label=f"regular-bad{pos}", **kw)

            # finer than the period, boundaries hit
            t = [BASE+k*600 for k in range(40)]
            v = [float((k*37) % 11) for k in range(40)]
            check(t, v, label="10min", **kw)
            for pos in [0, 1, 5, 6, 7, 11, 12, 13, 18, 38, 39]:
                vv = list(v)
                vv[pos] = np.nan
                check(t, vv, label=f"10min-nan{pos}", **kw)
                vv[pos] = -0.5
                check(t, vv, label=f"10min-neg{pos}", **kw)

            # duplicates: on a boundary, inside a period, at both ends
            t = [BASE+1200, BASE+H, BASE+H, BASE+H+900, BASE+H+900,
                 BASE+H+900, BASE+2*H, BASE+2*H, BASE+3*H+5, BASE+5*H,
                 BASE+5*H]
            v = [1., 2., 5., 3., 8., 1., 0., 4., 2., 6., 7.]
            check(t, v, label="dups", **kw)
            for pos in range(len(t)):
                vv = list(v)
                vv[pos] = np.nan
                check(t, vv, label=f"dups-nan{pos}", **kw)
            check([BASE+5, BASE+5] + t[1:], [3., 4.] + v[1:],
                  label="dups-first", **kw)

            # all observations identical stamps but the last one
            check([BASE+7, BASE+7, BASE+7, BASE+7+3*H], [1., 2., 3., 4.],
                  label="dups-head", **kw)

            # first stamp exactly on the hour, one second before/after
            for off in [0, 1, 3599, 1800, 1799, 1801]:
                t = [BASE+off+k*1000 for k in range(30)]
                v = [float((k*5) % 13)+0.25 for k in range(30)]
                check(t, v, label=f"offset{off}", **kw)

            # long intervals covering several periods, one-second intervals
            t = [BASE+100, BASE+101, BASE+102, BASE+4*H+17, BASE+4*H+18,
                 BASE+30*H, BASE+30*H+1, BASE+31*H-1, BASE+31*H,
                 BASE+33*H+1]
            v = [1., 100., 3., 8., 0., 0., 12., 3., 3., 9.]
            check(t, v, label="long", **kw)
            check(t, v, maxgapsec=4*H, label="long-gap", **kw)
            check(t, v, maxgapsec=26*H-18, label="long-gap-eq", **kw)
            check(t, v, maxgapsec=26*H-19, label="long-gap-lt", **kw)

            # several days of gap
            t = [BASE+50, BASE+3*86400, BASE+3*86400+600, BASE+9*86400+7,
                 BASE+9*86400+5*H]
            v = [2., 4., 1., 3., 0.]
            check(t, v, label="days", **kw)
            check(t, v, maxgapsec=6*86400, label="days-gap", **kw)

            # zeros everywhere
            check([BASE+k*777 for k in range(30)], [0.]*30, label="zeros",
                  **kw)
            # large and small magnitudes
            check([BASE+k*777 for k in range(30)],
                  [1e12*(1+k % 3) for k in range(30)], label="large", **kw)
            check([BASE+k*777 for k in range(30)],
                  [1e-12*(1+k % 3) for k in range(30)], label="small", **kw)

            # before 1970 (negative epoch seconds)
            t = [-86400*400+123+k*1234 for k in range(25)]
            v = [float(k % 4) for k in range(25)]
            check(t, v, label="pre1970", **kw)


# --------------------------------------------------------------------------
# Random cases
# --------------------------------------------------------------------------
def random_series(rng, period):
    n = int(rng.integers(2, 40))
    kinds = rng.integers(0, 6, size=n-1)
    gaps = np.zeros(n-1, dtype=np.int64)
    for k, kind in enumerate(kinds):
        if kind == 0:
            gaps[k] = 0                                # duplicate
        elif kind == 1:
            gaps[k] = rng.integers(1, 60)              # seconds
        elif kind == 2:
            gaps[k] = rng.integers(60, 3600)           # minutes
        elif kind == 3:
            gaps[k] = rng.integers(3600, 86400)        # hours
        elif kind == 4:
            gaps[k] = rng.integers(86400, 4*86400)     # days
        else:
            gaps[k] = int(rng.choice([900, 1800, 3600, 7200]))
    t0 = BASE + int(rng.integers(-10**8, 10**8))
    if rng.random() < 0.4:
        t0 = (t0//1800)*1800
    t = t0 + np.concatenate([[0], np.cumsum(gaps)])
    # snap some stamps onto period boundaries (keeping order)
    if rng.random() < 0.6:
        snap = rng.random(n) < 0.3
        ts = np.where(snap, (t//period)*period, t)
        ts = np.maximum.accumulate(ts)
        t = ts
    # make sure at least two periods are spanned
    if t[-1]-t[0] < 2*period:
        t[-1] = t[0] + 2*period + int(rng.integers(0, 3*period))
    v = rng.choice([0., 1., 2.5, 10., 1e3], size=n) * rng.random(n)
    if rng.random() < 0.3:
        v = np.round(v, 1)
    p = rng.random(n)
    mode = rng.integers(0, 4)
    if mode == 1:
        v[p < 0.1] = np.nan
    elif mode == 2:
        v[p < 0.1] = -rng.random(int((p < 0.1).sum()))-1e-3
    elif mode == 3:
        v[p < 0.07] = np.nan
        v[p > 0.93] = -1.
    v[rng.random(n) < 0.1] = 0.
    return [int(x) for x in t], [float(x) for x in v]


def random_cases(nrep=1500):
    rng = np.random.default_rng(5446)
    units = ["s", "ms", "us", "ns"]
    for rep in range(nrep):
        period = int(rng.choice([1800, 3600]))
        rain = bool(rng.integers(0, 2))
        t, v = random_series(rng, period)
        maxgap = int(rng.choice([3600, 3601, 7200, 86400, 5*86400,
                                 30*86400, 2**31-1]))
        if rng.random() < 0.3 and len(t) > 2:
            # maxgapsec equal to one of the gaps / one less
            g = int(rng.choice(np.diff(t)))
            maxgap = max(3600, g-int(rng.integers(0, 2)))
        unit = units[rep % 4]
        check(t, v, period=period, rainfall=rain, maxgapsec=maxgap,
              unit=unit, label=f"random{rep}")


# --------------------------------------------------------------------------
# Independence from storage unit and time zone
# --------------------------------------------------------------------------
def resolution_timezone_cases(nrep=150):
    rng = np.random.default_rng(99)
    zones = [None, "UTC", "Australia/Brisbane", "Asia/Kolkata",
             "Asia/Kathmandu", timezone(timedelta(hours=-3, minutes=-30)),
             timezone(timedelta(hours=10))]
    for rep in range(nrep):
        period = int(rng.choice([1800, 3600]))
        rain = bool(rng.integers(0, 2))
        t, v = random_series(rng, period)
        maxgap = int(rng.choice([3600, 86400, 5*86400]))
        kw = dict(period=period, rainfall=rain, maxgapsec=maxgap)
        ref = None
        for unit in ["s", "ms", "us", "ns"]:
            for tz in zones:
                seh = check(t, v, unit=unit, tz=tz, label=f"restz{rep}",
                            **kw)
                if ref is None:
                    ref = seh
                elif not same(ref, seh):
                    fail(f"result depends on unit/tz ({unit}, {tz}): "
                         f"t={t} v={v} {kw}")

    # A zone with daylight saving, away from the transitions:
    # wall clock is monotone so the series is inside the quantifier.
    t = [BASE+14*86400+k*1700 for k in range(60)]
    v = [float((k*7) % 5) for k in range(60)]
    a = check(t, v, label="dst-naive")
    b = check(t, v, tz="Australia/Sydney", label="dst-sydney")
    c = check(t, v, tz="Europe/Paris", unit="s", label="dst-paris")
    if not (same(a, b) and same(a, c)):
        fail("result depends on (DST) time zone")


# --------------------------------------------------------------------------
# Input dtypes and integral conservation
# --------------------------------------------------------------------------
def conservation_cases():
    rng = np.random.default_rng(7)
    for period in [1800, 3600]:
        for rain in [False, True]:
            # every period boundary is a stamp, all values valid:
            # sum of period means * period = integral of the interpolant
            t = [BASE]
            while t[-1] < BASE+50*H:
                nxt = t[-1]+int(rng.integers(1, 2500))
                b = (t[-1]//period+1)*period
                t.append(min(nxt, b))
            v = list(rng.random(len(t))*10)
            seh = check(t, v, period=period, rainfall=rain,
                        label="conservation")
            tt, vv = np.array(t), np.array(v)
            h0 = int(seh.index[0].timestamp())
            ok = ~np.isnan(seh.values)
            # computed periods are contiguous from the first one
            nok = int(ok.sum())
            if not ok[:nok].all():
                fail("conservation: unexpected missing period")
                continue
            h1 = h0 + nok*period
            k = (tt >= h0) & (tt <= h1)
            if rain:
                k2 = (tt > h0) & (tt <= h1)
                integral = vv[k2].sum()
                total = seh.values[:nok].sum()
            else:
                integral = np.sum((vv[k][1:]+vv[k][:-1])/2*np.diff(tt[k]))
                total = seh.values[:nok].sum()*period
            if abs(total-integral) > 1e-9*abs(integral):
                fail(f"conservation: {total} != {integral}")

    # integer and float32 values give the same answer as float64
    t = [BASE+k*1234 for k in range(40)]
    v = [(k*3) % 8 for k in range(40)]
    idx = make_index(t)
    a = dutils.var2h(pd.Series(np.array(v, dtype=np.int64), index=idx))
    b = dutils.var2h(pd.Series(np.array(v, dtype=np.float32), index=idx))
    c = check(t, [float(x) for x in v], label="dtype")
    if not (same(a, c) and same(b, c)):
        fail("result depends on value dtype")

    # the input series is not modified
    se = pd.Series(np.array(v, dtype=np.float64), index=idx)
    se0 = se.copy()
    dutils.var2h(se)
    if not (se.equals(se0) and se.index.equals(se0.index)):
        fail("input series modified")


def outside_cases():
    """ Outside the quantifier: only require an error or a benign answer """
    # a single observation
    se = pd.Series([1.], index=make_index([BASE+5]))
    try:
        seh = dutils.var2h(se)
        if seh.notnull().sum() > 0:
            fail("single observation produced a value")
    except Exception:
        pass
    # unsupported period / maxgapsec
    se = pd.Series([1., 2., 3.], index=make_index([BASE, BASE+H, BASE+9*H]))
    for kw in [dict(nbsec_per_period=900), dict(maxgapsec=3599)]:
        try:
            dutils.var2h(se, **kw)
            fail(f"no error for {kw}")
        except Exception:
            pass


if __name__ == "__main__":
    hand_cases()
    random_cases()
    resolution_timezone_cases()
    conservation_cases()
    outside_cases()
    print("checks:", NCHECK)
    if FAILURES:
        print(f"{len(FAILURES)} FAILURES")
        sys.exit(1)
    print("ALL OK")
    sys.exit(0)
