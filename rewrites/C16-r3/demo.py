#!/usr/bin/env python
"""Property check for C16: catchment/grid intersection and Voronoi weights
conserve area.

Run as:  PYTHONPATH=<tree>/src /venv/bin/python demo.py

The program builds its own oracle (plain Python floats, cross-checked with
exact rational arithmetic whenever all inputs are dyadic) and compares
Catchment.intersect and voronoi against it on several thousand inputs taken
inside the quantifier of the property:

  * every kind of catchment cell set on fine grids from 1x1 to 12x12
    (1 cell, 2 cells, sparse, dense, full grid, shuffled listing order),
  * coarser grids with cell-size ratios 1, 1.5, 2, 2.5, 3, 4 and random
    ratios in [1, 4], aligned / shifted by fractions of a fine cell /
    arbitrary float offsets, full, partial and no overlap, cell centres
    lying exactly on coarse grid lines and on the outer edges of the grid,
  * filled and unfilled area,
  * 1 to 6 Voronoi points inside, outside, on cell centres, duplicated and
    placed symmetrically so that exact equidistant ties occur.

Exit status 0 means every check passed.
"""
import sys
import math
import random
import warnings
from fractions import Fraction

import numpy as np

from hydrodiy.gis.grid import Grid, Catchment, voronoi

warnings.simplefilter("ignore")

RTOL = 1e-12
NCHECKS = {"intersect": 0, "nooverlap": 0, "voronoi": 0, "ties": 0,
           "exact_intersect": 0, "exact_voronoi": 0}


def fail(msg):
    print("FAILED: " + msg)
    sys.exit(1)


def is_dyadic(*values):
    """ True if all values are small multiples of 1/64 (exact in floats and
    all products/sums used below stay exact) """
    for v in values:
        w = float(v)*64
        if w != math.floor(w) or abs(w) > 1e6:
            return False
    return True


# ---------------------------------------------------------------------
# Oracle
# ---------------------------------------------------------------------
def centre(cell, nrows, ncols, xll, yll, csz, num=float):
    """ Centre of a cell. Cells are numbered row by row from the top left
    corner; y increases from bottom to top """
    row, col = divmod(int(cell), int(ncols))
    half = num(1)/num(2)
    x = num(xll)+num(csz)*(num(col)+half)
    y = num(yll)+num(csz)*(num(nrows-1-row)+half)
    return x, y


def locate(x, y, nrows, ncols, xll, yll, csz, num=float):
    """ Grid cell containing point (x, y) or None. Lower and left edges
    belong to the grid, upper and right edges do not. """
    nx = math.floor((x-num(xll))/num(csz))
    ny = nrows-1-math.floor((y-num(yll))/num(csz))
    if nx < 0 or nx >= ncols or ny < 0 or ny >= nrows:
        return None
    return ny*ncols+nx


def oracle_intersect(cells, fine, coarse, num=float):
    """ Returns dict {coarse cell: number of catchment cells inside} """
    counts = {}
    for c in cells:
        x, y = centre(c, *fine, num=num)
        k = locate(x, y, *coarse, num=num)
        if k is not None:
            counts[k] = counts.get(k, 0)+1
    return counts


def oracle_voronoi(cells, fine, points, num=float):
    """ Number of catchment cells closest to each point, ties to the
    lowest index """
    counts = [0]*len(points)
    has_tie = False
    for c in cells:
        x, y = centre(c, *fine, num=num)
        best, jbest = None, 0
        for j, (px, py) in enumerate(points):
            dx = x-num(px)
            dy = y-num(py)
            d = dx*dx+dy*dy
            if num is float:
                d = math.sqrt(d)
            if best is None or d < best:
                best, jbest = d, j
            elif d == best:
                has_tie = True
        counts[jbest] += 1
    return counts, has_tie


# ---------------------------------------------------------------------
# Builders
# ---------------------------------------------------------------------
def geom(grid):
    return (int(grid.nrows), int(grid.ncols), float(grid.xllcorner),
            float(grid.yllcorner), float(grid.cellsize))


def make_catchment(nrows, ncols, xll, yll, csz, area, filled):
    flowdir = Grid("flowdir", ncols, nrows, cellsize=csz,
                   xllcorner=xll, yllcorner=yll, dtype=np.int64)
    ca = Catchment("demo", flowdir)
    ca._idxcells_area = np.array(area, dtype=np.int64)
    ca._idxcells_area_filled = np.array(filled, dtype=np.int64)
    return ca


def random_cells(rng, ncells):
    kind = rng.choice(["one", "two", "sparse", "dense", "full", "half"])
    allcells = list(range(ncells))
    if kind == "one":
        n = 1
    elif kind == "two":
        n = min(2, ncells)
    elif kind == "sparse":
        n = max(1, ncells//6)
    elif kind == "half":
        n = max(1, ncells//2)
    elif kind == "dense":
        n = max(1, ncells-rng.randint(0, 3))
    else:
        n = ncells
    area = rng.sample(allcells, n)
    mode = rng.choice(["sorted", "reversed", "shuffled"])
    if mode == "sorted":
        area.sort()
    elif mode == "reversed":
        area.sort(reverse=True)
    # filled area = superset of area, sorted (as produced by the library)
    extra = [c for c in allcells if c not in area and rng.random() < 0.2]
    filled = sorted(set(area) | set(extra))
    return area, filled


# ---------------------------------------------------------------------
# Checks
# ---------------------------------------------------------------------
def check_intersect(ca, grid, filled, label):
    fine = geom(ca.flowdir)
    coarse = geom(grid)
    cells = ca._idxcells_area_filled if filled else ca._idxcells_area
    cells = [int(c) for c in cells]
    expected = oracle_intersect(cells, fine, coarse)

    if is_dyadic(*fine[2:], *coarse[2:]):
        exact = oracle_intersect(cells, fine, coarse, num=Fraction)
        if exact != expected:
            fail(f"{label}: float and exact oracle disagree (demo bug)")
        NCHECKS["exact_intersect"] += 1

    if len(expected) == 0:
        # No catchment cell centre inside the grid: nothing to weight,
        # the library signals it with a ValueError
        try:
            ca.intersect(grid, filled=filled)
        except ValueError:
            NCHECKS["nooverlap"] += 1
            return
        fail(f"{label}: no overlap but no ValueError")

    area_grid, idxcells, weights = ca.intersect(grid, filled=filled)
    idxcells = np.asarray(idxcells)
    weights = np.asarray(weights)

    # .. each grid cell appears exactly once, and only cells that hold
    #    at least one catchment cell centre
    if idxcells.ndim != 1 or weights.shape != idxcells.shape:
        fail(f"{label}: bad shapes {idxcells.shape} {weights.shape}")
    listed = [int(k) for k in idxcells]
    if len(set(listed)) != len(listed):
        fail(f"{label}: a grid cell is listed twice: {listed}")
    if set(listed) != set(expected):
        fail(f"{label}: cells {sorted(listed)} != {sorted(expected)}")

    # .. weight = count x ratio of cell areas
    csz_f, csz_g = fine[4], coarse[4]
    ratio = (csz_f/csz_g)*(csz_f/csz_g)
    for k, w in zip(listed, weights):
        wexp = expected[k]*ratio
        if not (abs(w-wexp) <= RTOL*wexp):
            fail(f"{label}: weight of cell {k} is {w!r}, expected {wexp!r}")
        if not w > 0:
            fail(f"{label}: non positive weight {w!r}")

    # .. conservation of area
    ninside = sum(expected.values())
    area_in = ninside*csz_f*csz_f
    area_w = float(np.sum(weights))*csz_g*csz_g
    if not (abs(area_w-area_in) <= 1e-11*area_in):
        fail(f"{label}: area {area_w!r} != {area_in!r}")

    # .. weight grid: position of every weight in the parent grid
    nrows_g, ncols_g = coarse[0], coarse[1]
    rows = [k//ncols_g for k in listed]
    cols = [k % ncols_g for k in listed]
    r0, r1, c0, c1 = min(rows), max(rows), min(cols), max(cols)
    if (int(area_grid.parentgrid_rows_start),
            int(area_grid.parentgrid_rows_end),
            int(area_grid.parentgrid_cols_start),
            int(area_grid.parentgrid_cols_end)) != (r0, r1, c0, c1):
        fail(f"{label}: wrong parent rows/cols")
    if (int(area_grid.nrows), int(area_grid.ncols)) != (r1-r0+1, c1-c0+1):
        fail(f"{label}: wrong area grid size")
    data = np.asarray(area_grid.data)
    if data.shape != (r1-r0+1, c1-c0+1):
        fail(f"{label}: wrong area grid data shape {data.shape}")
    full = np.zeros((nrows_g, ncols_g))
    for k, w in zip(listed, weights):
        full[k//ncols_g, k % ncols_g] = w
    if not np.array_equal(data, full[r0:r1+1, c0:c1+1]):
        fail(f"{label}: weight grid does not match parent grid positions")
    if np.count_nonzero(data) != len(listed):
        fail(f"{label}: weight grid has spurious non zero cells")

    # .. geometry of the weight grid
    if float(area_grid.cellsize) != csz_g:
        fail(f"{label}: area grid cellsize")
    for attr in ["name", "ncols", "nrows", "cellsize", "xllcorner",
                 "yllcorner"]:
        if getattr(area_grid, "parentgrid_"+attr) != getattr(grid, attr):
            fail(f"{label}: parentgrid_{attr}")
    xexp = coarse[2]+csz_g*c0
    yexp = coarse[3]+csz_g*(nrows_g-1-r1)
    tol = 1e-9*max(1., abs(xexp), abs(yexp), csz_g)
    if abs(float(area_grid.xllcorner)-xexp) > tol \
            or abs(float(area_grid.yllcorner)-yexp) > tol:
        fail(f"{label}: area grid corner")

    # .. the centre of each area grid cell maps back to the parent cell
    sub = np.arange(data.size)
    back = grid.coord2cell(area_grid.cell2coord(sub))
    rr, cc = np.divmod(sub, data.shape[1])
    if not np.array_equal(back, (rr+r0)*ncols_g+cc+c0):
        fail(f"{label}: area grid cells do not map on parent cells")

    NCHECKS["intersect"] += 1


def check_voronoi(ca, points, label):
    fine = geom(ca.flowdir)
    cells = [int(c) for c in ca._idxcells_area]
    counts, has_tie = oracle_voronoi(cells, fine, points)

    flat = [v for p in points for v in p]
    if is_dyadic(*fine[2:], *flat):
        exact, has_tie_exact = oracle_voronoi(cells, fine, points,
                                              num=Fraction)
        if exact != counts or has_tie != has_tie_exact:
            fail(f"{label}: float and exact oracle disagree (demo bug)")
        NCHECKS["exact_voronoi"] += 1

    pts = np.array(points, dtype=np.float64)
    pts_before = pts.copy()
    we = np.asarray(voronoi(ca, pts))
    if not np.array_equal(pts, pts_before):
        fail(f"{label}: points modified")
    if we.shape != (len(points),):
        fail(f"{label}: shape {we.shape}")
    if not np.all(we >= 0):
        fail(f"{label}: negative weight {we}")
    if not abs(float(np.sum(we))-1.) < 1e-12:
        fail(f"{label}: sum of weights {np.sum(we)!r}")
    n = len(cells)
    for j, w in enumerate(we):
        wexp = counts[j]/n
        if not abs(w-wexp) <= 1e-14:
            fail(f"{label}: weight {j} is {w!r}, expected {wexp!r}"
                 + f" (ties={has_tie})")
    NCHECKS["voronoi"] += 1
    NCHECKS["ties"] += int(has_tie)


# ---------------------------------------------------------------------
# Fixed awkward cases
# ---------------------------------------------------------------------
def fixed_cases():
    # The example of the library test-suite (6x6 grid, 3x3 grid of size 2
    # shifted by one cell)
    area = [27, 20, 14, 15, 13, 7, 8, 9, 1, 2, 3]
    ca = make_catchment(6, 6, 0., 0., 1., area, sorted(area))
    gr = Grid("coarse", 3, 3, xllcorner=1., yllcorner=1., cellsize=2.)
    _, idx, w = ca.intersect(gr)
    if sorted(zip(idx.tolist(), w.tolist())) != \
            [(0, 0.5), (1, 0.25), (3, 1.), (4, 0.5), (6, 0.25), (7, 0.25)]:
        fail("library example")
    check_intersect(ca, gr, False, "library example")
    we = voronoi(ca, [[0., 0.], [0., 5.], [5., 0.], [5., 5.]])
    if not np.allclose(we, [1./11, 6./11, 1./11, 3./11], rtol=0, atol=1e-15):
        fail("library voronoi example")

    # 1x1 fine grid, 1x1 coarse grid, all ratios, cell centre inside,
    # on each edge and on each corner of the coarse cell
    for ratio in [1., 1.5, 2., 2.5, 3., 4.]:
        ca = make_catchment(1, 1, 0., 0., 1., [0], [0])
        for ox in [0.5-ratio, 0.5-ratio+0.25, 0., 0.25, 0.5, 0.75]:
            for oy in [0.5-ratio, 0.5-ratio+0.25, 0., 0.25, 0.5, 0.75]:
                gr = Grid("one", 1, 1, xllcorner=ox, yllcorner=oy,
                          cellsize=ratio)
                for filled in [False, True]:
                    check_intersect(ca, gr, filled,
                                    f"1x1 r={ratio} o=({ox},{oy})")

    # full 12x12 catchment, every ratio, coarse grid exactly covering,
    # strictly inside, larger than and disjoint from the fine grid
    allcells = list(range(144))
    ca = make_catchment(12, 12, -3., 2., 0.5, allcells, allcells)
    for ratio in [1., 1.5, 2., 2.5, 3., 4.]:
        csz = 0.5*ratio
        for (n, ox, oy) in [(int(math.ceil(12/ratio)), -3., 2.),
                            (2, -2., 3.), (8, -7., -1.25),
                            (3, 100., 100.), (3, -3.-3*csz, 2.),
                            (3, -3., 8.), (1, 2.75, 7.75),
                            (1, 3., 8.), (2, -3.-2*csz+0.25, 2.)]:
            gr = Grid("g", n, n, xllcorner=ox, yllcorner=oy, cellsize=csz)
            check_intersect(ca, gr, False, f"12x12 r={ratio} n={n}")

    # non square grids: one row, one column
    ca = make_catchment(1, 12, 0., 0., 1., [11, 0, 5, 6], list(range(12)))
    for ratio in [1., 2., 3., 4.]:
        for shape in [(1, 5), (5, 1), (2, 7)]:
            gr = Grid("g", shape[1], shape[0], xllcorner=-0.5,
                      yllcorner=-ratio+0.5, cellsize=ratio)
            for filled in [False, True]:
                check_intersect(ca, gr, filled, f"1x12 r={ratio} {shape}")
    ca = make_catchment(12, 1, 0., 0., 1., [3, 4, 0], [0, 1, 2, 3, 4])
    for ratio in [1., 1.5, 2.5, 4.]:
        gr = Grid("g", 2, 6, xllcorner=-ratio+0.5, yllcorner=1.5,
                  cellsize=ratio)
        for filled in [False, True]:
            check_intersect(ca, gr, filled, f"12x1 r={ratio}")

    # Voronoi: single cell and two cells catchments, 1 to 6 points,
    # duplicated points, point on the centre, equidistant points
    ca = make_catchment(1, 1, 0., 0., 1., [0], [0])
    check_voronoi(ca, [[0.5, 0.5]], "v 1 cell 1 point")
    check_voronoi(ca, [[7., -3.]], "v 1 cell 1 point outside")
    check_voronoi(ca, [[1.5, 0.5], [-0.5, 0.5]], "v 1 cell tie")
    check_voronoi(ca, [[1.5, 0.5], [-0.5, 0.5], [0.5, 0.5]], "v 1 cell ctr")
    check_voronoi(ca, [[3., 3.]]*6, "v 1 cell 6 identical points")
    ca = make_catchment(1, 2, 0., 0., 1., [1, 0], [0, 1])
    check_voronoi(ca, [[1., 0.5]], "v 2 cells 1 point")
    check_voronoi(ca, [[1., 5.], [1., -4.]], "v 2 cells tie both")
    check_voronoi(ca, [[1.5, 0.5], [0.5, 0.5]], "v 2 cells on centres")
    check_voronoi(ca, [[0.5, 0.5], [1.5, 0.5], [0.5, 0.5], [1.5, 0.5]],
                  "v 2 cells duplicated centres")
    check_voronoi(ca, [[9., 9.], [1., 0.5], [1., 0.5], [-9., -9.]],
                  "v 2 cells far and duplicated")
    ca = make_catchment(2, 1, 0., 0., 1., [0, 1], [0, 1])
    check_voronoi(ca, [[0.5, 1.]], "v 2x1")
    check_voronoi(ca, [[4., 1.], [-3., 1.], [0.5, 1.]], "v 2x1 tie")

    # Voronoi: 12x12, 4 points at the corners, at the centre, on a line
    allcells = list(range(144))
    ca = make_catchment(12, 12, 0., 0., 1., allcells, allcells)
    check_voronoi(ca, [[0., 0.], [0., 12.], [12., 0.], [12., 12.]], "v cnr")
    check_voronoi(ca, [[12., 12.], [12., 0.], [0., 12.], [0., 0.]], "v cnr2")
    check_voronoi(ca, [[6., 6.]], "v centre")
    check_voronoi(ca, [[6., 6.], [6., 6.]], "v centre twice")
    check_voronoi(ca, [[3., 6.], [9., 6.]], "v vertical bisector")
    check_voronoi(ca, [[9., 6.], [3., 6.]], "v vertical bisector swapped")
    check_voronoi(ca, [[0., 0.], [12., 12.]], "v diagonal bisector")
    check_voronoi(ca, [[12., 12.], [0., 0.]], "v diagonal bisector sw")
    check_voronoi(ca, [[-50., 6.], [62., 6.], [6., -50.], [6., 62.],
                       [6., 6.], [6., 6.]], "v six points")
    check_voronoi(ca, [[5.5, 5.5], [6.5, 5.5], [5.5, 6.5], [6.5, 6.5]],
                  "v four centres")


# ---------------------------------------------------------------------
# Random cases
# ---------------------------------------------------------------------
RATIOS = [1., 1.5, 2., 2.5, 3., 4.]


def random_intersect_cases(rng, ncases):
    for icase in range(ncases):
        nrows = rng.randint(1, 12)
        ncols = rng.randint(1, 12)
        dyadic = rng.random() < 0.7
        if dyadic:
            csz = rng.choice([1., 0.5, 0.25, 2.])
            xll = rng.choice([0., -3., 10.5, 0.25, -7.75])
            yll = rng.choice([0., 2., -11.5, 0.75, 5.25])
            ratio = rng.choice(RATIOS)
        else:
            csz = rng.choice([0.1, 0.05, 0.025, 1./3, 0.01])
            xll = rng.uniform(-180., 180.)
            yll = rng.uniform(-90., 90.)
            ratio = rng.choice(RATIOS+[rng.uniform(1., 4.)])

        area, filled = random_cells(rng, nrows*ncols)
        ca = make_catchment(nrows, ncols, xll, yll, csz, area, filled)

        csz_g = csz*ratio
        for igrid in range(4):
            nrows_g = rng.randint(1, 8)
            ncols_g = rng.randint(1, 8)
            kind = rng.choice(["aligned", "quarter", "half", "any", "far",
                               "cover"])
            w, h = ncols*csz, nrows*csz
            if kind == "aligned":
                ox = xll+csz*rng.randint(-6, ncols)
                oy = yll+csz*rng.randint(-6, nrows)
            elif kind == "quarter":
                ox = xll+csz*rng.randint(-24, 4*ncols)/4
                oy = yll+csz*rng.randint(-24, 4*nrows)/4
            elif kind == "half":
                # cell centres on coarse grid lines
                ox = xll+csz*(rng.randint(-6, ncols)+0.5)
                oy = yll+csz*(rng.randint(-6, nrows)+0.5)
            elif kind == "any":
                ox = xll+rng.uniform(-ncols_g*csz_g, w)
                oy = yll+rng.uniform(-nrows_g*csz_g, h)
            elif kind == "far":
                ox = xll+rng.choice([-1, 1])*(w+ncols_g*csz_g+1.)
                oy = yll+rng.uniform(-h, h)
            else:
                ncols_g = int(math.ceil(ncols/ratio))+2
                nrows_g = int(math.ceil(nrows/ratio))+2
                ox = xll-csz_g
                oy = yll-csz_g
            gr = Grid(f"coarse{igrid}", ncols_g, nrows_g, cellsize=csz_g,
                      xllcorner=ox, yllcorner=oy)
            for fl in [False, True]:
                check_intersect(ca, gr, fl, f"random {icase}/{igrid}/{kind}"
                                + f"/r={ratio}/filled={fl}")


def random_voronoi_cases(rng, ncases):
    for icase in range(ncases):
        nrows = rng.randint(1, 12)
        ncols = rng.randint(1, 12)
        dyadic = rng.random() < 0.7
        if dyadic:
            csz = rng.choice([1., 0.5, 0.25, 2.])
            xll = rng.choice([0., -3., 10.5, 0.25])
            yll = rng.choice([0., 2., -11.5, 0.75])
        else:
            csz = rng.choice([0.1, 0.05, 1./3])
            xll = rng.uniform(-180., 180.)
            yll = rng.uniform(-90., 90.)
        area, filled = random_cells(rng, nrows*ncols)
        ca = make_catchment(nrows, ncols, xll, yll, csz, area, filled)
        fine = geom(ca.flowdir)

        for ipts in range(4):
            npts = rng.randint(1, 6)
            points = []
            for j in range(npts):
                kind = rng.choice(["centre", "corner", "inside", "outside",
                                   "dup", "mirror"])
                if kind == "centre":
                    c = rng.randrange(nrows*ncols)
                    p = centre(c, *fine)
                elif kind == "corner":
                    p = (xll+csz*rng.randint(0, ncols),
                         yll+csz*rng.randint(0, nrows))
                elif kind == "inside":
                    if dyadic:
                        p = (xll+csz*rng.randint(0, 8*ncols)/8,
                             yll+csz*rng.randint(0, 8*nrows)/8)
                    else:
                        p = (xll+rng.uniform(0, ncols*csz),
                             yll+rng.uniform(0, nrows*csz))
                elif kind == "outside":
                    p = (xll+csz*rng.choice([-20, -3, ncols+2, ncols+31]),
                         yll+csz*rng.choice([-17, -1, nrows+5, nrows+40]))
                elif kind == "dup" and points:
                    p = rng.choice(points)
                elif kind == "mirror" and points:
                    # symmetric of a previous point about a cell centre
                    # or about a cell corner : exact ties
                    q = rng.choice(points)
                    if rng.random() < 0.5:
                        m = centre(rng.randrange(nrows*ncols), *fine)
                    else:
                        m = (xll+csz*rng.randint(0, ncols),
                             yll+csz*rng.randint(0, nrows))
                    p = (2*m[0]-q[0], 2*m[1]-q[1])
                else:
                    p = (xll+csz*ncols/2, yll+csz*nrows/2)
                points.append([float(p[0]), float(p[1])])
            check_voronoi(ca, points, f"random voronoi {icase}/{ipts}")


def main():
    fixed_cases()
    rng = random.Random(160016)
    random_intersect_cases(rng, 400)
    random_voronoi_cases(rng, 500)
    extra_checks()

    print("checks run: " + ", ".join(f"{k}={v}" for k, v in NCHECKS.items()))
    for k, v in NCHECKS.items():
        if v == 0:
            fail(f"no check of kind {k} was run")
    print("C16 demo OK")


def extra_checks():
    """ Checks specific to this rewrite (see bottom of file) """
    EXTRA()


def EXTRA():
    pass



def EXTRA():
    """ Rewrite 3 changes incidental behaviour only (messages, exception
    classes outside of the quantifier, defensive copies, python integers
    for the window in the parent grid). Check what the property needs
    from these details, in a way that holds before and after:
    * no overlap -> ValueError (whatever the text), for filled and
      unfilled area, grid on each side of the catchment,
    * inputs are not modified, outputs can be modified without side effect
      and two successive calls return the same thing,
    * the window attributes are integers usable to slice the parent grid,
    * the warning for grids less than twice as coarse is a warning, not an
      error, and is only issued below ratio 2,
    * points given as list / tuple / integer array give the same weights.
    """
    area = [5, 6, 9, 10, 0]
    filled = [0, 5, 6, 9, 10, 15]
    ca = make_catchment(4, 4, 10., 20., 1., area, filled)

    # No overlap
    for (ox, oy) in [(0., 20.), (14., 20.), (10., 10.), (10., 24.),
                     (14., 24.), (-1e6, 3e5)]:
        gr = Grid("g", 2, 2, cellsize=2., xllcorner=ox, yllcorner=oy)
        for fl in [False, True]:
            try:
                ca.intersect(gr, filled=fl)
            except ValueError:
                continue
            fail(f"extra: no overlap at {ox},{oy} did not raise ValueError")

    # This grid only holds the centre of cell 15 (in its cell 0), which
    # belongs to the filled area only
    gr = Grid("g", 2, 2, cellsize=2., xllcorner=13., yllcorner=18.)
    try:
        ca.intersect(gr, filled=False)
        fail("extra: unfilled area should not overlap")
    except ValueError:
        pass
    _, idx, w = ca.intersect(gr, filled=True)
    if not np.array_equal(idx, [0]) or not np.array_equal(w, [0.25]):
        fail("extra: filled area should hold one cell of weight 1/4")

    # Inputs untouched, outputs independent, calls repeatable
    gr = Grid("parent", 5, 4, cellsize=2., xllcorner=5., yllcorner=17.)
    gr.data = np.arange(20.).reshape((4, 5))
    grdata = gr.data.copy()
    for fl in [False, True]:
        ag1, idx1, w1 = ca.intersect(gr, filled=fl)
        keep = (ag1.data.copy(), idx1.copy(), w1.copy())
        idx1[:] = -99
        w1[:] = -99.
        ag1.data[:] = -99.
        ag2, idx2, w2 = ca.intersect(gr, filled=fl)
        if not (np.array_equal(ag2.data, keep[0])
                and np.array_equal(idx2, keep[1])
                and np.array_equal(w2, keep[2])):
            fail("extra: second call differs from first one")
        check_intersect(ca, gr, fl, "extra repeat")

        # .. window attributes are integers that slice the parent
        r0, r1 = ag2.parentgrid_rows_start, ag2.parentgrid_rows_end
        c0, c1 = ag2.parentgrid_cols_start, ag2.parentgrid_cols_end
        for v in [r0, r1, c0, c1]:
            if not isinstance(v, (int, np.integer)):
                fail(f"extra: window attribute of type {type(v)}")
        sub = gr.data[r0:r1+1, c0:c1+1]
        if sub.shape != ag2.data.shape:
            fail("extra: window does not slice the parent grid")
        # .. weighted sum through the window == through the cell list
        s1 = float(np.sum(sub*ag2.data))
        s2 = float(np.sum(gr.data.flat[idx2]*w2))
        if abs(s1-s2) > 1e-12*abs(s2):
            fail("extra: weighted sums differ")

    if not np.array_equal(ca._idxcells_area, area) \
            or not np.array_equal(ca._idxcells_area_filled, filled) \
            or not np.array_equal(gr.data, grdata):
        fail("extra: inputs modified by intersect")

    # Warning
    for ratio, expect in [(1., True), (1.5, True), (1.999, True),
                          (2., False), (2.5, False), (4., False)]:
        gr = Grid("g", 6, 6, cellsize=ratio, xllcorner=9., yllcorner=19.)
        with warnings.catch_warnings(record=True) as ws:
            warnings.simplefilter("always")
            ca.intersect(gr)
        ws = [x for x in ws if issubclass(x.category, UserWarning)]
        if (len(ws) > 0) != expect:
            fail(f"extra: ratio {ratio}: warning issued={len(ws) > 0}")
    warnings.simplefilter("ignore")

    # Voronoi: input containers, no side effect, repeatable
    pts = [[10, 20], [14, 24], [12, 22], [12, 22]]
    ref = voronoi(ca, np.array(pts, dtype=np.float64))
    for other in [pts, tuple(tuple(p) for p in pts),
                  np.array(pts, dtype=np.int64),
                  np.array(pts, dtype=np.float32)]:
        if not np.array_equal(voronoi(ca, other), ref):
            fail("extra: voronoi depends on the container of the points")
    ref[:] = -1
    check_voronoi(ca, [[float(u), float(v)] for u, v in pts], "extra vor")
    if not np.array_equal(ca._idxcells_area, area):
        fail("extra: inputs modified by voronoi")
    # .. single point given as a flat pair
    if not np.array_equal(voronoi(ca, [3., 4.]), [1.]):
        fail("extra: single point")


if __name__ == "__main__":
    main()
