#!/usr/bin/env python
"""Property C14 -- var2h returns the exact period average of the data.

Self-contained check; run as
    PYTHONPATH=<tree>/src /venv/bin/python demo.py
Exits 0 when every check passes, 1 otherwise.

The reference below is written with exact rational arithmetic
(fractions.Fraction) straight from the wording of the property:

* the output starts at the first full hour strictly after the first
  (wall-clock) stamp and has floor((last-first)/period) periods;
* a value is either missing or the time-average over its period of the
  piecewise-linear interpolant (rainfall: the period total of the increments
  spread uniformly over their intervals);
* apart from the final period of the output, a period is missing exactly
  when an interval OVERLAPPING it (positive-length overlap) is invalid
  (NaN or negative end value, or longer than maxgapsec) or when the data
  stop before the end of the period.  Invalid intervals that merely TOUCH a
  period boundary leave the period unconstrained: there the value may be
  missing, but if it is not missing it must still be the exact average;
* nothing depends on the storage unit (s/ms/us/ns) or time zone of the index.
"""
import sys
import math
import bisect
import warnings
from fractions import Fraction

import numpy as np
import pandas as pd

from hydrodiy.data import dutils

warnings.filterwarnings("ignore")

NCHECK = [0]
FAILURES = []


def fail(msg):
    FAILURES.append(msg)
    if len(FAILURES) <= 20:
        print("FAIL:", msg)


# ---------------------------------------------------------------------------
# exact reference
# ---------------------------------------------------------------------------
def isbad(v1, v2, t1, t2, maxgap):
    return (math.isnan(v1) or math.isnan(v2) or v1 < 0 or v2 < 0
            or (t2 - t1) > maxgap)


def reference(varsec, vals, period, rainfall, maxgap):
    """ varsec: python ints (wall-clock seconds since 1970), non-decreasing.
    Returns hstartsec, nvalh, and per period a tuple
    (status, exact) with status in {"missing", "valid", "free"} where "free"
    means the property leaves the missing-ness open (exact may then be None
    if the average is not defined). """
    n = len(varsec)
    first, last = varsec[0], varsec[-1]
    hstart = (first // 3600) * 3600 + 3600
    nvalh = (last - first) // period
    out = []
    for i in range(nvalh):
        S = hstart + i * period
        E = S + period
        covered = last >= E
        must_missing = not covered
        touch_bad = False
        total = Fraction(0)
        # candidate intervals j=(j, j+1) with varsec[j+1]>=S and varsec[j]<=E
        jlo = max(bisect.bisect_left(varsec, S) - 1, 0)
        jhi = min(bisect.bisect_right(varsec, E), n - 1)
        for j in range(jlo, jhi):
            t1, t2 = varsec[j], varsec[j + 1]
            v1, v2 = vals[j], vals[j + 1]
            if t2 < S or t1 > E:
                continue
            bad = isbad(v1, v2, t1, t2, maxgap)
            lo, hi = max(t1, S), min(t2, E)
            if lo < hi:
                if bad:
                    must_missing = True
                else:
                    if rainfall:
                        total += Fraction(v2) * Fraction(hi - lo, t2 - t1)
                    else:
                        f1, f2 = Fraction(v1), Fraction(v2)
                        a = (f2 - f1) / (t2 - t1)
                        y1 = f1 + a * (lo - t1)
                        y2 = f1 + a * (hi - t1)
                        total += (y1 + y2) / 2 * (hi - lo)
            else:
                # zero-length overlap: touches a boundary, or is a
                # duplicate stamp inside the period
                if bad:
                    touch_bad = True
        exact = None
        if not must_missing:
            exact = total if rainfall else total / period
        if i == nvalh - 1:
            status = "free"          # final period of the output
        elif must_missing:
            status = "missing"
        elif touch_bad:
            status = "free"
        else:
            status = "valid"
        out.append((status, exact, must_missing))
    return hstart, nvalh, out


def make_index(varsec, unit, tz):
    idx = pd.DatetimeIndex(np.array(varsec, dtype="int64")
                           .astype("datetime64[s]"))
    idx = idx.as_unit(unit)
    if tz is not None:
        idx = idx.tz_localize(tz)
    return idx


def check_case(label, varsec, vals, period, rainfall, maxgap,
               unit="ns", tz=None, compare_with=None, kwstyle=0):
    """ Runs var2h and compares with the exact reference. Returns the
    output values (for invariance checks). """
    NCHECK[0] += 1
    varsec = [int(s) for s in varsec]
    vals = [float(v) for v in vals]
    idx = make_index(varsec, unit, tz)
    se = pd.Series(np.array(vals, dtype=np.float64), index=idx)
    vals_before = se.values.copy()

    if kwstyle == 0:
        seh = dutils.var2h(se, nbsec_per_period=period, maxgapsec=maxgap,
                           rainfall=rainfall)
    elif kwstyle == 1:
        seh = dutils.var2h(se, period, maxgap, rainfall, False)
    else:
        seh = dutils.var2h(se, nbsec_per_period=int(period),
                           maxgapsec=int(maxgap), rainfall=int(rainfall),
                           display=0)

    # input untouched
    if not np.array_equal(se.values, vals_before, equal_nan=True):
        fail(f"{label}: input series modified")

    hstart, nvalh, ref = reference(varsec, vals, period, rainfall, maxgap)

    if not isinstance(seh, pd.Series):
        fail(f"{label}: result is not a Series")
        return None
    if len(seh) != nvalh:
        fail(f"{label}: expected {nvalh} periods, got {len(seh)}")
        return None

    # index: naive wall-clock period starts
    got_sec = (np.asarray(seh.index.values).astype("datetime64[s]")
               .astype(np.int64))
    exp_sec = hstart + period * np.arange(nvalh, dtype=np.int64)
    if not np.array_equal(got_sec, exp_sec):
        fail(f"{label}: output time stamps differ from period starts")
    if getattr(seh.index, "tz", None) is not None:
        fail(f"{label}: output index is not wall-clock (naive)")

    out = np.asarray(seh.values, dtype=np.float64)
    finite_vals = [abs(v) for v in vals if not math.isnan(v)]
    scale = max(finite_vals + [1.0])
    tol = 1e-9 * scale
    for i, (status, exact, _) in enumerate(ref):
        g = out[i]
        if status == "missing":
            if not math.isnan(g):
                fail(f"{label}: period {i} should be missing, got {g}")
        elif status == "valid":
            if math.isnan(g):
                fail(f"{label}: period {i} should not be missing")
            elif abs(Fraction(g) - exact) > tol:
                fail(f"{label}: period {i} got {g!r}, exact {float(exact)!r}")
        else:
            # free: missing or exact average
            if not math.isnan(g):
                if exact is None or abs(Fraction(g) - exact) > tol:
                    fail(f"{label}: period {i} (unconstrained missing-ness)"
                         f" got {g!r}, exact {exact}")

    # conservation of the time-integral over every run of non-missing
    # periods (follows from the above, checked independently end-to-end)
    i = 0
    while i < nvalh:
        if math.isnan(out[i]) or ref[i][1] is None:
            i += 1
            continue
        k = i
        sg = Fraction(0)
        sx = Fraction(0)
        while k < nvalh and not math.isnan(out[k]) and ref[k][1] is not None:
            sg += Fraction(float(out[k]))
            sx += ref[k][1]
            k += 1
        if abs(sg - sx) > tol * (k - i):
            fail(f"{label}: integral not conserved over periods {i}..{k-1}")
        i = k

    if compare_with is not None:
        if not np.array_equal(out, compare_with, equal_nan=True):
            fail(f"{label}: result depends on index unit / time zone")
    return out


# ---------------------------------------------------------------------------
# hand-made cases
# ---------------------------------------------------------------------------
H = 3600
T0 = 946684800  # 2000-01-01 00:00:00
NAN = float("nan")


def handmade():
    cases = []
    # two observations only
    cases.append(("len2", [T0 + 600, T0 + 5 * H], [1.0, 2.0]))
    cases.append(("len2-onhour", [T0, T0 + 4 * H], [3.0, 0.0]))
    cases.append(("len2-exact2periods", [T0 + 1, T0 + 1 + 2 * H], [5.0, 7.0]))
    cases.append(("len2-nan", [T0 + 600, T0 + 5 * H], [1.0, NAN]))
    cases.append(("len2-neg", [T0 + 600, T0 + 5 * H], [-1.0, 2.0]))
    cases.append(("len2-long", [T0 + 600, T0 + 600 + 6 * 86400], [1.0, 2.0]))
    cases.append(("len2-5days", [T0 + 600, T0 + 600 + 5 * 86400], [1.0, 2.0]))
    cases.append(("len2-5days+1", [T0 + 600, T0 + 601 + 5 * 86400],
                  [1.0, 2.0]))
    # stamps exactly on period boundaries
    cases.append(("onboundaries", [T0 + k * 1800 for k in range(13)],
                  [float(k * k % 7) for k in range(13)]))
    cases.append(("onhours", [T0 + k * H for k in range(8)],
                  [float(k) for k in range(8)]))
    # duplicates, incl. on a boundary and at both ends
    cases.append(("dups", [T0 + 10, T0 + 10, T0 + H, T0 + H, T0 + H,
                           T0 + H + 20, T0 + 2 * H + 30, T0 + 2 * H + 30,
                           T0 + 5 * H, T0 + 5 * H],
                  [1., 2., 3., 10., 4., 5., 6., 1., 2., 8.]))
    # NaN at a duplicate stamp sitting on a boundary (touching intervals)
    cases.append(("dups-nan-boundary",
                  [T0 + 10, T0 + 2 * H, T0 + 2 * H, T0 + 2 * H, T0 + 3 * H,
                   T0 + 6 * H],
                  [1., 2., NAN, 3., 4., 5.]))
    cases.append(("dups-nan-interior",
                  [T0 + 10, T0 + 2 * H + 5, T0 + 2 * H + 5, T0 + 2 * H + 5,
                   T0 + 3 * H, T0 + 6 * H],
                  [1., 2., NAN, 3., 4., 5.]))
    # NaN exactly on a boundary: both neighbours are overlapping intervals
    cases.append(("nan-on-boundary",
                  [T0 + 10, T0 + H, T0 + 2 * H, T0 + 3 * H, T0 + 4 * H,
                   T0 + 5 * H, T0 + 7 * H],
                  [1., 2., NAN, 3., 4., 5., 6.]))
    # invalid interval ending exactly at the start of a period / starting
    # exactly at the end of a period (merely touching)
    cases.append(("bad-touch-start",
                  [T0 + 10, T0 + H, T0 + 2 * H - 7, T0 + 2 * H, T0 + 2 * H,
                   T0 + 3 * H + 3, T0 + 7 * H],
                  [1., 2., NAN, NAN, 3., 4., 5.]))
    cases.append(("bad-touch-end",
                  [T0 + 10, T0 + H, T0 + 2 * H, T0 + 2 * H, T0 + 2 * H + 9,
                   T0 + 3 * H + 3, T0 + 7 * H],
                  [1., 2., 2., -5., -5., 4., 5.]))
    # first stamp of the series is the touching one for the first period
    cases.append(("first-period-touch",
                  [T0 + H - 5, T0 + H, T0 + H, T0 + 2 * H + 4, T0 + 6 * H],
                  [NAN, NAN, 1., 2., 3.]))
    # gap exactly maxgap / maxgap+1 inside
    cases.append(("gap-eq", [T0 + 5, T0 + 50, T0 + 50 + 7200, T0 + 9 * H],
                  [1., 2., 3., 4.]))
    cases.append(("gap-gt", [T0 + 5, T0 + 50, T0 + 51 + 7200, T0 + 9 * H],
                  [1., 2., 3., 4.]))
    # data stopping inside the last-but-one half-hourly period
    cases.append(("short-end", [T0 + 1, T0 + 900, T0 + 3 * H - 1],
                  [1., 2., 3.]))
    # dense one-second data
    cases.append(("dense", [T0 + 3000 + k for k in range(3 * H)],
                  [float((k * 37) % 11) for k in range(3 * H)]))
    # negative zero and zeros
    cases.append(("zeros", [T0 + 7, T0 + H + 7, T0 + 2 * H + 7, T0 + 4 * H],
                  [0.0, -0.0, 0.0, 0.0]))
    # large values
    cases.append(("large", [T0 + 7, T0 + H + 17, T0 + 2 * H + 7, T0 + 4 * H],
                  [1e12, 3e12, 0.5e12, 7e12]))
    # before 1970 (negative epoch seconds)
    cases.append(("pre1970", [-5 * H - 100, -3 * H - 10, -3 * H, -10, 0, 15,
                              2 * H + 1],
                  [1., 2., 3., 4., 5., 6., 7.]))
    return cases


def run_handmade():
    for name, sec, vals in handmade():
        for period in (1800, 3600):
            for rain in (False, True):
                for maxgap in (3600, 7200, 5 * 86400):
                    base = None
                    for k, (unit, tz) in enumerate((
                            ("ns", None), ("s", None), ("ms", None),
                            ("us", None), ("ns", "UTC"),
                            ("s", "Asia/Kolkata"),
                            ("us", "Australia/Brisbane"),
                            ("ms", "Etc/GMT+3"))):
                        lab = f"{name}/p{period}/r{int(rain)}/g{maxgap}/"\
                              f"{unit}/{tz}"
                        out = check_case(lab, sec, vals, period, rain, maxgap,
                                         unit, tz, compare_with=base,
                                         kwstyle=k % 3)
                        if base is None:
                            base = out


# ---------------------------------------------------------------------------
# random cases
# ---------------------------------------------------------------------------
def random_series(rng):
    n = int(rng.choice([2, 2, 3, 4, 5, 8, 13, 30, 60, 200]))
    style = rng.integers(0, 5)
    start = int(rng.choice([T0, T0 + 1, T0 + 1799, T0 + 1800, T0 + 3599,
                            T0 - 12345678, 86400 * 365 * 40 + 4321,
                            -86400 * 700 + 59]))
    start += int(rng.integers(0, 7200)) if rng.random() < 0.5 else 0
    gaps = []
    for _ in range(n - 1):
        u = rng.random()
        if style == 0:      # seconds to minutes
            g = int(rng.integers(0, 400))
        elif style == 1:    # minutes to hours
            g = int(rng.integers(0, 3 * H))
        elif style == 2:    # mixture with long gaps
            g = int(rng.choice([0, 1, 60, 1800, 3600, 3601, 7200, 7201,
                                86400, 5 * 86400, 5 * 86400 + 1]))
        elif style == 3:    # multiples of the half hour
            g = 1800 * int(rng.integers(0, 5))
        else:
            g = int(rng.exponential(2000))
        if u < 0.08:
            g = 0
        gaps.append(g)
    sec = np.concatenate([[start], start + np.cumsum(gaps)]).astype(np.int64)
    # snap some stamps onto period boundaries (keeping the order)
    for k in range(1, n):
        if rng.random() < 0.15:
            snapped = (sec[k] // 1800) * 1800
            if snapped >= sec[k - 1]:
                sec[k] = snapped
    sec = np.maximum.accumulate(sec)
    # make sure the series spans at least two hourly periods and does not
    # produce an unreasonably long output
    if sec[-1] - sec[0] < 2 * H:
        sec[-1] = sec[0] + 2 * H + int(rng.integers(0, 3 * H))
    if sec[-1] - sec[0] > 40 * 86400:
        return random_series(rng)
    vals = rng.uniform(0, 20, size=n)
    vals[rng.random(n) < 0.15] = 0.0
    pbad = rng.choice([0.0, 0.05, 0.2])
    vals[rng.random(n) < pbad] = np.nan
    vals[rng.random(n) < pbad / 2] = -float(rng.uniform(0.001, 5))
    if rng.random() < 0.3:
        vals = np.round(vals, 1)
    return sec.tolist(), vals.tolist()


def run_random(nrep=700, seed=20140914):
    rng = np.random.default_rng(seed)
    tzs = [None, "UTC", "Asia/Kolkata", "Australia/Brisbane", "Etc/GMT-10",
           "Asia/Kathmandu"]
    units = ["s", "ms", "us", "ns"]
    for irep in range(nrep):
        sec, vals = random_series(rng)
        period = int(rng.choice([1800, 3600]))
        rain = bool(rng.integers(0, 2))
        maxgap = int(rng.choice([3600, 3601, 7200, 86400, 5 * 86400,
                                 10 * 86400]))
        base = check_case(f"rnd{irep}/base", sec, vals, period, rain, maxgap,
                          "ns", None, kwstyle=irep % 3)
        # same wall-clock series in another unit / zone: identical answer
        for _ in range(2):
            unit = units[int(rng.integers(0, 4))]
            tz = tzs[int(rng.integers(0, len(tzs)))]
            check_case(f"rnd{irep}/{unit}/{tz}", sec, vals, period, rain,
                       maxgap, unit, tz, compare_with=base)


# ---------------------------------------------------------------------------
# repeated / interleaved calls: no state may leak from one call to the next
# ---------------------------------------------------------------------------
def run_state():
    rng = np.random.default_rng(7)
    pool = []
    for k in range(12):
        sec, vals = random_series(rng)
        pool.append((sec, vals, int(rng.choice([1800, 3600])),
                     bool(rng.integers(0, 2)),
                     int(rng.choice([3600, 7200, 5 * 86400]))))
    first = {}
    for rnd in range(4):
        order = rng.permutation(len(pool))
        for k in order:
            sec, vals, period, rain, maxgap = pool[k]
            out = check_case(f"state{rnd}/{k}", sec, vals, period, rain,
                             maxgap, "ns", None)
            if out is None:
                continue
            if k in first:
                if not np.array_equal(out, first[k], equal_nan=True):
                    fail(f"state{rnd}/{k}: repeated call gives another answer")
            else:
                first[k] = out.copy()

    # same series, one argument changed at a time -> each answer checked
    sec, vals = pool[0][0], pool[0][1]
    for period in (3600, 1800, 3600):
        for rain in (False, True, False):
            for maxgap in (5 * 86400, 3600, 5 * 86400):
                check_case("state/args", sec, vals, period, rain, maxgap)

    # same stamps, other values (and the reverse): answers must follow
    sec = [T0 + 100, T0 + H + 100, T0 + 2 * H + 100, T0 + 5 * H]
    check_case("state/v1", sec, [1., 2., 3., 4.], 3600, False, 5 * 86400)
    check_case("state/v2", sec, [1., 2., 3., 5.], 3600, False, 5 * 86400)
    check_case("state/v3", sec, [1., NAN, 3., 5.], 3600, False, 5 * 86400)
    check_case("state/v1b", sec, [1., 2., 3., 4.], 3600, False, 5 * 86400)
    sec2 = [s + 1 for s in sec]
    check_case("state/t2", sec2, [1., 2., 3., 4.], 3600, False, 5 * 86400)

    # the caller owns the result: writing into it must not change what the
    # next call returns
    idx = make_index(sec, "ns", None)
    se = pd.Series([1., 2., 3., 4.], index=idx)
    a = dutils.var2h(se)
    keep = a.values.copy()
    try:
        a.values[:] = -999.
    except ValueError:
        a = a.copy()
        a.iloc[:] = -999.
    b = dutils.var2h(se)
    if not np.array_equal(b.values, keep, equal_nan=True):
        fail("state: result of a call aliases the result of an earlier call")
    c = dutils.var2h(se)
    if b is c or np.shares_memory(np.asarray(b.values), np.asarray(c.values)):
        fail("state: two calls return the same storage")
    if np.shares_memory(np.asarray(c.values), np.asarray(se.values)):
        fail("state: result shares storage with the input")
    # many distinct series in a row, then the first ones again
    many = []
    for k in range(40):
        sk = [T0 + 100 + k, T0 + H + 100, T0 + 2 * H + 100 + k, T0 + 5 * H]
        vk = [1. + k, 2., 3., 4.]
        many.append((sk, vk))
    for rnd in range(2):
        for k, (sk, vk) in enumerate(many):
            check_case(f"state/many{rnd}/{k}", sk, vk, 3600, bool(k % 2),
                       5 * 86400, ("s", "ns")[rnd], (None, "UTC")[rnd])
    # same bits except the sign of a zero / another unit / another zone
    for vk in ([0.0, 1.0, 0.0, 2.0], [-0.0, 1.0, -0.0, 2.0]):
        for unit, tz in (("ns", None), ("s", "Asia/Kolkata"), ("ms", None)):
            check_case("state/zero", sec, vk, 1800, False, 3600, unit, tz)
    # changing the input in place after a call must be seen by the next call
    se2 = pd.Series(np.array([1., 2., 3., 4.]), index=idx)
    r1 = dutils.var2h(se2)
    se2 = pd.Series(np.array([1., 2., 30., 4.]), index=idx)
    r2 = dutils.var2h(se2)
    if np.array_equal(r1.values, r2.values, equal_nan=True):
        fail("state: changed input values not reflected")


# ---------------------------------------------------------------------------
# outside the quantifier: only "does not crash the interpreter" and, where
# a value is returned, nothing is asserted about it
# ---------------------------------------------------------------------------
def run_outside():
    idx = make_index([T0 + 5], "ns", None)
    for se in (pd.Series([1.0], index=idx),
               pd.Series([1.0, 2.0], index=make_index([T0 + 5, T0 + 50],
                                                      "ns", None))):
        try:
            dutils.var2h(se)
        except Exception:
            pass
    # rejected arguments must still be rejected with an exception
    se = pd.Series([1.0, 2.0], index=make_index([T0 + 5, T0 + 5 * H],
                                                "ns", None))
    for kw in (dict(nbsec_per_period=900), dict(nbsec_per_period=7200),
               dict(maxgapsec=3599), dict(maxgapsec=0)):
        try:
            dutils.var2h(se, **kw)
        except Exception:
            continue
        fail(f"outside: var2h accepted {kw}")


def main():
    run_handmade()
    run_random()
    run_state()
    run_outside()
    print(f"{NCHECK[0]} cases checked, {len(FAILURES)} failures")
    return 1 if FAILURES else 0


if __name__ == "__main__":
    sys.exit(main())
