#!/usr/bin/env python
"""Property C03 demo: CRPS equals its definition and its decomposition is exact.

Run as:  PYTHONPATH=<tree>/src /venv/bin/python demo.py
Exits 0 when every check passes, 1 otherwise.

IMPORTANT: metrics.crps runs the compiled kernel c_hydrodiy_stat.  Build the
tree under test first (/tmp/mutkit/build_ext.sh <tree>), ALSO the unmodified
one: without <tree>/src/*.so Python falls back on /repo/src/*.so, a binary
that was built before the fix "CRPS outlier frequencies are capped at 1"
(4c86f14) and genuinely returns potential < 0 for some inputs.

Only the public function hydrodiy.stat.metrics.crps is used.  The reference
values are computed in exact rational arithmetic (fractions.Fraction) from the
float64 inputs, so the only error in the comparison is the rounding done inside
the library.  All tolerances are 1e-10 times the spread of the data, i.e. far
above rounding noise and far below any genuine defect.
"""
import sys
import itertools
from fractions import Fraction as F

import numpy as np

from hydrodiy.stat import metrics

RTOL = 1e-10
NFAIL = 0
NCHECK = 0


def fail(label, msg):
    global NFAIL
    NFAIL += 1
    if NFAIL <= 30:
        print(f"FAIL [{label}] {msg}")


def close(label, what, got, expected, tol):
    global NCHECK
    NCHECK += 1
    got = float(got)
    expected = float(expected)
    if not (np.isfinite(got) and abs(got-expected) <= tol):
        fail(label, f"{what}: got {got!r}, expected {expected!r}, tol {tol:g}")


def nonneg(label, what, got):
    global NCHECK
    NCHECK += 1
    got = float(got)
    if not (np.isfinite(got) and got >= 0.0):
        fail(label, f"{what} = {got!r} is not a non-negative finite number")


# ---------------------------------------------------------------------------
# Exact references
# ---------------------------------------------------------------------------
def ref_crps(obs, ens):
    """ mean_i ( E|X_i - y_i| - 0.5 E|X_i - X_i'| ) in exact arithmetic """
    n, m = ens.shape
    tot = F(0)
    for i in range(n):
        y = F(float(obs[i]))
        x = [F(float(v)) for v in ens[i]]
        e1 = sum(abs(v-y) for v in x)/m
        xs = sorted(x)
        # sum_{k<l} (xs[l]-xs[k]) = sum_k (2k-m+1) xs[k]
        e2 = 2*sum((2*k-m+1)*v for k, v in enumerate(xs))/(m*m)
        tot += e1-e2/2
    return tot/n


def ref_uncertainty(obs):
    """ CRPS of the climatology = 1/n^2 sum_{k<i} |y_k-y_i| """
    n = len(obs)
    ys = sorted(F(float(v)) for v in obs)
    return sum((2*k-n+1)*v for k, v in enumerate(ys))/(n*n)


def spread(obs, ens):
    vals = np.concatenate([np.ravel(obs), np.ravel(ens)])
    vals = vals[np.isfinite(vals)]
    return float(vals.max()-vals.min())


# ---------------------------------------------------------------------------
# One full check of the property on (obs, ens); obs has no NaN here
# ---------------------------------------------------------------------------
def check_case(label, obs, ens, rng, light=False):
    obs = np.asarray(obs, dtype=np.float64)
    ens = np.asarray(ens, dtype=np.float64)
    n, m = ens.shape
    assert obs.shape == (n,) and n >= 1 and m >= 1
    assert np.all(np.isfinite(obs)) and np.all(np.isfinite(ens))

    S = spread(obs, ens)
    tol = RTOL*S

    d, table = metrics.crps(obs.copy(), ens.copy())
    for nm in ["crps", "reliability", "resolution", "uncertainty",
               "potential"]:
        if nm not in d.index:
            fail(label, f"missing item {nm}")
            return

    # 1. definition
    expected = ref_crps(obs, ens)
    close(label, "crps vs definition", d["crps"], expected, tol)
    if m == 1:
        mae = sum(abs(F(float(o))-F(float(e))) for o, e in zip(obs, ens[:, 0]))
        close(label, "crps vs MAE (one member)", d["crps"], mae/n, tol)

    # 2. decomposition
    close(label, "crps = reliability + potential",
          d["reliability"]+d["potential"], d["crps"], tol)
    close(label, "resolution = uncertainty - potential",
          d["resolution"], d["uncertainty"]-d["potential"], tol)
    nonneg(label, "reliability", d["reliability"])
    nonneg(label, "potential", d["potential"])
    nonneg(label, "uncertainty", d["uncertainty"])

    # 3. uncertainty = CRPS of the observed climatology
    close(label, "uncertainty vs exact climatology CRPS",
          d["uncertainty"], ref_uncertainty(obs), tol)
    clim = np.repeat(obs[None, :], n, axis=0)
    dc, _ = metrics.crps(obs.copy(), clim)
    close(label, "uncertainty vs crps(obs, climatology)",
          d["uncertainty"], dc["crps"], tol)

    if light:
        return

    names = ["crps", "reliability", "resolution", "uncertainty", "potential"]

    # 4. order of members (a different permutation for each forecast)
    ens_p = np.array([rng.permutation(row) for row in ens])
    dp, _ = metrics.crps(obs.copy(), ens_p)
    for nm in names:
        close(label, f"member order: {nm}", dp[nm], d[nm], tol)
    dp, _ = metrics.crps(obs.copy(), np.ascontiguousarray(ens[:, ::-1]))
    for nm in names:
        close(label, f"members reversed: {nm}", dp[nm], d[nm], tol)
    dp, _ = metrics.crps(obs.copy(), np.sort(ens, axis=1))
    for nm in names:
        close(label, f"members presorted: {nm}", dp[nm], d[nm], tol)

    # 5. order of forecasts
    k = rng.permutation(n)
    dp, _ = metrics.crps(obs[k], ens[k])
    for nm in names:
        close(label, f"forecast order: {nm}", dp[nm], d[nm], tol)
    dp, _ = metrics.crps(obs[::-1].copy(), ens[::-1].copy())
    for nm in names:
        close(label, f"forecasts reversed: {nm}", dp[nm], d[nm], tol)

    # 6. shift by a constant: reference on the shifted (rounded) data and
    #    comparison with the unshifted result (rounding of the inputs
    #    is bounded by ulp of the shifted values)
    for cst in [1.0, -3.25, 1024.0]:
        obs_s = obs+cst
        ens_s = ens+cst
        ds, _ = metrics.crps(obs_s, ens_s)
        S2 = spread(obs_s, ens_s)
        close(label, f"shift {cst}: crps vs definition", ds["crps"],
              ref_crps(obs_s, ens_s), RTOL*S2)
        big = max(np.abs(obs_s).max(), np.abs(ens_s).max(),
                  np.abs(obs).max(), np.abs(ens).max())
        tol_s = RTOL*S2+8*np.spacing(big)
        for nm in names:
            close(label, f"shift {cst}: {nm}", ds[nm], d[nm], tol_s)

    # 7. positive scaling (power of two: inputs scale exactly;
    #    other factors: inputs are rounded, hence relative tolerance)
    for fac in [0.5, 4.0, 3.7, 1e-3, 12345.678]:
        dsc, _ = metrics.crps(obs*fac, ens*fac)
        big = max(np.abs(obs).max(), np.abs(ens).max())
        tol_f = fac*(tol+8*np.spacing(big))
        for nm in names:
            close(label, f"scale {fac}: {nm}", dsc[nm], fac*d[nm], tol_f)

    # 8. forecasts with a missing observation are ignored
    npad = int(rng.integers(1, 4))
    pos = np.sort(rng.integers(0, n+1, size=npad))
    obs_n = np.insert(obs, pos, np.nan)
    filler = rng.normal(size=(npad, m))*S+obs.mean()
    ens_n = np.insert(ens, pos, filler, axis=0)
    dn, tn = metrics.crps(obs_n, ens_n)
    for nm in names:
        close(label, f"NaN obs ignored: {nm}", dn[nm], d[nm], tol)


def check_exact_shift(label, obs, ens):
    """ data on a dyadic grid: adding a dyadic constant is exact, so
    the shifted and unshifted results must agree to rounding of the kernel"""
    obs = np.asarray(obs, dtype=np.float64)
    ens = np.asarray(ens, dtype=np.float64)
    S = spread(obs, ens)
    d, _ = metrics.crps(obs, ens)
    for cst in [2.0**20, -2.0**30, 2.0**-3, 7.0]:
        obs_s = obs+cst
        ens_s = ens+cst
        assert np.all(obs_s-cst == obs) and np.all(ens_s-cst == ens)
        ds, _ = metrics.crps(obs_s, ens_s)
        for nm in d.index:
            close(label, f"exact shift {cst}: {nm}", ds[nm], d[nm], RTOL*S)
    for fac in [2.0**-40, 2.0**60, 2.0**-300, 2.0**300]:
        dsc, _ = metrics.crps(obs*fac, ens*fac)
        for nm in d.index:
            close(label, f"exact scale {fac}: {nm}", dsc[nm]/fac, d[nm],
                  RTOL*S)


def main():
    import c_hydrodiy_stat
    print("kernel:", c_hydrodiy_stat.__file__)
    rng = np.random.default_rng(20240303)

    # --- tiny hand cases ----------------------------------------------------
    hand = {
        "n1m1 equal": ([1.0], [[1.0]]),
        "n1m1 below": ([0.0], [[1.0]]),
        "n1m1 above": ([2.0], [[1.0]]),
        "n1m2 inside": ([1.5], [[1.0, 2.0]]),
        "n1m2 tie low": ([1.0], [[1.0, 2.0]]),
        "n1m2 tie high": ([2.0], [[2.0, 1.0]]),
        "n1m2 const tie": ([1.0], [[1.0, 1.0]]),
        "n1m2 const below": ([0.0], [[1.0, 1.0]]),
        "n1m2 const above": ([3.0], [[1.0, 1.0]]),
        "n2m1": ([0.0, 5.0], [[1.0], [2.0]]),
        "n2m1 equal": ([1.0, 2.0], [[1.0], [2.0]]),
        "n2m2": ([0.0, 5.0], [[1.0, -1.0], [2.0, 7.0]]),
        "n2m2 same obs": ([1.0, 1.0], [[3.0, -1.0], [2.0, 7.0]]),
        "n2m3 ties": ([2.0, 2.0], [[2.0, 2.0, 3.0], [1.0, 2.0, 2.0]]),
        "n3m2 doc": ([1.0, 2.0, 3.0], [[1.0, 2.0], [0.0, 5.0], [3.0, 3.0]]),
        "n3m3 all same": ([4.0]*3, [[4.0]*3]*3),
        "n3m4 signed zeros": ([0.0, -0.0, 0.0],
                              [[0.0, -0.0, 1.0, -1.0],
                               [-0.0, 0.0, 0.0, -0.0],
                               [-1.0, -0.0, 0.0, -1.0]]),
        "n2m3 all below": ([-5.0, -6.0], [[1.0, 2.0, 3.0], [0.0, 0.5, 4.0]]),
        "n2m3 all above": ([15.0, 6.0], [[1.0, 2.0, 3.0], [0.0, 0.5, 4.0]]),
        "n2m3 obs on min": ([1.0, 0.0], [[1.0, 2.0, 3.0], [0.0, 0.5, 4.0]]),
        "n2m3 obs on max": ([3.0, 4.0], [[1.0, 2.0, 3.0], [0.0, 0.5, 4.0]]),
        "n3m3 mixed out": ([-1.0, 10.0, 2.0],
                           [[1.0, 2.0, 3.0], [0.0, 0.5, 4.0],
                            [2.0, 2.0, 2.0]]),
    }
    for label, (obs, ens) in hand.items():
        check_case(label, obs, ens, rng)

    # --- exhaustive small integer grids: every tie pattern -----------------
    vals = [0.0, 1.0, 2.0]
    for m in [1, 2, 3]:
        rows = list(itertools.product(vals, repeat=m))
        # n = 1
        for y in [-1.0, 0.0, 0.5, 1.0, 2.0, 3.0]:
            for row in rows:
                check_case(f"grid n1 m{m} y{y} {row}", [y], [row], rng,
                           light=True)
        # n = 2, subsample of pairs of rows
        pairs = list(itertools.product(rows, repeat=2))
        idx = rng.permutation(len(pairs))[:60]
        for ip in idx:
            r1, r2 = pairs[ip]
            y1, y2 = rng.choice([-1.0, 0.0, 0.5, 1.0, 2.0, 3.0], size=2)
            check_case(f"grid n2 m{m} {y1},{y2} {r1} {r2}", [y1, y2],
                       [r1, r2], rng, light=True)

    # --- random families ----------------------------------------------------
    sizes = [(1, 1), (1, 2), (2, 1), (2, 2), (1, 5), (5, 1), (3, 3), (2, 7),
             (7, 2), (5, 4), (10, 3), (20, 7), (13, 50), (40, 11)]
    for n, m in sizes:
        for rep in range(3):
            tag = f"n{n} m{m} r{rep}"

            # continuous
            obs = rng.normal(size=n)
            ens = rng.normal(size=(n, m))*rng.uniform(0.1, 3)+rng.normal()
            check_case("normal "+tag, obs, ens, rng)

            # small integers: many ties between members and with obs
            obs = rng.integers(0, 4, size=n).astype(float)
            ens = rng.integers(0, 4, size=(n, m)).astype(float)
            check_case("ties "+tag, obs, ens, rng)
            check_exact_shift("ties/exact "+tag, obs, ens)

            # dyadic grid
            obs = rng.integers(-64, 64, size=n)/16.
            ens = rng.integers(-64, 64, size=(n, m))/16.
            check_case("dyadic "+tag, obs, ens, rng)
            check_exact_shift("dyadic/exact "+tag, obs, ens)

            # obs equal to one of its own members
            ens = rng.normal(size=(n, m))
            obs = ens[np.arange(n), rng.integers(0, m, size=n)].copy()
            check_case("obs=member "+tag, obs, ens, rng)

            # obs equal to min / max member
            check_case("obs=min "+tag, ens.min(axis=1), ens, rng)
            check_case("obs=max "+tag, ens.max(axis=1), ens, rng)

            # obs below / above the whole ensemble for every forecast
            ens = rng.normal(size=(n, m))
            check_case("all below "+tag,
                       ens.min(axis=1)-rng.uniform(0.1, 2, size=n), ens, rng)
            check_case("all above "+tag,
                       ens.max(axis=1)+rng.uniform(0.1, 2, size=n), ens, rng)
            check_case("far below "+tag, np.full(n, -50.)+rng.normal(size=n),
                       ens, rng)
            check_case("far above "+tag, np.full(n, 50.)+rng.normal(size=n),
                       ens, rng)

            # constant ensembles (per forecast), obs random / equal
            cst = rng.integers(-2, 3, size=n).astype(float)
            ens = np.repeat(cst[:, None], m, axis=1)
            check_case("const ens "+tag, rng.normal(size=n), ens, rng)
            check_case("const ens, obs equal "+tag, cst.copy(), ens, rng)
            obs = cst.copy()
            obs[::2] += 1
            check_case("const ens, obs mixed "+tag, obs, ens, rng)

            # same ensemble everywhere, constant obs (uncertainty = 0)
            ens = np.repeat(rng.normal(size=(1, m)), n, axis=0)
            check_case("const obs "+tag, np.full(n, 0.3), ens, rng)

            # perfect climatology ensemble when m == n
            if m == n:
                obs = rng.normal(size=n)
                ens = np.repeat(obs[None, :], n, axis=0)
                check_case("climatology "+tag, obs, ens, rng)

            # large offset, small spread
            obs = 1e6+rng.normal(size=n)
            ens = 1e6+rng.normal(size=(n, m))
            check_case("offset "+tag, obs, ens, rng)

            # extreme magnitudes
            for mag in [1e-200, 1e-30, 1e30, 1e200]:
                obs = rng.normal(size=n)*mag
                ens = rng.normal(size=(n, m))*mag
                check_case(f"mag {mag:g} "+tag, obs, ens, rng, light=True)

            # skewed: exponentiated data
            obs = np.exp(rng.normal(size=n)*2)
            ens = np.exp(rng.normal(size=(n, m))*2)
            check_case("lognormal "+tag, obs, ens, rng)

    # --- a few larger problems ----------------------------------------------
    for n, m in [(150, 5), (60, 120), (300, 1), (1, 300)]:
        obs = rng.normal(size=n)
        ens = rng.normal(size=(n, m))+0.3
        check_case(f"large n{n} m{m}", obs, ens, rng, light=(n*m > 5000))
        obs = rng.integers(0, 6, size=n).astype(float)
        ens = rng.integers(0, 6, size=(n, m)).astype(float)
        check_case(f"large ties n{n} m{m}", obs, ens, rng, light=True)

    # --- NaN observations: leading, trailing, only one valid ---------------
    ens = rng.normal(size=(6, 4))
    obs = rng.normal(size=6)
    for mask in [[1, 0, 0, 0, 0, 0], [0, 0, 0, 0, 0, 1], [1, 1, 1, 1, 1, 0],
                 [0, 1, 1, 1, 1, 1], [1, 0, 1, 0, 1, 0], [1, 1, 0, 0, 1, 1]]:
        mask = np.array(mask, dtype=bool)
        obs_n = obs.copy()
        obs_n[mask] = np.nan
        dn, _ = metrics.crps(obs_n, ens)
        dv, _ = metrics.crps(obs[~mask], ens[~mask])
        S = spread(obs[~mask], ens[~mask])
        for nm in dv.index:
            close(f"nan mask {mask.astype(int)}", nm, dn[nm], dv[nm], RTOL*S)
        close(f"nan mask {mask.astype(int)}", "crps vs definition",
              dn["crps"], ref_crps(obs[~mask], ens[~mask]), RTOL*S)
        close(f"nan mask {mask.astype(int)}", "uncertainty",
              dn["uncertainty"], ref_uncertainty(obs[~mask]), RTOL*S)

    # obs given as [n, 1] column and as list, ens as list of lists
    ens = rng.normal(size=(5, 3))
    obs = rng.normal(size=5)
    d0, _ = metrics.crps(obs, ens)
    d1, _ = metrics.crps(obs[:, None], ens)
    d2, _ = metrics.crps(obs.tolist(), ens.tolist())
    for nm in d0.index:
        close("input forms", nm+" column obs", d1[nm], d0[nm], 0.)
        close("input forms", nm+" lists", d2[nm], d0[nm], 0.)

    # the caller's arrays are left untouched (members are sorted on a copy)
    ens = rng.normal(size=(6, 5))
    obs = rng.normal(size=6)
    ens0, obs0 = ens.copy(), obs.copy()
    metrics.crps(obs, ens)
    global NCHECK
    NCHECK += 1
    if not (np.array_equal(ens, ens0) and np.array_equal(obs, obs0)):
        fail("inputs", "crps modified its input arrays")

    # members sorted in descending / ascending order, members all tied
    # except one, obs on every member in turn
    base = np.array([[3.0, 1.0, 2.0, 2.0, 5.0]])
    for y in [0.0, 1.0, 1.5, 2.0, 2.5, 3.0, 4.0, 5.0, 6.0]:
        for arr in [base, np.sort(base, axis=1),
                    np.sort(base, axis=1)[:, ::-1].copy()]:
            check_case(f"orders y={y}", [y], arr, rng, light=True)
            check_case(f"orders x2 y={y}", [y, 2.0],
                       np.vstack([arr, arr[:, ::-1]]), rng, light=True)

    print(f"{NCHECK} checks, {NFAIL} failures")
    return 1 if NFAIL else 0


if __name__ == "__main__":
    sys.exit(main())
