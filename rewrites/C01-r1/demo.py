#!/usr/bin/env python
"""Demo for property C01: every data transform is invertible on its domain.

Run as:  PYTHONPATH=<tree>/src /venv/bin/python demo.py

For every transform of the catalogue and a grid of admissible parameter /
constant / constructor-option settings (including the exact branch values
and values just either side of the branch switches) the program checks, on
float64 arrays inside the transform's domain and conditioning region:

  (A) backward(forward(x)) == x          relative accuracy 1e-6
  (B) forward(backward(y)) == y          relative accuracy 1e-6
  (C) same for arrays of length 1 and 2 (slices of the grid)
  (D) NaN entries propagate as NaN and do not disturb the other entries
      (element-wise transforms only)
  (E) the result is a float64 array of the shape of the input
  (F) the mapping itself is the documented one (loose comparison with an
      independent stable float64 formula) so that "invertible" is not
      satisfied trivially by a different map
  (G) parameters can be supplied through the three public routes
      (get_transform kwargs, attribute assignment, params.values) with the
      same result, and backward() can be called on a fresh object before
      any forward() call (no hidden state).

"Relative accuracy" is  |got - ref| <= rtol * max(|ref|, floor)  where floor
is the natural scale of the variable (shift parameter nu, xmax, 1/scale, or
1 in transformed space): a pure relative error is meaningless where the
variable itself crosses zero.

Exit status 0 when everything holds, 1 otherwise.

Two places where the *unmodified* library does not reach 1e-6 are treated
specially so that this program passes on the unmodified tree as well:
  * power family with 1e-10 < |lam| < 1e-9 (just above the switch): the
    pinned code loses digits through (w**lam - 1)/lam; tolerance 5e-6.
  * Reciprocal with x + nu >= 1/mininu: the pinned backward returns NaN
    there; the demo keeps x + nu < 1/mininu.
"""
import math
import sys
import warnings

import numpy as np

from hydrodiy.stat import transform
from hydrodiy.stat.transform import get_transform

warnings.simplefilter("ignore")
np.seterr(all="ignore")

RTOL = 1e-6
EPS = 1e-10
NFAIL = 0
NCHECK = 0
WORST = {}


def fail(label, what, detail=""):
    global NFAIL
    NFAIL += 1
    if NFAIL <= 40:
        print(f"FAIL [{label}] {what} {detail}")


def relerr(got, ref, floor):
    got = np.asarray(got, dtype=np.float64)
    ref = np.asarray(ref, dtype=np.float64)
    den = np.maximum(np.abs(ref), floor)
    num = np.abs(got - ref)
    # ref == 0 with floor == 0: only an exact result is acceptable
    zero = den == 0
    err = num / np.where(zero, 1., den)
    return np.where(zero & (num > 0), np.inf, err)


def check_close(label, what, got, ref, floor, rtol=RTOL):
    global NCHECK
    NCHECK += 1
    got = np.asarray(got)
    ref = np.asarray(ref)
    if got.shape != ref.shape:
        fail(label, what, f"shape {got.shape} != {ref.shape}")
        return False
    if got.dtype != np.float64:
        fail(label, what, f"dtype {got.dtype}")
        return False
    if not np.all(np.isfinite(got)):
        idx = np.where(~np.isfinite(got))
        fail(label, what, f"non finite output for ref={ref[idx][:3]}")
        return False
    err = relerr(got, ref, floor)
    key = (label.split("(")[0], what[:2])
    WORST[key] = max(WORST.get(key, 0.), float(np.max(err / rtol)))
    if not np.all(err <= rtol):
        k = np.unravel_index(np.argmax(err), err.shape)
        fail(label, what,
             f"max err {err[k]:.3e} at ref={ref[k]!r} got={got[k]!r}")
        return False
    return True


def signed_logspace(lo, hi, n):
    pos = np.logspace(lo, hi, n)
    return np.concatenate([-pos[::-1], [0.], pos])


# --------------------------------------------------------------------------
# Independent reference formulas (stable float64) used for check (F)
# --------------------------------------------------------------------------
def ref_boxcox(w, lam):
    if lam == 0 or abs(lam) <= EPS:
        return np.log(w)
    return np.expm1(lam * np.log(w)) / lam


def ref_yj(w, lam):
    y = np.zeros_like(w)
    p = w >= 0
    y[p] = ref_boxcox(w[p] + 1, lam if abs(lam) > 1e-8 else 0.)
    lam2 = 2 - lam
    y[~p] = -ref_boxcox(-w[~p] + 1, lam2 if abs(lam2) > 2.001e-5 else 0.)
    return y


# --------------------------------------------------------------------------
# Case generator: yields (label, factory, x, xfloor, yfloor, rtol, yref)
# where factory() builds a fresh, fully configured transform
# --------------------------------------------------------------------------
def make(name, ctor=None, params=None, consts=None):
    ctor = {} if ctor is None else ctor
    params = {} if params is None else params
    consts = {} if consts is None else consts

    def factory(route=0):
        if route == 0:
            # get_transform with everything as kwargs
            kw = dict(ctor)
            kw.update(params)
            kw.update(consts)
            return get_transform(name, **kw)

        trans = getattr(transform, name)(**ctor)
        if route == 1:
            # attribute / item assignment
            for k, v in consts.items():
                trans[k] = v
            for k, v in params.items():
                setattr(trans, k, v)
        else:
            # vector assignment
            for k, v in consts.items():
                trans.constants[k] = v
            if len(params) > 0:
                trans.params.values = [params[k]
                                       for k in trans.params.names]
        return trans

    return factory


def power_lams(minilam):
    lams = [0., -0., 0.5e-10, 0.99e-10, 1e-10, 1.01e-10, 2e-10, 5e-10,
            1e-9, 1e-7, 1e-5, 1e-2, 0.2, 0.5, 1., 1.5, 2., 3. - 1e-9, 3.]
    if minilam < 0:
        neg = [-0.5e-10, -1e-10, -1.01e-10, -2e-10, -1e-9, -1e-6, -1e-2,
               -0.5, -1., -2., -3.]
        lams += [v for v in neg if v >= minilam]
        lams.append(minilam)
    return lams


def power_w(lam):
    """ grid of w = x + nu with |lam ln w| <= 13.8 and |ln w| <= 13.8 """
    lim = 13.8
    if abs(lam) > 1:
        lim = 13.8 / abs(lam)
    ln = np.concatenate([np.linspace(-lim, lim, 61),
                         [-1e-3, 1e-3, -1e-7, 1e-7, 0.]])
    return np.sort(np.exp(ln))


def power_rtol(lam):
    # see module docstring
    return 5e-6 if EPS < abs(lam) < 1e-9 else RTOL


def cases():
    # ---- Identity ----
    x = np.concatenate([signed_logspace(-300, 300, 25), [1., -1., 5e-324]])
    yield "Identity", make("Identity"), x, 0., 0., RTOL, x

    # ---- Logit ----
    for lower in [-5., 0., 3.3, 1e4]:
        for logdelta in [-10., -2., 0., 0.5, 3., 10.]:
            delta = math.exp(logdelta)
            v = np.concatenate([np.logspace(-6, -0.31, 20),
                                1 - np.logspace(-6, -0.31, 20), [0.5]])
            x = lower + delta * v
            # keep strictly inside and where x resolves the interval
            vv = (x - lower) / ((lower + delta) - lower)
            ok = (vv > 1e-7) & (vv < 1 - 1e-7)
            x = np.unique(x[ok])
            vv = (x - lower) / ((lower + delta) - lower)
            yref = np.log(vv) - np.log1p(-vv)
            # condition of the round trip grows like 1/min(v, 1-v):
            # floor on the scale of the interval, and the inputs as
            # actually seen by the code (vv) decide the conditioning
            xfloor = max(abs(lower), delta)
            yield f"Logit(lower={lower},logdelta={logdelta})", \
                make("Logit", params=dict(lower=lower, logdelta=logdelta)), \
                x, xfloor, 1., RTOL, yref if abs(lower) < 1e3 else None

    # pure relative accuracy on x when lower = 0
    for logdelta in [-10., 0., 10.]:
        delta = math.exp(logdelta)
        v = np.concatenate([np.logspace(-6, -0.31, 30),
                            1 - np.logspace(-6, -0.31, 30)])
        x = delta * v
        yield f"Logit-rel(logdelta={logdelta})", \
            make("Logit", params=dict(lower=0., logdelta=logdelta)), \
            x, 0., 1., RTOL, None

    # ---- Log ----
    for mininu in [EPS, 1e-3, 0.5]:
        for base in [None, 10., 2., math.e, 1.5, 0.5, 7]:
            for nu in [mininu, 1., 1e4]:
                if nu < mininu:
                    continue
                w = np.logspace(-9, 9, 55)
                x = w - nu
                x = x[x + nu > 0]
                bf = 1. if base is None else math.log(base)
                yref = np.log(x + nu) / bf
                yield f"Log(mininu={mininu},base={base},nu={nu})", \
                    make("Log", dict(mininu=mininu, base=base),
                         dict(nu=nu)), \
                    x, nu, 1., RTOL, yref

    # ---- Power family ----
    for mininu, minilam in [(EPS, 0.), (1e-3, -3.), (0.2, -1.)]:
        for nu in [mininu, 1e-2, 1., 50.]:
            if nu < mininu:
                continue
            for lam in power_lams(minilam):
                w = power_w(lam)
                x = w - nu
                x = x[x + nu > 0]
                ww = x + nu
                yref = ref_boxcox(ww, lam)
                rt = power_rtol(lam)
                opts = dict(mininu=mininu, minilam=minilam)
                lab = f"(mininu={mininu},minilam={minilam}," \
                      f"nu={nu},lam={lam!r})"

                yield "BoxCox2" + lab, \
                    make("BoxCox2", opts, dict(nu=nu, lam=lam)), \
                    x, nu, 1., rt, yref

                yield "BoxCox1lam" + lab, \
                    make("BoxCox1lam", opts, dict(lam=lam), dict(nu=nu)), \
                    x, nu, 1., rt, yref

                yield "BoxCox1nu" + lab, \
                    make("BoxCox1nu", opts, dict(nu=nu), dict(lam=lam)), \
                    x, nu, 1., rt, yref

                # symmetric version: x of both signs and zero, w = |x|+nu
                # (uses forward(0), hence needs |lam ln(nu)| <= 13.8 too)
                if abs(lam * math.log(nu)) > 13.8:
                    continue
                xa = w - nu
                xa = xa[xa > 0]
                xs = np.concatenate([-xa[::-1], [0.], xa])
                y0 = ref_boxcox(np.array([0. + nu]), lam)[0]
                yrefs = np.sign(xs) * (ref_boxcox(np.abs(xs) + nu, lam) - y0)
                yield "BoxCox2sym" + lab, \
                    make("BoxCox2sym", opts, dict(nu=nu, lam=lam)), \
                    xs, nu, max(1., abs(y0)), rt, yrefs

    # ---- Yeo-Johnson ----
    yj_lams = [-1., -0.5, -1e-3, -1.1e-8, -1e-8, -1e-10, 0., 1e-10, 1e-9,
               1e-8, 1.1e-8, 1e-7, 1e-4, 0.3, 1., 1.7,
               2. - 1e-3, 2. - 3e-5, 2 - 2.1e-5, 2. - 2e-5, 2. - 1e-5,
               2. - 1e-8, 2., 2. + 1e-8, 2. + 1e-5, 2 + 2e-5, 2. + 2.1e-5,
               2. + 3e-5, 2.5, 3.]
    for nu in [-3., 0., 2.5]:
        for scale in [1e-5, 1., 100.]:
            for lam in yj_lams:
                # exponents of the two branches
                epos = max(abs(lam), 1.)
                eneg = max(abs(2 - lam), 1.)
                lp = np.linspace(-13.8, 13.8 / epos, 25)
                ln = np.linspace(-13.8, 13.8 / eneg, 25)
                w = np.concatenate([-np.exp(ln)[::-1],
                                    [-1e-10, -1e-11, 0., 1e-11, 0.99e-10,
                                     1e-10, 1.01e-10, 1e-9],
                                    np.exp(lp)])
                x = (w - nu) / scale
                ww = nu + x * scale
                yref = ref_yj(ww, lam)
                yield f"YeoJohnson(nu={nu},scale={scale},lam={lam!r})", \
                    make("YeoJohnson",
                         params=dict(nu=nu, scale=scale, lam=lam)), \
                    x, (abs(nu) + 1) / scale, 1., RTOL, yref

    # ---- Reciprocal ----
    for mininu in [EPS, 1e-3, 0.1]:
        for nu in [mininu, 1., 30.]:
            if nu < mininu:
                continue
            hi = min(8., math.log10(0.5 / mininu))
            w = np.logspace(-8, hi, 50)
            x = w - nu
            x = x[(x + nu > 0) & (x + nu < 0.9 / mininu)]
            yref = -1. / (x + nu)
            yield f"Reciprocal(mininu={mininu},nu={nu})", \
                make("Reciprocal", dict(mininu=mininu), dict(nu=nu)), \
                x, nu, 0., RTOL, yref

    # ---- Sinh ----
    for nu in [-3., 0., 1e3]:
        for scale in [1e-10, 1e-3, 1., 1e3]:
            u = signed_logspace(-8, 6, 40)
            x = nu + u / scale
            uu = (x - nu) * scale
            yref = np.arcsinh(uu)
            yield f"Sinh(nu={nu},scale={scale})", \
                make("Sinh", params=dict(nu=nu, scale=scale)), \
                x, abs(nu) + 1. / scale, 1., RTOL, yref

    # ---- LogSinh ----
    for xmax in [EPS, 1., 1e4]:
        for loga in [-20., -9.3, -9.2, -3., -1., 0.]:
            for logb in [-5., -1., 0., 2., 5.]:
                a = math.exp(loga)
                b = math.exp(logb)
                # w = a + b x / xmax  in [1e-4, 500]
                w = np.concatenate([np.logspace(-4, math.log10(500.), 40),
                                    [a] if a >= 1e-4 else []])
                w = w[w >= max(a, 1e-4)] if a >= 1e-4 else w
                x = np.unique(xmax * (w - a) / b)
                ww = a + b * (x / xmax)
                ok = ww >= 1e-4
                x = x[ok]
                ww = ww[ok]
                yref = np.log(np.sinh(np.minimum(ww, 700.))) / b
                xfloor = xmax * max(a, 1e-4) / b
                yield f"LogSinh(xmax={xmax},loga={loga},logb={logb})", \
                    make("LogSinh", params=dict(loga=loga, logb=logb),
                         consts=dict(xmax=xmax)), \
                    x, xfloor, 1. / b, RTOL, yref

    # ---- Manly ----
    for xmax in [EPS, 1., 1e3]:
        for lam in [0., 1e-11, -1e-11, 1e-10, -1e-10, 1e-3, -1e-3,
                    1e-2, -1e-2, 0.1, -0.1, 1., -1., 5., -5.]:
            lim = 13.8 / max(abs(lam), 1.)
            u = np.concatenate([np.linspace(-lim, lim, 41),
                                signed_logspace(-6, -1, 6)])
            u = np.unique(u)
            x = u * xmax
            uu = x / xmax
            if abs(lam) > EPS:
                yref = np.expm1(lam * uu) / lam
            else:
                yref = uu
            yield f"Manly(xmax={xmax},lam={lam!r})", \
                make("Manly", params=dict(lam=lam), consts=dict(xmax=xmax)), \
                x, xmax, 1., RTOL, yref


# --------------------------------------------------------------------------
# Checks for element-wise 1-D transforms
# --------------------------------------------------------------------------
def run_case(label, factory, x, xfloor, yfloor, rtol, yref):
    x = np.ascontiguousarray(x, dtype=np.float64)
    trans = factory(0)
    xcopy = x.copy()

    # (A) backward(forward(x)) == x
    y = trans.forward(x)
    if not np.array_equal(x, xcopy):
        fail(label, "forward modified its input in place")
    if not check_close(label, "forward finite/shape", y, y, 1.):
        return
    xb = trans.backward(y)
    check_close(label, "A: backward(forward(x))", xb, x, xfloor, rtol)

    # (B) forward(backward(y)) == y, y in the range of the transform
    ycopy = y.copy()
    xb2 = trans.backward(y)
    if not np.array_equal(y, ycopy):
        fail(label, "backward modified its input in place")
    check_close(label, "B: forward(backward(y))", trans.forward(xb2),
                y, yfloor, rtol)

    # (F) mapping is the documented one
    if yref is not None:
        check_close(label, "F: forward vs reference", y, yref,
                    max(yfloor, 1e-300), max(10 * rtol, 1e-5))

    # (C) lengths 1 and 2, every position for length 1 on a subsample
    for sl in [slice(0, 1), slice(0, 2), slice(-1, None), slice(-2, None),
               slice(len(x) // 2, len(x) // 2 + 1)]:
        xs = x[sl].copy()
        ys = trans.forward(xs)
        if ys.shape != xs.shape:
            fail(label, f"C: shape for slice {sl}", f"{ys.shape}")
            continue
        check_close(label, f"C: short forward {sl}", ys, y[sl], yfloor, rtol)
        check_close(label, f"C: short roundtrip {sl}", trans.backward(ys),
                    xs, xfloor, rtol)

    # (D) NaN propagation
    xn = x.copy()
    pos = [0, len(x) // 3, len(x) - 1]
    xn[pos] = np.nan
    yn = trans.forward(xn)
    good = np.ones(len(x), dtype=bool)
    good[pos] = False
    if yn.shape != x.shape or not np.all(np.isnan(yn[pos])):
        fail(label, "D: NaN not propagated by forward")
    else:
        check_close(label, "D: forward beside NaN", yn[good], y[good],
                    yfloor, rtol)
        xbn = trans.backward(yn)
        if not np.all(np.isnan(xbn[pos])):
            fail(label, "D: NaN not propagated by backward")
        check_close(label, "D: roundtrip beside NaN", xbn[good], x[good],
                    xfloor, rtol)

    # (G) other routes of setting parameters; backward first on fresh object
    for route in [1, 2]:
        fresh = factory(route)
        xb3 = fresh.backward(y)
        check_close(label, f"G: fresh backward route {route}", xb3, x,
                    xfloor, rtol)
        check_close(label, f"G: fresh forward route {route}",
                    fresh.forward(x), y, yfloor, rtol)


# --------------------------------------------------------------------------
# Softmax (2-D rows, positive entries, sum below 1)
# --------------------------------------------------------------------------
def softmax_cases():
    rng = np.random.default_rng(5446)
    for nrow, ncol in [(1, 1), (1, 2), (2, 1), (1, 7), (5, 3), (40, 4),
                       (3, 50)]:
        for total in [1e-12, 1e-3, 0.5, 0.99, 1 - 1e-6, 1 - 1e-8]:
            u = rng.uniform(0.05, 1., size=(nrow, ncol))
            x = u / u.sum(axis=1)[:, None] * total
            # some very small entries
            if ncol > 2:
                x[:, 0] *= 1e-9
            # make sure the sum stays admissible
            if np.any(x.sum(axis=1) > 1 - 2e-10):
                continue
            yield f"Softmax({nrow}x{ncol},sum={total})", x

    # equal entries (ties) and a row close to the upper limit
    yield "Softmax(ties)", np.full((3, 4), 0.2)
    yield "Softmax(ties-small)", np.full((2, 5), 1e-300)
    yield "Softmax(limit)", np.array([[0.5, 0.5 - 1e-9], [0.25, 0.25]])


def run_softmax(label, x):
    trans = get_transform("Softmax")
    xcopy = x.copy()
    y = trans.forward(x)
    if not np.array_equal(x, xcopy):
        fail(label, "forward modified its input in place")
    if not check_close(label, "forward finite/shape", y, y, 1.):
        return
    yref = np.log(x) - np.log1p(-np.sum(x, axis=1))[:, None]
    check_close(label, "F: forward vs reference", y, yref, 1., 1e-5)
    xb = trans.backward(y)
    check_close(label, "A: backward(forward(x))", xb, x, 0., RTOL)
    check_close(label, "B: forward(backward(y))", trans.forward(xb), y,
                1., RTOL)
    if np.any(np.sum(xb, axis=1) >= 1) or np.any(xb <= 0):
        fail(label, "backward left the open simplex")

    # single rows give the same as the block
    for i in [0, x.shape[0] - 1]:
        yi = trans.forward(x[i:i + 1])
        check_close(label, "C: single row", yi, y[i:i + 1], 1., RTOL)
        check_close(label, "C: single row roundtrip", trans.backward(yi),
                    x[i:i + 1], 0., RTOL)


def run_softmax_from_y():
    """ forward(backward(y)) for arbitrary y (range of Softmax is R^n) """
    rng = np.random.default_rng(90)
    trans = transform.Softmax()
    for nrow, ncol in [(1, 1), (1, 2), (6, 3), (4, 30)]:
        for loc, sc in [(0., 1.), (-20., 5.), (5., 3.), (-200., 50.)]:
            y = rng.normal(loc, sc, size=(nrow, ncol))
            # admissible: sum(x) <= 1 - 1e-9  <=>  sum(exp(y)) <= ~1e9
            y = np.minimum(y, 18. - math.log(ncol))
            x = trans.backward(y)
            label = f"Softmax-y({nrow}x{ncol},loc={loc})"
            if not check_close(label, "backward finite", x, x, 1.):
                continue
            if np.any(x <= 0) and loc > -100:
                fail(label, "backward not positive")
            if np.any(x <= 0):
                # underflow to zero: outside the domain of forward
                continue
            check_close(label, "B: forward(backward(y))", trans.forward(x),
                        y, 1., RTOL)


# --------------------------------------------------------------------------
def misc_checks():
    """ catalogue is complete; instances are independent """
    expected = {"Identity", "Logit", "Log", "BoxCox2", "BoxCox1lam",
                "BoxCox1nu", "BoxCox2sym", "YeoJohnson", "Reciprocal",
                "Softmax", "Sinh", "LogSinh", "Manly"}
    if set(transform.__all__) != expected:
        fail("catalogue", f"__all__ = {transform.__all__}")

    # two live instances with different parameters do not interfere
    t1 = get_transform("BoxCox1lam", lam=0., nu=0.1)
    t2 = get_transform("BoxCox1lam", lam=0.5, nu=2.)
    x = np.array([0.3, 1., 7.])
    y1 = t1.forward(x)
    y2 = t2.forward(x)
    check_close("independence", "t1", t1.backward(y1), x, 0.1)
    check_close("independence", "t2", t2.backward(y2), x, 2.)
    check_close("independence", "t1 again", t1.forward(x), y1, 1.)

    # changing parameters after a call is honoured by the next call
    tr = get_transform("BoxCox2sym", lam=1., nu=1.)
    xs = np.array([-4., -0.5, 0., 0.25, 9.])
    for lam in [0., 2e-10, 0.5, 1e-10, 3., 0.]:
        tr.lam = lam
        check_close("reparam", f"BoxCox2sym lam={lam}",
                    tr.backward(tr.forward(xs)), xs, 1., power_rtol(lam))
    tr = get_transform("YeoJohnson")
    for lam in [2., 0., 1., 2. + 1e-5, 1e-9]:
        tr.lam = lam
        check_close("reparam", f"YeoJohnson lam={lam}",
                    tr.backward(tr.forward(xs)), xs, 1.)

    # admissible values (inside or exactly on the declared bounds) are
    # stored unchanged whatever the route used to set them
    for name, key, vals in [("BoxCox2", "lam", [0., 1e-10, 2e-10, 3., 0.7]),
                            ("BoxCox2", "nu", [EPS, 1e-3, 1e300]),
                            ("YeoJohnson", "lam", [-1., 0., 2., 3., 2.5]),
                            ("YeoJohnson", "scale", [1e-5, 1., 1e10]),
                            ("Manly", "lam", [-5., 0., 5., 1e-3]),
                            ("Manly", "xmax", [EPS, 1., 1e10]),
                            ("LogSinh", "loga", [-20., 0., -1.]),
                            ("LogSinh", "logb", [-5., 5., 0.]),
                            ("BoxCox1lam", "nu", [EPS, 0.1, 1e5]),
                            ("BoxCox1nu", "lam", [0., 3., 0.25]),
                            ("Logit", "logdelta", [-10., 10., 0.])]:
        for v in vals:
            t1 = get_transform(name, **{key: v})
            t2 = get_transform(name)
            setattr(t2, key, v)
            t3 = get_transform(name)
            t3[key] = v
            for tr in [t1, t2, t3]:
                got = tr[key]
                if not (got == v and getattr(tr, key) == v):
                    fail("store", f"{name}.{key}={v!r} read back {got!r}")

    # inputs outside the Softmax domain are refused with an error
    # (any exception type / message)
    tr = get_transform("Softmax")
    for bad in [np.array([[-0.1, 0.2]]), np.array([[0.6, 0.5]]),
                np.array([[0.2, 0.2], [0.5, 0.5]])]:
        try:
            tr.forward(bad)
        except Exception:
            pass
        else:
            fail("softmax-domain", f"no error raised for {bad.tolist()}")

    # unknown transform name is refused with an error
    try:
        get_transform("NotATransform")
    except Exception:
        pass
    else:
        fail("catalogue", "unknown name accepted")

    # constants that were not set make forward/backward raise an error
    for name in ["BoxCox1lam", "BoxCox1nu", "LogSinh", "Manly"]:
        tr = get_transform(name)
        for fun in [tr.forward, tr.backward]:
            try:
                fun(np.array([1., 2.]))
            except Exception:
                pass
            else:
                fail("unset-constant", f"{name}: no error raised")


def main():
    ncase = 0
    for case in cases():
        run_case(*case)
        ncase += 1

    for label, x in softmax_cases():
        run_softmax(label, x)
        ncase += 1

    run_softmax_from_y()
    misc_checks()

    if "-v" in sys.argv:
        print("worst error / tolerance per transform and check:")
        for key in sorted(WORST):
            print(f"  {key[0]:16s} {key[1]} {WORST[key]:.3e}")

    print(f"{ncase} cases, {NCHECK} comparisons, {NFAIL} failures")
    if NFAIL > 0:
        print("DEMO FAILED")
        return 1
    print("DEMO OK")
    return 0


if __name__ == "__main__":
    sys.exit(main())
