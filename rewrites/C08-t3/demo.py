"""Property C08 demo: temporal aggregation / disaggregation reduce by group
and conserve totals.

Run as:  PYTHONPATH=<tree>/src /venv/bin/python demo.py
Exits 0 when every check passes, 1 otherwise.  All inputs stay inside the
quantifier of the property (non-decreasing int32 index, float64 inputs of the
same length >= 1, NaN anywhere, operators 0..3, maxnan >= 0; complete
month-start series of >= 2 months with non-negative values), plus the
"decreasing index is rejected" clause.
"""
import sys
import math
import itertools

import numpy as np
import pandas as pd

from hydrodiy.data import dutils

NAN = float("nan")
I32MIN = -2**31
I32MAX = 2**31 - 1
FAILURES = []
NCHECKS = [0]


def check(cond, msg):
    NCHECKS[0] += 1
    if not cond:
        FAILURES.append(msg)
        if len(FAILURES) <= 25:
            print("FAIL:", msg)


def close(a, b, scale):
    """ a == b up to a few roundings of numbers of magnitude `scale` """
    if math.isnan(a) or math.isnan(b):
        return math.isnan(a) and math.isnan(b)
    if math.isinf(a) or math.isinf(b):
        return a == b
    return abs(a - b) <= 1e-11 * scale + 1e-300


def groups(index):
    """ [(start, stop)] of the runs of equal index values """
    out = []
    pos = 0
    for _, g in itertools.groupby([int(i) for i in index]):
        n = len(list(g))
        out.append((pos, pos + n))
        pos += n
    return out


# ---------------------------------------------------------------------------
# aggregate
# ---------------------------------------------------------------------------
def check_aggregate(index, inputs, label, index_as=np.asarray):
    index = list(index)
    x = np.array(inputs, dtype=np.float64)
    grp = groups(index)
    sizes = [b - a for a, b in grp]
    maxnans = sorted(set([0, 1, 2, max(sizes) - 1, max(sizes),
                          max(sizes) + 3, len(index) + 10]) - {-1})
    for op in range(4):
        for maxnan in maxnans:
            tag = f"{label} op={op} maxnan={maxnan}"
            xin = x.copy()
            out = dutils.aggregate(index_as(index), xin, op, maxnan)
            check(np.array_equal(xin, x, equal_nan=True),
                  tag + ": inputs were modified")
            out = np.asarray(out)
            check(out.ndim == 1 and len(out) == len(grp),
                  tag + f": expected {len(grp)} values, got shape "
                  + f"{out.shape}")
            if out.ndim != 1 or len(out) != len(grp):
                continue
            check(out.dtype == np.float64, tag + ": dtype is not float64")

            allkept = True
            for k, (a, b) in enumerate(grp):
                vals = [float(v) for v in x[a:b]]
                valid = [v for v in vals if not math.isnan(v)]
                nmiss = len(vals) - len(valid)
                got = float(out[k])
                if nmiss > maxnan:
                    allkept = False
                    check(math.isnan(got),
                          tag + f" group {k}: {nmiss} missing > maxnan "
                          + f"but got {got}")
                    continue
                if not valid:
                    # only the sum of an empty group is constrained
                    if op == 0:
                        check(got == 0.0, tag + f" group {k}: empty sum "
                              + f"should be 0, got {got}")
                    continue
                scale = math.fsum(abs(v) for v in valid)
                if op == 0:
                    exp = math.fsum(valid)
                elif op == 1:
                    exp = math.fsum(valid) / len(valid)
                elif op == 2:
                    exp = max(valid)
                else:
                    exp = valid[-1]
                if op >= 2:
                    check(got == exp, tag + f" group {k}: expected {exp}"
                          + f" got {got}")
                else:
                    check(close(got, exp, scale),
                          tag + f" group {k}: expected {exp} got {got}")

            # conservation of the total by the sum operator
            if op == 0 and allkept:
                valid = [float(v) for v in x if not math.isnan(v)]
                if not any(math.isinf(v) for v in valid):
                    tot = math.fsum(valid)
                    scale = math.fsum(abs(v) for v in valid)
                    check(close(math.fsum(float(v) for v in out), tot,
                                scale),
                          tag + ": total not conserved")


# ---------------------------------------------------------------------------
# flathomogen
# ---------------------------------------------------------------------------
def check_flathomogen(index, inputs, label, index_as=np.asarray):
    index = list(index)
    x = np.array(inputs, dtype=np.float64)
    grp = groups(index)
    sizes = [b - a for a, b in grp]
    maxnans = sorted(set([0, 1, max(sizes) - 1, max(sizes),
                          len(index) + 10]) - {-1})
    for maxnan in maxnans:
        tag = f"{label} flathomogen maxnan={maxnan}"
        xin = x.copy()
        out = np.asarray(dutils.flathomogen(index_as(index), xin, maxnan))
        check(np.array_equal(xin, x, equal_nan=True),
              tag + ": inputs were modified")
        check(out.shape == x.shape, tag + f": shape {out.shape}")
        if out.shape != x.shape:
            continue
        for k, (a, b) in enumerate(grp):
            vals = [float(v) for v in x[a:b]]
            valid = [v for v in vals if not math.isnan(v)]
            nmiss = len(vals) - len(valid)
            got = [float(v) for v in out[a:b]]
            # missing stays missing, always
            for v, g in zip(vals, got):
                if math.isnan(v):
                    check(math.isnan(g), tag + f" group {k}: missing "
                          + "entry was filled")
            if nmiss > maxnan:
                check(all(math.isnan(g) for g in got),
                      tag + f" group {k}: too many missing values but "
                      + "finite output")
                continue
            if not valid:
                continue
            scale = math.fsum(abs(v) for v in valid)
            mean = math.fsum(valid) / len(valid)
            gvalid = [g for v, g in zip(vals, got) if not math.isnan(v)]
            for g in gvalid:
                check(close(g, mean, scale),
                      tag + f" group {k}: expected mean {mean} got {g}")
            check(len(set(gvalid)) == 1 or any(math.isnan(g)
                                               for g in gvalid),
                  tag + f" group {k}: not flat")
            if not any(math.isinf(v) for v in valid):
                check(close(math.fsum(gvalid), math.fsum(valid), scale),
                      tag + f" group {k}: total not preserved")


# ---------------------------------------------------------------------------
# rejected calls
# ---------------------------------------------------------------------------
def check_rejected(index, label, index_as=np.asarray):
    n = len(index)
    for x in [np.arange(1, n + 1, dtype=np.float64),
              np.full(n, NAN), np.zeros(n)]:
        for op, maxnan in [(0, 0), (1, n), (2, 0), (3, 1)]:
            try:
                out = dutils.aggregate(index_as(list(index)), x.copy(),
                                       op, maxnan)
            except Exception:
                check(True, "")
            else:
                check(False, f"{label}: decreasing index accepted by "
                      + f"aggregate op={op}, returned {out}")
        for maxnan in [0, n]:
            try:
                out = dutils.flathomogen(index_as(list(index)), x.copy(),
                                         maxnan)
            except Exception:
                check(True, "")
            else:
                check(False, f"{label}: decreasing index accepted by "
                      + f"flathomogen, returned {out}")


# ---------------------------------------------------------------------------
# monthly2daily
# ---------------------------------------------------------------------------
def check_monthly2daily(start, values, label):
    values = np.array(values, dtype=np.float64)
    nmonths = len(values)
    months = pd.date_range(start, periods=nmonths, freq="MS")
    se = pd.Series(values, index=months)
    lastday = months[-1] + pd.offsets.MonthEnd(0)
    expdays = pd.date_range(months[0], lastday, freq="D")
    ymexp = np.array([m.year * 100 + m.month for m in months])
    for interp in ["flat", "cubic"]:
        tag = f"{label} {interp}"
        secopy = se.copy()
        sed = dutils.monthly2daily(secopy, interp)
        check(secopy.equals(se), tag + ": input series modified")
        check(isinstance(sed, pd.Series), tag + ": not a Series")
        check(len(sed) == len(expdays), tag + f": expected {len(expdays)}"
              + f" days, got {len(sed)}")
        if len(sed) != len(expdays):
            continue
        check(bool((pd.DatetimeIndex(sed.index) == expdays).all()),
              tag + ": wrong calendar days")
        daily = np.asarray(sed.values, dtype=np.float64)
        ym = np.asarray(expdays.year * 100 + expdays.month)
        scale_all = float(np.abs(values).max())
        for k in range(nmonths):
            kk = ym == ymexp[k]
            tot = math.fsum(float(v) for v in daily[kk])
            if interp == "flat":
                scale = abs(values[k])
            else:
                # the cubic profile of a month depends on its neighbours
                scale = 10 * scale_all
            check(abs(tot - values[k]) <= 1e-9 * scale + 1e-300,
                  tag + f" month {ymexp[k]}: sum {tot} != {values[k]}")
            if interp == "flat":
                exp = values[k] / kk.sum()
                check(bool(np.all(np.abs(daily[kk] - exp)
                                  <= 1e-12 * abs(exp))),
                      tag + f" month {ymexp[k]}: not flat")


# ---------------------------------------------------------------------------
# test data
# ---------------------------------------------------------------------------
def index_patterns(rng, n):
    """ non-decreasing index vectors of length n """
    pats = []
    pats.append(("const", [7] * n))
    pats.append(("const-neg", [-3] * n))
    pats.append(("const-min", [I32MIN] * n))
    pats.append(("const-max", [I32MAX] * n))
    pats.append(("strict", list(range(-2, n - 2))))
    pats.append(("strict-top", list(range(I32MAX - n + 1, I32MAX + 1))))
    pats.append(("strict-bottom", list(range(I32MIN, I32MIN + n))))
    if n >= 2:
        h = n // 2
        pats.append(("min-max", [I32MIN] * h + [I32MAX] * (n - h)))
        pats.append(("neg-pos", [-2000000000] * h + [2000000000] * (n - h)))
        pats.append(("last-alone", [199501] * (n - 1) + [199502]))
        pats.append(("first-alone", [199501] + [199512] * (n - 1)))
    for j in range(3):
        steps = rng.integers(0, 2 + j, size=n)
        steps[0] = 0
        base = int(rng.integers(-1000, 1000))
        pats.append((f"runs{j}", [base + int(v) for v in np.cumsum(steps)]))
    big = np.sort(rng.integers(I32MIN, I32MAX, size=n, endpoint=True))
    pats.append(("bigsorted", [int(v) for v in big]))
    return pats


def input_patterns(rng, n, index):
    pats = []
    pats.append(("normal", rng.normal(size=n) * 10))
    pats.append(("zeros", np.zeros(n)))
    pats.append(("negzeros", -np.zeros(n)))
    pats.append(("negative", -rng.uniform(1, 2, size=n)))
    pats.append(("allnan", np.full(n, NAN)))
    pats.append(("ties", np.round(rng.normal(size=n))))
    pats.append(("huge", rng.normal(size=n) * 1e300 / max(n, 1)))
    pats.append(("tiny", rng.normal(size=n) * 1e-310))
    pats.append(("mixedscale", rng.normal(size=n)
                 * 10.**rng.integers(-12, 12, size=n)))
    x = rng.normal(size=n)
    x[0] = NAN
    pats.append(("nan-lead", x))
    x = rng.normal(size=n)
    x[-1] = NAN
    pats.append(("nan-trail", x))
    x = rng.normal(size=n) - 5
    x[rng.uniform(size=n) < 0.4] = NAN
    pats.append(("nan-scattered-neg", x))
    # whole groups missing (first, last, every second group)
    grp = groups(index)
    x = rng.normal(size=n)
    a, b = grp[0]
    x[a:b] = NAN
    pats.append(("nan-firstgroup", x))
    x = rng.normal(size=n)
    a, b = grp[-1]
    x[a:b] = NAN
    pats.append(("nan-lastgroup", x))
    x = rng.normal(size=n)
    for a, b in grp[::2]:
        x[a:b] = NAN
    pats.append(("nan-altgroups", x))
    # all but the first / the last value of each group missing
    x = rng.normal(size=n)
    for a, b in grp:
        x[a + 1:b] = NAN
    pats.append(("nan-butfirst", x))
    x = rng.normal(size=n)
    for a, b in grp:
        x[a:b - 1] = NAN
    pats.append(("nan-butlast", x))
    # max first / max last / max = a negative number after a NaN
    x = -np.abs(rng.normal(size=n)) - 1
    for a, b in grp:
        x[a] = NAN if b - a > 1 else x[a]
    pats.append(("neg-after-nan", x))
    x = rng.normal(size=n)
    x[rng.integers(0, n)] = np.inf
    pats.append(("posinf", x))
    x = rng.normal(size=n)
    x[rng.integers(0, n)] = -np.inf
    pats.append(("neginf", x))
    return pats


def main():
    rng = np.random.default_rng(808)

    # --- aggregate / flathomogen over index x inputs -----------------------
    for n in [1, 2, 3, 4, 7, 16, 33, 100]:
        for iname, index in index_patterns(rng, n):
            for xname, x in input_patterns(rng, n, index):
                label = f"n={n} idx={iname} x={xname}"
                check_aggregate(index, x, label)
                check_flathomogen(index, x, label)

    # same call repeated / interleaved with other calls gives the same answer
    # (inputs of the same shape and same index but different contents, same
    # contents but different operator / maxnan, same length other index)
    idx1 = [1, 1, 2, 2, 2, 9]
    idx2 = [1, 2, 2, 2, 9, 9]
    xa = np.array([1., NAN, 3., 4., NAN, -6.])
    xb = np.array([NAN, 2., 2., 8., 1., NAN])
    for _ in range(3):
        for idx in [idx1, idx2]:
            for x in [xa, xb]:
                check_aggregate(idx, x, f"repeat idx={idx}")
                check_flathomogen(idx, x, f"repeat idx={idx}")
                out1 = dutils.aggregate(np.array(idx), x.copy(), 0, 5)
                out1[:] = -777.     # scribbling on a result ...
                out2 = dutils.aggregate(np.array(idx), x.copy(), 0, 5)
                check(not np.any(out2 == -777.),    # ... must not leak
                      "result of a previous call leaked")
                f1 = dutils.flathomogen(np.array(idx), x.copy(), 5)
                f1[:] = -777.
                f2 = dutils.flathomogen(np.array(idx), x.copy(), 5)
                check(not np.any(f2 == -777.),
                      "flathomogen result of a previous call leaked")

    # index given as other integer containers used in the library's tests
    dt = pd.date_range("1999-11-20", "2000-03-05")
    x = rng.uniform(0, 1, len(dt))
    x[[0, 15, 16, 40, len(dt) - 1]] = NAN
    aggidx = dt.year * 100 + dt.month
    for conv, cname in [(lambda v: np.array(v, dtype=np.int32), "int32"),
                        (lambda v: np.array(v, dtype=np.int64), "int64"),
                        (lambda v: pd.Index(v), "pd.Index")]:
        check_aggregate(list(aggidx), x, "calendar " + cname, conv)
        check_flathomogen(list(aggidx), x, "calendar " + cname, conv)

    # a long series
    n = 20000
    index = np.cumsum(rng.uniform(size=n) < 0.03) - 300
    x = rng.normal(size=n)
    x[rng.uniform(size=n) < 0.05] = NAN
    check_aggregate(index, x, "long")
    check_flathomogen(index, x, "long")

    # --- rejected: index decreasing anywhere -------------------------------
    bad = [[2, 1], [0, -1], [I32MAX, I32MIN], [I32MAX, I32MAX - 1],
           [I32MIN + 1, I32MIN], [1, 2, 1], [1, 1, 0], [5, 4, 4], [5, 4, 6],
           [1, 2, 3, 4, 5, 6, 7, 8, 9, 8],
           [3, 2] + [10] * 20,
           [1] * 10 + [0] + [2] * 10,
           list(range(50)) + [48],
           [-5, -5, -6, -6],
           [2000000000, -2000000000, 2000000000],
           [-2000000000, 2000000000, -2000000000]]
    for index in bad:
        check_rejected(index, f"bad index {index[:12]}")
    check_rejected([200002] * 29 + [200001] * 31, "bad calendar",
                   lambda v: pd.Index(v))

    # a rejected call must not disturb the following valid ones
    check_aggregate(idx1, xa, "after rejection")
    check_flathomogen(idx1, xa, "after rejection")

    # --- monthly2daily -----------------------------------------------------
    starts = ["2000-01-01", "2000-02-01", "1999-02-01", "1900-02-01",
              "2023-12-01", "2024-02-01", "2100-01-01", "1996-03-01",
              "1967-11-01", "2019-06-01", "2011-04-01", "2012-05-01",
              "2013-07-01", "2014-08-01", "2015-09-01", "2016-10-01"]
    k = 0
    for start in starts:
        for nmonths in [2, 3, 12, 13, 25]:
            k += 1
            vals = [rng.uniform(0, 100, nmonths),
                    np.zeros(nmonths),
                    np.where(rng.uniform(size=nmonths) < 0.5, 0.,
                             rng.exponential(size=nmonths)),
                    np.full(nmonths, 31.),
                    np.exp(rng.normal(size=nmonths) * 3)][k % 5]
            check_monthly2daily(start, vals, f"m2d {start} n={nmonths}")
            # again, with other values on the same calendar
            check_monthly2daily(start, rng.uniform(0, 5, nmonths),
                                f"m2d-bis {start} n={nmonths}")
    check_monthly2daily("1951-07-01", rng.uniform(0, 300, 420), "m2d long")
    check_monthly2daily("2000-02-01", [29., 31.], "m2d 2 months")
    check_monthly2daily("2001-02-01", [0., 31.], "m2d zero then value")

    print(f"{NCHECKS[0]} checks, {len(FAILURES)} failures")
    return 1 if FAILURES else 0


if __name__ == "__main__":
    sys.exit(main())
