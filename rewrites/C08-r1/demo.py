#!/usr/bin/env python
"""Self-contained check of property C08 (temporal aggregation / disaggregation).

Run as:  PYTHONPATH=<tree>/src /venv/bin/python demo.py
Exits 0 when every check passes, 1 otherwise.

Everything checked here is inside the quantifier of the property:
  * aggregate / flathomogen: non-decreasing int32 index vectors (constant,
    strictly increasing, runs of any length, negative and extreme int32
    values), float64 inputs of the same length >= 1 (negative, zero, ties,
    NaN anywhere, whole groups missing), operators 0..3, maxnan from 0 to
    beyond the group length.  Groups without any non-missing value are only
    checked for the sum operator.
  * an index that decreases anywhere must be rejected with an error
    (any exception type is accepted).
  * monthly2daily (flat and cubic): complete month-start series of 2 to a few
    hundred months, starting in any month, leap years included, non-negative
    values.

Sums and means are compared with an exactly rounded reference (math.fsum)
up to a few ulps of sum(|x|); maxima and last values are compared exactly.
"""
import sys
import math
import itertools
import warnings

import numpy as np
import pandas as pd

from hydrodiy.data import dutils

warnings.filterwarnings("ignore")

I32MIN = -2**31
I32MAX = 2**31 - 1

NFAIL = 0
NCHECK = 0


def fail(msg):
    global NFAIL
    NFAIL += 1
    if NFAIL <= 25:
        print("FAIL:", msg)


def check(cond, msg):
    global NCHECK
    NCHECK += 1
    if not cond:
        fail(msg)


# ---------------------------------------------------------------------------
# Reference model (plain Python, exact summation)
# ---------------------------------------------------------------------------
def groups_of(index):
    """ list of (start, end) of the runs of equal index values """
    out = []
    start = 0
    for i in range(1, len(index)+1):
        if i == len(index) or index[i] != index[start]:
            out.append((start, i))
            start = i
    return out


def close(a, b, scale):
    """ a equals b up to a few ulps of scale """
    if math.isnan(a) or math.isnan(b):
        return math.isnan(a) and math.isnan(b)
    if math.isinf(a) or math.isinf(b):
        return a == b
    return abs(a-b) <= 64*np.finfo(float).eps*scale + 1e-300


def ref_reduce(vals, op, maxnan):
    """ returns (constrained, expected, scale) for one group """
    valid = [v for v in vals if not math.isnan(v)]
    nnan = len(vals)-len(valid)
    if nnan > maxnan:
        return True, math.nan, 0.
    if len(valid) == 0:
        # only the sum is constrained for a group without any valid value
        return (op == 0), 0., 0.
    absum = math.fsum(abs(v) for v in valid)
    if op == 0:
        return True, math.fsum(valid), absum
    if op == 1:
        return True, math.fsum(valid)/len(valid), absum/len(valid)
    if op == 2:
        return True, max(valid), 0.
    return True, valid[-1], 0.


def check_aggregate(index, inputs, op, maxnan, label):
    index = np.asarray(index)
    inputs = np.asarray(inputs, dtype=np.float64)
    inputs_before = inputs.copy()
    index_before = index.copy()
    out = dutils.aggregate(index, inputs, operator=op, maxnan=maxnan)
    grp = groups_of(index)
    ctx = f"{label}: aggregate(index={index.tolist()[:12]}, inputs=" \
          + f"{inputs.tolist()[:12]}, op={op}, maxnan={maxnan}) -> " \
          + f"{np.asarray(out).tolist()[:12]}"
    check(isinstance(out, np.ndarray) and out.ndim == 1, ctx+" not 1d array")
    check(len(out) == len(grp), ctx+f" expected {len(grp)} values")
    if len(out) != len(grp):
        return out
    for k, (s, e) in enumerate(grp):
        constrained, exp, scale = ref_reduce(inputs[s:e].tolist(), op, maxnan)
        if not constrained:
            continue
        if op >= 2 and not math.isnan(exp):
            check(float(out[k]) == exp, ctx+f" group {k}: expected {exp!r}")
        else:
            check(close(float(out[k]), exp, scale),
                  ctx+f" group {k}: expected {exp!r}")
    # inputs must not be modified
    check(np.array_equal(inputs, inputs_before, equal_nan=True)
          and np.array_equal(index, index_before), ctx+" arguments modified")
    return out


def check_flathomogen(index, inputs, maxnan, label):
    index = np.asarray(index)
    inputs = np.asarray(inputs, dtype=np.float64)
    out = dutils.flathomogen(index, inputs, maxnan)
    ctx = f"{label}: flathomogen(index={index.tolist()[:12]}, inputs=" \
          + f"{inputs.tolist()[:12]}, maxnan={maxnan}) -> " \
          + f"{np.asarray(out).tolist()[:12]}"
    check(isinstance(out, np.ndarray) and out.shape == inputs.shape,
          ctx+" wrong shape")
    if out.shape != inputs.shape:
        return out
    for (s, e) in groups_of(index):
        vals = inputs[s:e].tolist()
        valid = [v for v in vals if not math.isnan(v)]
        nnan = len(vals)-len(valid)
        # missing stays missing, whatever maxnan
        for j in range(s, e):
            if math.isnan(inputs[j]):
                check(math.isnan(out[j]), ctx+f" item {j} should be missing")
        if len(valid) == 0:
            continue
        if nnan > maxnan:
            # more missing values than tolerated: the group is not filled
            for j in range(s, e):
                check(math.isnan(out[j]), ctx+f" item {j} should be NaN")
            continue
        absum = math.fsum(abs(v) for v in valid)
        mean = math.fsum(valid)/len(valid)
        got = [float(out[j]) for j in range(s, e)
               if not math.isnan(inputs[j])]
        for g in got:
            check(close(g, mean, absum/len(valid)),
                  ctx+f" expected group mean {mean!r}, got {g!r}")
        # all replaced values of a group are the same number
        check(all(g == got[0] or (math.isnan(g) and math.isnan(got[0]))
                  for g in got), ctx+" group not flat")
        # total of the group preserved
        check(close(math.fsum(got), math.fsum(valid), absum),
              ctx+" group total not preserved")
    return out


def check_conservation(index, inputs, label):
    """ sum of aggregated sums == sum of inputs (missing values skipped) """
    inputs = np.asarray(inputs, dtype=np.float64)
    if np.any(np.isinf(inputs)):
        return
    out = dutils.aggregate(index, inputs, operator=0, maxnan=len(inputs)+1)
    valid = inputs[~np.isnan(inputs)].tolist()
    absum = math.fsum(abs(v) for v in valid)
    check(close(math.fsum(out.tolist()), math.fsum(valid), absum),
          f"{label}: total not conserved by aggregate, index=" +
          f"{np.asarray(index).tolist()[:12]}")
    # without any missing value, maxnan=0 conserves as well
    if len(valid) == len(inputs):
        out = dutils.aggregate(index, inputs)
        check(close(math.fsum(out.tolist()), math.fsum(valid), absum),
              f"{label}: total not conserved by aggregate (maxnan=0)")


def check_rejected(index, inputs, label):
    index = np.asarray(index)
    inputs = np.asarray(inputs, dtype=np.float64)
    for op in range(4):
        for maxnan in [0, len(inputs)+1]:
            try:
                out = dutils.aggregate(index, inputs, operator=op,
                                       maxnan=maxnan)
            except Exception:
                check(True, "")
            else:
                check(False, f"{label}: aggregate accepted decreasing index "
                      + f"{index.tolist()[:12]} op={op} -> {out.tolist()[:12]}")
    for maxnan in [0, len(inputs)+1]:
        try:
            out = dutils.flathomogen(index, inputs, maxnan)
        except Exception:
            check(True, "")
        else:
            check(False, f"{label}: flathomogen accepted decreasing index "
                  + f"{index.tolist()[:12]} -> {out.tolist()[:12]}")


# ---------------------------------------------------------------------------
# Index builders : turn a run-length pattern into index values
# ---------------------------------------------------------------------------
def index_from_runs(runs, scheme):
    ngrp = len(runs)
    if scheme == "small":
        vals = list(range(ngrp))
    elif scheme == "negative":
        vals = list(range(-ngrp-3, -3))
    elif scheme == "cross0":
        vals = [-(ngrp//2) + k for k in range(ngrp)]
    elif scheme == "gaps":
        vals = [199501 + 97*k*k for k in range(ngrp)]
    elif scheme == "low":
        vals = [I32MIN + k for k in range(ngrp)]
    elif scheme == "high":
        vals = [I32MAX - ngrp + 1 + k for k in range(ngrp)]
    elif scheme == "extremes":
        if ngrp == 1:
            vals = [I32MAX]
        else:
            vals = [I32MIN] + [k*1000 for k in range(ngrp-2)] + [I32MAX]
    else:
        raise ValueError(scheme)
    return np.repeat(np.array(vals, dtype=np.int64), runs)


SCHEMES = ["small", "negative", "cross0", "gaps", "low", "high", "extremes"]


def compositions(n):
    """ all the ways to split n items in consecutive runs """
    for cuts in itertools.product([0, 1], repeat=n-1):
        runs = []
        cur = 1
        for c in cuts:
            if c:
                runs.append(cur)
                cur = 1
            else:
                cur += 1
        runs.append(cur)
        yield runs


# ---------------------------------------------------------------------------
# 1. exhaustive small cases (lengths 1..6)
# ---------------------------------------------------------------------------
def part_exhaustive():
    palette = [2.5, -1.25, 0., 2.5, -7., 1e-3, -0., 3.]
    isch = 0
    for n in range(1, 7):
        for ishift in range(2):
            base = (palette[ishift:] + palette[:ishift])[:n]
            for runs in compositions(n):
                for mask in itertools.product([False, True], repeat=n):
                    inputs = np.array(base, dtype=np.float64)
                    inputs[np.array(mask)] = np.nan
                    scheme = SCHEMES[isch % len(SCHEMES)]
                    isch += 1
                    index = index_from_runs(runs, scheme)
                    if isch % 2 == 0:
                        index = index.astype(np.int32)
                    for maxnan in range(0, n+2):
                        for op in range(4):
                            check_aggregate(index, inputs, op, maxnan, "exh")
                        check_flathomogen(index, inputs, maxnan, "exh")
                    check_conservation(index, inputs, "exh")


# ---------------------------------------------------------------------------
# 2. hand written awkward cases
# ---------------------------------------------------------------------------
def part_awkward():
    nan = np.nan
    cases = [
        # all negative group: the max must not be 0
        ([1, 1, 1], [-3., -1., -2.]),
        # leading / trailing NaN in a group
        ([1, 1, 1, 2, 2, 2], [nan, -5., -6., 7., 8., nan]),
        # max in first position / last position / tie
        ([4, 4, 4, 4], [9., 1., 9., 2.]),
        ([4, 4, 4, 4], [1., 2., 3., 9.]),
        # last value is missing: tail is the last *valid* value
        ([0, 0, 0, 5, 5], [1., 2., nan, nan, 4.]),
        # whole group missing in the middle, at the start and at the end
        ([1, 1, 2, 2, 3, 3], [1., 2., nan, nan, 5., 6.]),
        ([1, 1, 2, 2, 3, 3], [nan, nan, 3., 4., 5., 6.]),
        ([1, 1, 2, 2, 3, 3], [1., 2., 3., 4., nan, nan]),
        # everything missing
        ([7, 7, 8], [nan, nan, nan]),
        # length 1 and 2
        ([I32MIN], [1.5]), ([I32MAX], [nan]), ([0], [-0.]),
        ([I32MIN, I32MAX], [1., 2.]), ([I32MIN, I32MIN], [1., nan]),
        ([I32MAX, I32MAX], [-1., -2.]), ([-1, 0], [nan, -2.]),
        # cancellation and wide dynamic range
        ([3, 3, 3, 3], [1e16, 1., -1e16, 1.]),
        ([3, 3, 3, 3, 4], [1e150, -1e150, 1e-150, 3., 1e150]),
        # infinities (single sign per group)
        ([1, 1, 2, 2], [np.inf, 1., -np.inf, -np.inf]),
        ([1, 1, 1], [-np.inf, nan, -np.inf]),
        # zeros and negative zeros
        ([1, 1, 2], [0., -0., -0.]),
    ]
    for index, inputs in cases:
        n = len(index)
        for dtype in [np.int64, np.int32]:
            idx = np.array(index, dtype=dtype)
            for maxnan in range(0, n+2):
                for op in range(4):
                    check_aggregate(idx, inputs, op, maxnan, "awk")
                check_flathomogen(idx, inputs, maxnan, "awk")
        # infinities of both signs are not summed in the conservation check
        check_conservation(np.array(index), inputs, "awk")

    # Exact expected values on a documented example
    idx = np.array([199501]*3 + [199502]*2 + [199503])
    x = np.array([1., nan, 3., -4., -6., nan])
    exp = {
        (0, 0): [nan, -10., nan], (0, 1): [4., -10., 0.],
        (1, 0): [nan, -5., nan], (1, 1): [2., -5., None],
        (2, 0): [nan, -4., nan], (2, 1): [3., -4., None],
        (3, 0): [nan, -6., nan], (3, 1): [3., -6., None],
    }
    for (op, maxnan), e in exp.items():
        out = dutils.aggregate(idx, x, operator=op, maxnan=maxnan)
        check(len(out) == 3, "doc example: 3 groups")
        for o, ee in zip(out, e):
            if ee is None:
                continue
            check((math.isnan(o) and math.isnan(ee)) or o == ee,
                  f"doc example op={op} maxnan={maxnan}: {out} vs {e}")
    out = dutils.flathomogen(idx, x, 1)
    e = [2., nan, 2., -5., -5., nan]
    check(np.array_equal(out, e, equal_nan=True), f"doc example flat: {out}")
    out = dutils.flathomogen(idx, x, 0)
    e = [nan, nan, nan, -5., -5., nan]
    check(np.array_equal(out, e, equal_nan=True), f"doc example flat0: {out}")

    # pandas index as produced by compute_aggindex
    dt = pd.date_range("1999-11-20", "2000-03-05")
    v = np.sin(np.arange(len(dt)))*10
    v[[0, 5, 40, len(dt)-1]] = nan
    for ts in ["MS", "D", "AS"]:
        aggindex = dutils.compute_aggindex(dt, ts)
        for op in range(4):
            for maxnan in [0, 1, 40]:
                check_aggregate(aggindex, v, op, maxnan, "pd-"+ts)
        check_flathomogen(aggindex, v, 1, "pd-"+ts)
        check_conservation(aggindex, v, "pd-"+ts)


# ---------------------------------------------------------------------------
# 3. randomised cases, long runs included
# ---------------------------------------------------------------------------
def part_random():
    rng = np.random.default_rng(20260929)
    for it in range(400):
        n = int(rng.choice([1, 2, 3, 7, 8, 9, 31, 64, 129, 500, 1500]))
        kind = it % 5
        if kind == 0:
            runs = [n]
        elif kind == 1:
            runs = [1]*n
        else:
            runs = []
            left = n
            while left > 0:
                mx = max(1, min(left, int(rng.choice([1, 2, 5, 31, 400]))))
                r = int(rng.integers(1, mx+1))
                runs.append(r)
                left -= r
        scheme = SCHEMES[it % len(SCHEMES)]
        index = index_from_runs(runs, scheme)
        style = it % 4
        if style == 0:
            inputs = rng.normal(size=n)*10.**rng.integers(-5, 6)
        elif style == 1:
            inputs = rng.integers(-3, 4, size=n).astype(float)
        elif style == 2:
            inputs = -rng.exponential(size=n)
        else:
            inputs = rng.normal(size=n)*10.**rng.integers(-8, 9, size=n)
        pnan = rng.choice([0., 0.05, 0.5, 0.95, 1.])
        inputs[rng.uniform(size=n) < pnan] = np.nan
        if n > 1 and it % 3 == 0:
            inputs[0] = np.nan
        if n > 1 and it % 3 == 1:
            inputs[-1] = np.nan
        for maxnan in [0, 1, 3, max(runs)-1, max(runs), max(runs)+1, 2*n+5]:
            if maxnan < 0:
                continue
            for op in range(4):
                check_aggregate(index, inputs, op, maxnan, "rnd")
            check_flathomogen(index, inputs, maxnan, "rnd")
        check_conservation(index, inputs, "rnd")


# ---------------------------------------------------------------------------
# 4. decreasing index rejected, non-decreasing extreme index accepted
# ---------------------------------------------------------------------------
def part_rejected():
    rng = np.random.default_rng(5)
    bad = [
        [1, 0], [0, -1], [I32MAX, I32MIN], [I32MAX, I32MAX-1],
        [I32MIN+1, I32MIN], [0, I32MIN], [I32MAX, 0],
        [2, 1, 1], [1, 1, 0], [1, 2, 1], [1, 0, 5], [5, 5, 5, 4],
        [1, 2, 3, 4, 3, 5, 6], [0, 1, 2, 3, 4, 5, 4],
        [1, 0, 2, 3, 4, 5, 6], [-5, -5, -6, -6], [3, 3, 3, 2, 2, 2, 9, 9],
        [I32MIN, 0, I32MAX, I32MAX, I32MIN],
        [199512, 199601, 199512],
    ]
    for index in bad:
        n = len(index)
        check_rejected(index, rng.normal(size=n), "rej")
        x = rng.normal(size=n)
        x[::2] = np.nan
        check_rejected(np.array(index, dtype=np.int32), x, "rej-nan")
        check_rejected(index, np.full(n, np.nan), "rej-allnan")
    # a single decrease anywhere in a long vector
    for n in [2, 3, 10, 257]:
        for pos in sorted(set([1, n//2, n-1])):
            if pos < 1:
                continue
            index = np.arange(n)*3
            index[pos] = index[pos-1]-1
            if pos+1 < n:
                # later values are fine relative to each other
                index[pos+1:] = index[pos] + 1 + np.arange(n-pos-1)
            check_rejected(index, rng.normal(size=n), f"rej-n{n}-p{pos}")
    # these are non-decreasing: must be accepted (differences overflow int32)
    for index in [[I32MIN, I32MAX], [I32MIN, 0, I32MAX], [-2, I32MAX],
                  [I32MIN, I32MIN, I32MAX, I32MAX], [I32MIN, 1]]:
        x = np.arange(len(index), dtype=float)-1.
        for op in range(4):
            check_aggregate(index, x, op, 0, "extreme-ok")
        check_flathomogen(index, x, 0, "extreme-ok")


# ---------------------------------------------------------------------------
# 5. monthly2daily
# ---------------------------------------------------------------------------
def check_m2d(start, nmonths, values, interp, label):
    months = pd.date_range(start, periods=nmonths, freq="MS")
    se = pd.Series(values, index=months)
    se_before = se.copy()
    sed = dutils.monthly2daily(se, interpolation=interp)
    ctx = f"{label}: monthly2daily({interp}) start={start} n={nmonths}"
    # one value per calendar day, from the first day of the first month
    # to the last day of the last month
    last = months[-1] + pd.offsets.MonthEnd(1)
    days = pd.date_range(months[0], last, freq="D")
    check(isinstance(sed, pd.Series), ctx+" not a series")
    check(len(sed) == len(days), ctx+f" expected {len(days)} days,"
          + f" got {len(sed)}")
    if len(sed) != len(days):
        return
    check(bool((pd.DatetimeIndex(sed.index) == days).all()),
          ctx+" wrong days")
    check(not sed.isnull().any(), ctx+" missing daily values")
    # monthly totals
    v = sed.values.astype(float)
    key = sed.index.year.values*100+sed.index.month.values
    scale = max(1e-300, float(np.max(np.abs(values))))
    for k, (s, e) in enumerate(groups_of(key)):
        tot = math.fsum(v[s:e].tolist())
        check(e-s == months[k].days_in_month, ctx+" wrong month length")
        check(abs(tot-values[k]) <= 1e-9*scale,
              ctx+f" month {k}: total {tot!r} expected {values[k]!r}")
    if interp == "flat":
        # every day of a month holds the same share
        for k, (s, e) in enumerate(groups_of(key)):
            check(bool(np.all(v[s:e] == v[s])), ctx+" month not flat")
            check(bool(np.all(v[s:e] >= 0)), ctx+" negative flat value")
    # input left untouched
    check(se.equals(se_before), ctx+" input series modified")


def part_monthly2daily():
    rng = np.random.default_rng(11)
    starts = [f"{y}-{m:02d}-01" for y in [1900, 1999, 2000, 2023, 2024]
              for m in range(1, 13)]
    for i, start in enumerate(starts):
        for nmonths in [2, 3, 12, 13, 14, 25, 49]:
            style = (i+nmonths) % 4
            if style == 0:
                values = np.exp(rng.normal(size=nmonths))
            elif style == 1:
                values = rng.integers(0, 4, size=nmonths).astype(float)
            elif style == 2:
                values = np.zeros(nmonths)
                values[rng.integers(0, nmonths)] = 31.
            else:
                values = rng.uniform(0, 1, size=nmonths)\
                    * 10.**rng.integers(-6, 7, size=nmonths)
            for interp in ["flat", "cubic"]:
                check_m2d(start, nmonths, values, interp, "m2d")
    # several hundred months, every starting month
    for m in range(1, 13):
        for nmonths in [240, 601]:
            values = np.exp(rng.normal(size=nmonths))
            values[rng.uniform(size=nmonths) < 0.1] = 0.
            for interp in ["flat", "cubic"]:
                check_m2d(f"{1890+m}-{m:02d}-01", nmonths, values, interp,
                          "m2d-long")
    # constant series, all zeros, two months around a leap day
    for interp in ["flat", "cubic"]:
        check_m2d("2000-02-01", 2, np.array([29., 31.]), interp, "m2d-leap")
        check_m2d("1900-02-01", 2, np.array([28., 31.]), interp, "m2d-1900")
        check_m2d("2024-01-01", 3, np.zeros(3), interp, "m2d-zeros")
        check_m2d("2023-12-01", 4, np.full(4, 5.), interp, "m2d-const")
        check_m2d("2001-01-01", 2, np.array([0., 1e6]), interp, "m2d-step")


if __name__ == "__main__":
    part_awkward()
    part_rejected()
    part_exhaustive()
    part_random()
    part_monthly2daily()
    print(f"{NCHECK} checks, {NFAIL} failures")
    sys.exit(1 if NFAIL else 0)
