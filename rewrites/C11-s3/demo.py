#!/usr/bin/env python
""" C11 demo: flow accumulation equals the sum over everything upstream.

Run as
    PYTHONPATH=<tree>/src /venv/bin/python demo.py

The program is self-contained: it builds flow-direction grids, runs
hydrodiy.gis.grid.accumulate and compares with an independent pure-Python
oracle. It exits 0 when every check passes and 1 otherwise.

Checked, for every ACYCLIC flow-direction grid that is generated:
 (a) a cell that drains into another cell carries the sum of the accumulated
     field over itself and every cell draining through it (the number of such
     cells for the default unit field);
 (b) the same value equals its own contribution plus the accumulated values
     of its direct upstream neighbours;
 (c) cells that drain nowhere (sinks, off-grid exits, invalid codes) carry
     the no-data value of the accumulated field;
 (d) the cell values of the two input grids are not altered.
Grids with cycles or a reduced max_accumulated_cells (>= 1) are only called
to see that they terminate without raising.
"""
import os
import sys
import itertools
import math
from fractions import Fraction

import numpy as np

from hydrodiy.gis.grid import Grid, accumulate, FLOWDIRCODE

# Offsets (drow, dcol) of the 9 positions of the code table
#   32 64 128
#   16  0   1
#    8  4   2
CODE2OFF = {}
for _r in range(3):
    for _c in range(3):
        if not (_r == 1 and _c == 1):
            CODE2OFF[int(FLOWDIRCODE[_r, _c])] = (_r-1, _c-1)

VALID = sorted(CODE2OFF.keys())
INVALID = [3, -1, 255, 7]

NFAIL = 0
NCHECK = 0
NCALLS = 0


def fail(msg):
    global NFAIL
    NFAIL += 1
    if NFAIL <= 20:
        sys.stderr.write("FAIL: " + msg + "\n")


class Quiet(object):
    """ Silence the C kernel that prints on the C-level stdout """
    def __enter__(self):
        sys.stdout.flush()
        self.saved = os.dup(1)
        self.null = os.open(os.devnull, os.O_WRONLY)
        os.dup2(self.null, 1)

    def __exit__(self, *args):
        os.dup2(self.saved, 1)
        os.close(self.null)
        os.close(self.saved)


# ---------------------------------------------------------------- oracle ---
def downstream_table(codes, code2off=None):
    """ index of the downstream cell or -1 if the cell drains nowhere """
    code2off = CODE2OFF if code2off is None else code2off
    nrows, ncols = codes.shape
    down = -np.ones(nrows*ncols, dtype=np.int64)
    for r in range(nrows):
        for c in range(ncols):
            fd = int(codes[r, c])
            if fd not in code2off:
                continue
            dr, dc = code2off[fd]
            rr, cc = r+dr, c+dc
            if rr < 0 or rr >= nrows or cc < 0 or cc >= ncols:
                continue
            down[r*ncols+c] = rr*ncols+cc
    return down


def is_acyclic(down):
    n = len(down)
    state = np.zeros(n, dtype=np.int8)  # 0 new, 1 on path, 2 done
    for i in range(n):
        if state[i]:
            continue
        path = []
        j = i
        while j >= 0 and state[j] == 0:
            state[j] = 1
            path.append(j)
            j = down[j]
        if j >= 0 and state[j] == 1:
            return False
        for k in path:
            state[k] = 2
    return True


def oracle(down, field):
    """ Exact sums (Fractions) over the upstream closure of every cell,
    plus the sum of absolute values used to scale the tolerance """
    n = len(down)
    vals = [Fraction(float(v)) for v in field.ravel()]
    tot = list(vals)
    atot = [abs(v) for v in vals]
    cnt = [1]*n
    for i in range(n):
        j = down[i]
        while j >= 0:
            tot[j] += vals[i]
            atot[j] += abs(vals[i])
            cnt[j] += 1
            j = down[j]
    return tot, atot, cnt


# ---------------------------------------------------------------- checks ---
def make_flowdir(codes, dtype=np.int64, nodata=-1):
    nrows, ncols = codes.shape
    fd = Grid("fd", ncols, nrows, dtype=dtype, nodata=nodata)
    fd.data = codes
    return fd


def same(a, b):
    return (a == b) or (isinstance(a, float) and isinstance(b, float)
                        and math.isnan(a) and math.isnan(b))


def run(codes, field=None, fd_dtype=np.int64, fd_nodata=-1,
        field_nodata=-9999., field_dtype=np.float64, label="", **kw):
    """ Runs accumulate and checks (a)-(d) if the grid is acyclic
    and the cell limit is the default one """
    global NCHECK, NCALLS
    codes = np.asarray(codes)
    nrows, ncols = codes.shape
    flowdir = make_flowdir(codes, fd_dtype, fd_nodata)
    fd_before = flowdir.data.astype(np.float64).copy()

    if field is None:
        to_acc = None
        fieldvalues = np.ones((nrows, ncols))
        nodata = float(flowdir.nodata)
    else:
        to_acc = Grid("toacc", ncols, nrows, dtype=field_dtype,
                      nodata=field_nodata)
        to_acc.data = field
        fieldvalues = to_acc.data.astype(np.float64).copy()
        nodata = float(to_acc.nodata)

    down = downstream_table(codes)
    acyclic = is_acyclic(down)
    full = acyclic and kw.get("max_accumulated_cells", -1) == -1

    NCALLS += 1
    try:
        with Quiet():
            if to_acc is None:
                acc = accumulate(flowdir, **kw)
            else:
                acc = accumulate(flowdir, to_acc, **kw)
    except Exception as err:
        fail(f"{label}: accumulate raised {err!r} codes={codes.tolist()}")
        return None

    # (d) input values untouched
    NCHECK += 1
    if not np.array_equal(flowdir.data.astype(np.float64), fd_before):
        fail(f"{label}: flow direction values altered")
    if flowdir.data.shape != (nrows, ncols):
        fail(f"{label}: flow direction shape altered")
    if to_acc is not None:
        if not np.array_equal(to_acc.data.astype(np.float64), fieldvalues,
                              equal_nan=True):
            fail(f"{label}: accumulated field values altered")

    if acc.data.shape != (nrows, ncols):
        fail(f"{label}: wrong shape of result")
        return acc

    if not full:
        return acc

    tot, atot, cnt = oracle(down, fieldvalues)
    res = acc.data.ravel()
    hasdown = down >= 0
    eps = np.finfo(np.float64).eps
    for i in range(nrows*ncols):
        if not hasdown[i]:
            # (c)
            if not same(float(res[i]), nodata):
                fail(f"{label}: cell {i} drains nowhere, has {res[i]}"
                     + f" instead of nodata {nodata}"
                     + f" codes={codes.tolist()}")
            continue

        # (a) closure sum. Error bound of any summation order of cnt terms
        tol = float(atot[i]) * eps * (cnt[i] + 2)
        err = abs(Fraction(float(res[i])) - tot[i])
        if err > tol:
            fail(f"{label}: cell {i} has {res[i]!r}, expected "
                 + f"{float(tot[i])!r} codes={codes.tolist()}")

        if field is None and res[i] != cnt[i]:
            fail(f"{label}: cell {i} unit field: {res[i]} != {cnt[i]}")

        # (b) local recurrence with the values returned by the library
        ups = np.where(down == i)[0]
        loc = Fraction(float(fieldvalues.ravel()[i]))
        for u in ups:
            loc += Fraction(float(res[u]))
        if abs(loc - Fraction(float(res[i]))) > 2*tol:
            fail(f"{label}: cell {i} recurrence {float(loc)!r} "
                 + f"vs {res[i]!r} codes={codes.tolist()}")

    return acc


def fields_for(rng, nrows, ncols):
    """ uniform / random positive / zeros and negatives / exact dyadic """
    shape = (nrows, ncols)
    out = [("unit", None),
           ("uniform", np.full(shape, 2.5)),
           ("uniform0.1", np.full(shape, 0.1)),
           ("positive", rng.uniform(1e-3, 1e3, shape)),
           ("mixed", np.where(rng.uniform(0, 1, shape) < 0.3, 0.,
                              rng.normal(0, 10, shape))),
           ("intmixed", rng.integers(-5, 6, shape).astype(np.float64)),
           ("cancel", np.where(rng.uniform(0, 1, shape) < 0.5, 1e8, -1e8)
            + rng.uniform(-1, 1, shape))]
    return out


def random_acyclic(rng, nrows, ncols, pterm=0.15):
    """ Acyclic by construction: every cell drains to a neighbour with a
    strictly lower random rank, or nowhere (sink / off grid / invalid) """
    rank = rng.permutation(nrows*ncols).reshape((nrows, ncols))
    codes = np.zeros((nrows, ncols), dtype=np.int64)
    for r in range(nrows):
        for c in range(ncols):
            cands = []
            offgrid = []
            for code, (dr, dc) in CODE2OFF.items():
                rr, cc = r+dr, c+dc
                if rr < 0 or rr >= nrows or cc < 0 or cc >= ncols:
                    offgrid.append(code)
                elif rank[rr, cc] < rank[r, c]:
                    cands.append(code)
            u = rng.uniform()
            if len(cands) == 0 or u < pterm:
                kind = rng.integers(0, 3)
                if kind == 0 or (kind == 1 and len(offgrid) == 0):
                    codes[r, c] = 0
                elif kind == 1:
                    codes[r, c] = offgrid[rng.integers(len(offgrid))]
                else:
                    codes[r, c] = INVALID[rng.integers(len(INVALID))]
            else:
                codes[r, c] = cands[rng.integers(len(cands))]
    return codes


def chain(nrows, ncols):
    """ Boustrophedon path through every cell: the longest possible path
    (nrows*ncols-1 moves), ends in a sink in the last row """
    codes = np.zeros((nrows, ncols), dtype=np.int64)
    for r in range(nrows):
        east = r % 2 == 0
        for c in range(ncols):
            last = (c == ncols-1) if east else (c == 0)
            if last:
                codes[r, c] = 4 if r < nrows-1 else 0
            else:
                codes[r, c] = 1 if east else 16
    return codes


# ------------------------------------------------------------------ main ---
def exhaustive(rng):
    allcodes = [0] + VALID + [3, -1]
    for nrows, ncols in [(1, 1), (1, 2), (2, 1), (1, 3), (3, 1), (2, 2)]:
        n = nrows*ncols
        for k, combo in enumerate(itertools.product(allcodes, repeat=n)):
            codes = np.array(combo, dtype=np.int64).reshape((nrows, ncols))
            run(codes, None, label=f"exh{nrows}x{ncols}")
            if n <= 3 or k % 7 == 0:
                fld = rng.integers(-4, 5, (nrows, ncols)) * 0.375
                run(codes, fld, label=f"exh{nrows}x{ncols}/field")

    # 2x3, 3x2, 3x3 : exhaustive is too large, all valid codes + sink
    for nrows, ncols, nsamp in [(2, 3, 3000), (3, 2, 3000), (3, 3, 3000),
                                (1, 6, 1500), (6, 1, 1500)]:
        for k in range(nsamp):
            codes = rng.choice(allcodes, (nrows, ncols))
            fld = None if k % 2 == 0 else rng.normal(0, 1, (nrows, ncols))
            run(codes, fld, label=f"rnd{nrows}x{ncols}")


def randomised(rng):
    sizes = [(1, 1), (1, 2), (2, 1), (1, 17), (17, 1), (2, 9), (9, 2),
             (4, 5), (5, 4), (7, 7), (8, 13), (13, 8), (20, 23), (31, 29)]
    for nrows, ncols in sizes:
        nrep = 12 if nrows*ncols < 200 else 3
        for rep in range(nrep):
            codes = random_acyclic(rng, nrows, ncols,
                                   pterm=[0.02, 0.15, 0.5][rep % 3])
            for name, fld in fields_for(rng, nrows, ncols):
                run(codes, fld, label=f"acy{nrows}x{ncols}/{name}")

    # Longest possible paths, every cell on one path
    for nrows, ncols in [(1, 2), (2, 1), (1, 40), (40, 1), (6, 7), (25, 24)]:
        codes = chain(nrows, ncols)
        for name, fld in fields_for(rng, nrows, ncols):
            run(codes, fld, label=f"chain{nrows}x{ncols}/{name}")
        # same chain leaving the grid instead of ending in a sink
        codes2 = codes.copy()
        codes2[codes2 == 0] = 4
        run(codes2, None, label=f"chainout{nrows}x{ncols}")
        # and ending on an invalid code
        codes2[nrows-1, :][codes[nrows-1, :] == 0] = 3
        run(codes2, None, label=f"chaininv{nrows}x{ncols}")

    # Star: every neighbour drains to the centre (ties in arrival order)
    star = np.array([[2, 4, 8], [1, 1, 16], [128, 64, 32]])
    for name, fld in fields_for(rng, 3, 3):
        run(star, fld, label=f"star/{name}")


def variants(rng):
    """ dtypes and no-data values of the two grids """
    codes = random_acyclic(rng, 6, 7)
    fld = rng.normal(0, 3, (6, 7))
    for fd_dtype in [np.int64, np.int32, np.int16, np.float64, np.uint8]:
        c = np.where(codes < 0, 3, codes) if fd_dtype == np.uint8 else codes
        for fd_nodata in [0, -1, 99]:
            if fd_dtype == np.uint8 and fd_nodata < 0:
                continue
            run(c, None, fd_dtype=fd_dtype, fd_nodata=fd_nodata,
                label=f"variant-fd/{fd_dtype.__name__}/{fd_nodata}")
            run(c, fld, fd_dtype=fd_dtype, fd_nodata=fd_nodata,
                label=f"variant-fd/{fd_dtype.__name__}/{fd_nodata}/fld")

    for nd in [-9999., 0., -0.1, np.nan, np.inf, 1e300]:
        run(codes, fld, field_nodata=nd, label=f"variant-nodata/{nd}")

    # Integer and single precision fields (converted to float64 exactly)
    ifld = rng.integers(-10, 10, (6, 7))
    run(codes, ifld, field_dtype=np.int32, field_nodata=-99,
        label="variant-int32field")
    run(codes, ifld, field_dtype=np.int64, field_nodata=-99,
        label="variant-int64field")
    run(codes, fld.astype(np.float32), field_dtype=np.float32,
        field_nodata=-99, label="variant-float32field")

    # nprint values
    for nprint in [1, 5, 100, 10**6, 0, -3]:
        run(codes, fld, nprint=nprint, label=f"variant-nprint/{nprint}")

    # Field containing the nodata value itself
    f2 = fld.copy()
    f2[2, 3] = -9999.
    run(codes, f2, label="variant-field-has-nodata")


def histories(rng):
    """ Call histories: the same objects used again, same shape with other
    codes, other shapes, codes edited in place between two calls """
    shapes = [(5, 6), (5, 6), (6, 5), (3, 10), (5, 6), (1, 30), (5, 6)]
    grids = [random_acyclic(rng, *s) for s in shapes]
    for rep in range(3):
        for k, codes in enumerate(grids):
            fld = rng.normal(0, 3, codes.shape) if (k+rep) % 2 else None
            run(codes, fld, label=f"history/{rep}/{k}")

    # Same Grid object called repeatedly, data edited in place in between
    global NCALLS
    nrows, ncols = 6, 6
    codes = random_acyclic(rng, nrows, ncols)
    flowdir = make_flowdir(codes)
    to_acc = Grid("toacc", ncols, nrows, nodata=-5.)
    to_acc.data = rng.uniform(0, 1, (nrows, ncols))
    for it in range(12):
        if it % 3 == 1:
            # in-place edit of the array owned by the grid
            codes2 = random_acyclic(rng, nrows, ncols)
            flowdir.data[:] = codes2
        elif it % 3 == 2:
            to_acc.data[:] = rng.normal(0, 1, (nrows, ncols))
        cur = np.array(flowdir.data).astype(np.int64)
        fvals = to_acc.data.copy()
        NCALLS += 1
        with Quiet():
            acc = accumulate(flowdir, to_acc)
        down = downstream_table(cur)
        tot, atot, cnt = oracle(down, fvals)
        res = acc.data.ravel()
        for i in range(nrows*ncols):
            if down[i] < 0:
                if res[i] != -5.:
                    fail(f"history-inplace/{it}: cell {i} not nodata")
            elif abs(res[i]-float(tot[i])) > 1e-12*float(atot[i]):
                fail(f"history-inplace/{it}: cell {i} {res[i]}"
                     + f" vs {float(tot[i])}")
        if not np.array_equal(flowdir.data, cur):
            fail(f"history-inplace/{it}: flowdir altered")
        if not np.array_equal(to_acc.data, fvals):
            fail(f"history-inplace/{it}: field altered")
        # The result must not be tied to the inputs
        acc.data[:] = 777.
        if not np.array_equal(to_acc.data, fvals):
            fail(f"history-inplace/{it}: result shares memory with field")


def terminate_only(rng):
    """ Cycles and reduced cell limit: only termination without error """
    cyc = [np.array([[1, 16]]), np.array([[4], [64]]),
           np.array([[1, 4], [64, 16]]),
           np.array([[2, 8], [128, 32]]),
           np.array([[1, 1, 4], [64, 0, 4], [64, 16, 16]]),
           np.array([[1, 1, 1, 16]])]
    for codes in cyc:
        run(codes, None, label="cycle")
        run(codes, rng.normal(0, 1, codes.shape), label="cycle/field")
        run(codes, None, max_accumulated_cells=1, label="cycle/max1")

    for k in range(300):
        nrows, ncols = rng.integers(1, 7, 2)
        codes = rng.choice([0]+VALID+[3], (nrows, ncols))
        run(codes, None, label="rndcycle")
        run(codes, None, max_accumulated_cells=int(rng.integers(1, 10)),
            label="rndcycle/max")

    codes = chain(6, 7)
    for mx in [1, 2, 3, 10, 41, 42, 43, 1000]:
        run(codes, None, max_accumulated_cells=mx, label=f"chain/max{mx}")
        run(codes, rng.normal(0, 1, codes.shape),
            max_accumulated_cells=mx, label=f"chain/max{mx}/field")

    # An explicit limit not smaller than the number of cells behaves like
    # the default one on an acyclic grid (every path has < nrows*ncols moves)
    for mx in [42, 43, 100000]:
        with Quiet():
            a = accumulate(make_flowdir(codes), max_accumulated_cells=mx)
            b = accumulate(make_flowdir(codes))
        if not np.array_equal(a.data, b.data):
            fail(f"explicit limit {mx} differs from default")


def kernel_direct(rng):
    """ Same property on the compiled entry point used by the wrapper:
    c_hydrodiy_gis.accumulate(nprint, max_cells, nodata, codes, flowdir,
    to_accumulate, accumulation) with accumulation initialised with the
    field, as hydrodiy.gis.grid.accumulate does """
    global NCALLS
    import c_hydrodiy_gis
    for k in range(400):
        nrows, ncols = [int(n) for n in rng.integers(1, 9, 2)]
        codes = random_acyclic(rng, nrows, ncols)
        fld = rng.normal(0, 2, (nrows, ncols))
        fd = np.ascontiguousarray(codes, dtype=np.int64)
        fd0, fld0 = fd.copy(), fld.copy()
        acc = fld.copy()
        NCALLS += 1
        with Quiet():
            ierr = c_hydrodiy_gis.accumulate(int(rng.integers(-1, 4)),
                                             nrows*ncols, -77.,
                                             FLOWDIRCODE, fd, fld, acc)
        if ierr != 0:
            fail(f"kernel: error code {ierr}")
            continue
        if not np.array_equal(fd, fd0) or not np.array_equal(fld, fld0):
            fail("kernel: inputs altered")
        down = downstream_table(codes)
        tot, atot, cnt = oracle(down, fld)
        res = acc.ravel()
        eps = np.finfo(np.float64).eps
        for i in range(nrows*ncols):
            if down[i] < 0:
                if res[i] != -77.:
                    fail(f"kernel: cell {i} not nodata")
            elif abs(Fraction(float(res[i]))-tot[i]) \
                    > float(atot[i])*eps*(cnt[i]+2):
                fail(f"kernel: cell {i} {res[i]} vs {float(tot[i])}")


def check_against_oracle(label, res, down, fieldvalues, nodata):
    tot, atot, cnt = oracle(down, fieldvalues)
    res = res.ravel()
    eps = np.finfo(np.float64).eps
    for i in range(len(down)):
        if down[i] < 0:
            if not same(float(res[i]), float(nodata)):
                fail(f"{label}: cell {i} not nodata ({res[i]})")
        elif abs(Fraction(float(res[i]))-tot[i]) \
                > float(atot[i])*eps*(cnt[i]+2):
            fail(f"{label}: cell {i} {res[i]} vs {float(tot[i])}")


def memo_histories(rng):
    """ Call sequences that would expose a result wrongly remembered from
    a previous call (same flow directions / other field, same shape / other
    flow directions, in-place edits, other shapes and back, other code
    table with the same flow direction array, results edited by the
    caller between two calls) """
    global NCALLS
    import c_hydrodiy_gis

    # 1. wrapper, default unit field: results are independent objects
    for nrows, ncols in [(1, 1), (1, 2), (4, 6), (4, 6), (6, 4), (4, 6)]:
        codes = random_acyclic(rng, nrows, ncols)
        down = downstream_table(codes)
        flowdir = make_flowdir(codes, nodata=-3)
        previous = []
        for it in range(4):
            NCALLS += 1
            with Quiet():
                acc = accumulate(flowdir)
            check_against_oracle(f"memo-unit/{nrows}x{ncols}/{it}",
                                 acc.data, down, np.ones(codes.shape), -3)
            for old in previous:
                if old is acc or np.shares_memory(old.data, acc.data):
                    fail("memo-unit: two results share memory")
            if np.shares_memory(flowdir.data, acc.data):
                fail("memo-unit: result shares memory with flowdir")
            previous.append(acc)
            # the caller is free to do what he wants with the result
            acc.data[:] = 555.
            acc.fill(-1)

    # 2. wrapper, several fields over one flow direction grid, then the
    # flow directions are edited in place cell by cell
    nrows, ncols = 7, 5
    codes = chain(nrows, ncols)
    flowdir = make_flowdir(codes)
    for it in range(2*nrows*ncols):
        fld = rng.normal(0, 1, (nrows, ncols))
        to_acc = Grid("f", ncols, nrows, nodata=-11.)
        to_acc.data = fld
        if it % 2 == 1:
            # cut the chain somewhere: sink, exit or invalid code
            k = int(rng.integers(nrows*ncols))
            flowdir.data.flat[k] = [0, 3, -1][it % 3]
        cur = flowdir.data.copy()
        NCALLS += 1
        with Quiet():
            acc = accumulate(flowdir, to_acc)
        if not np.array_equal(cur, flowdir.data):
            fail("memo-edit: flowdir altered")
        check_against_oracle(f"memo-edit/{it}", acc.data,
                             downstream_table(cur), fld, -11.)

    # 3. compiled function, alternating code tables / grids / shapes
    table1 = np.ascontiguousarray(FLOWDIRCODE)
    table2 = np.ascontiguousarray(FLOWDIRCODE[::-1, ::-1])
    off2 = {}
    for r in range(3):
        for c in range(3):
            if not (r == 1 and c == 1):
                off2[int(table2[r, c])] = (r-1, c-1)

    grids = []
    for shape in [(3, 3), (3, 3), (5, 2), (2, 5), (1, 10), (6, 6)]:
        g = np.ascontiguousarray(random_acyclic(rng, *shape, pterm=0.3))
        grids.append(g)

    for it in range(300):
        fd = grids[int(rng.integers(len(grids)))]
        if it % 5 == 4:
            # in place edit, sink or invalid code keeps the grid acyclic
            fd.flat[int(rng.integers(fd.size))] = [0, 5][it % 2]
        table, off = (table1, CODE2OFF) if rng.uniform() < 0.5 \
            else (table2, off2)
        down = downstream_table(fd, off)
        if not is_acyclic(down):
            continue
        fld = rng.normal(0, 1, fd.shape)
        acc = fld.copy()
        fd0 = fd.copy()
        NCALLS += 1
        with Quiet():
            ierr = c_hydrodiy_gis.accumulate(0, fd.size, -1.5, table,
                                             fd, fld, acc)
        if ierr != 0:
            fail(f"memo-kernel/{it}: error code {ierr}")
            continue
        if not np.array_equal(fd, fd0):
            fail(f"memo-kernel/{it}: flowdir altered")
        check_against_oracle(f"memo-kernel/{it}", acc, down, fld, -1.5)


def main():
    rng = np.random.default_rng(5446)
    exhaustive(rng)
    randomised(rng)
    variants(rng)
    histories(rng)
    terminate_only(rng)
    kernel_direct(rng)
    memo_histories(rng)

    print(f"C11 demo: {NCALLS} calls, {NCHECK} checked grids, "
          + f"{NFAIL} failures")
    sys.exit(1 if NFAIL > 0 else 0)


if __name__ == "__main__":
    main()
