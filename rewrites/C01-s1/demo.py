#!/usr/bin/env python
"""Demo for property C01 : every data transform is invertible on its domain.

    PYTHONPATH=<tree>/src /venv/bin/python demo.py [-v]

What is checked (everything stays INSIDE the quantifier of the property:
the 13 catalogue classes, parameters/constants inside the declared bounds,
float64 arrays inside the domain and the stated conditioning region):

 1. round trips  backward(forward(x)) == x  and  forward(backward(y)) == y
    to a relative accuracy of 1e-6 on a grid of parameter settings that
    contains every exact branch value (lam = 0, -0., 2), values just either
    side of every switch (1e-10 for the power family / Manly, the np.isclose
    windows 1e-8 and 2 +/- 2.001e-5 for Yeo-Johnson), every bound, and the non
    default constructor options (mininu, minilam, base);
 2. the same on arrays of length 1 and 2, on strided (non contiguous) views,
    and with NaN entries mixed in (NaN in -> NaN out, neighbours untouched);
 3. outputs are fresh float64 arrays of the shape of the input, inputs are
    never modified, outputs never alias inputs or earlier outputs;
 4. forward agrees (loosely, 1e-5) with an independent formula, so that the
    round trip is not satisfied by some other bijection;
 5. CALL HISTORIES : the result of a call only depends on the current
    parameter values and on the argument, whatever happened before -
    parameters changed through every public route (get_transform kwargs,
    attribute, item, params[...], params.values = ..., in-place write into
    params.values, reset()), constants changed between calls, switches
    crossed back and forth, shapes changing from call to call, two live
    instances used alternately, backward called before any forward.

"relative accuracy" means |got-ref| <= 1e-6 * max(|ref|, floor) with floor
the natural scale of the variable (nu, xmax, 1/scale, width of the Logit
interval; 1 in transformed space).

Concessions made so that the UNMODIFIED library passes as well (both are
weaknesses of the pinned code, not of the rewrites):
  * power family with 1e-10 < |lam| < 1e-9 : tolerance 5e-6 (cancellation in
    (w**lam-1)/lam just above the switch);
  * Reciprocal is only exercised for x + nu < 1/mininu (backward returns NaN
    beyond).
Exit status 0 if all checks pass, 1 otherwise.
"""
import math
import sys
import warnings

import numpy as np

from hydrodiy.stat import transform
from hydrodiy.stat.transform import get_transform

warnings.simplefilter("ignore")
np.seterr(all="ignore")

RTOL = 1e-6
EPS = 1e-10
STATS = {"fail": 0, "check": 0, "case": 0}
WORST = {}
VERBOSE = "-v" in sys.argv


def fail(label, what, detail=""):
    STATS["fail"] += 1
    if STATS["fail"] <= 50:
        print(f"FAIL [{label}] {what} {detail}")


def close(label, what, got, ref, floor, rtol=RTOL):
    """ got == ref to relative accuracy rtol, got being a finite float64
    array of the shape of ref """
    STATS["check"] += 1
    ref = np.asarray(ref, dtype=np.float64)
    if not isinstance(got, np.ndarray):
        fail(label, what, f"type {type(got)}")
        return False
    if got.shape != ref.shape:
        fail(label, what, f"shape {got.shape} != {ref.shape}")
        return False
    if got.dtype != np.float64:
        fail(label, what, f"dtype {got.dtype}")
        return False
    if not np.all(np.isfinite(got)):
        k = np.argmin(np.isfinite(got).ravel())
        fail(label, what, f"not finite for ref={ref.ravel()[k]!r}")
        return False
    den = np.maximum(np.abs(ref), floor)
    num = np.abs(got - ref)
    err = np.where(den > 0, num / np.where(den > 0, den, 1.),
                   np.where(num > 0, np.inf, 0.))
    key = (label.split("(")[0], what.split(":")[0])
    big = float(np.max(err)) / rtol if err.size else 0.
    WORST[key] = max(WORST.get(key, 0.), big)
    if big > 1:
        k = int(np.argmax(err.ravel()))
        fail(label, what, f"err {err.ravel()[k]:.3e} ref={ref.ravel()[k]!r}"
             f" got={got.ravel()[k]!r}")
        return False
    return True


def same(label, what, got, ref):
    """ two calls with the same argument and the same parameter values must
    give the same numbers (1e-12: leaves room for nothing but noise) """
    return close(label, what, got, ref, 1e-300, 1e-12)


def signed_logspace(lo, hi, n):
    pos = np.logspace(lo, hi, n)
    return np.concatenate([-pos[::-1], [0.], pos])


# ------------------------------------------------------------------------
# independent reference formulas
# ------------------------------------------------------------------------
def ref_boxcox(w, lam):
    if abs(lam) <= EPS:
        return np.log(w)
    return np.expm1(lam * np.log(w)) / lam


def ref_yj(w, lam):
    y = np.zeros_like(w)
    p = w >= 0
    y[p] = ref_boxcox(w[p] + 1, lam if abs(lam) > 1e-8 else 0.)
    lam2 = 2 - lam
    y[~p] = -ref_boxcox(-w[~p] + 1, lam2 if abs(lam2) > 2.001e-5 else 0.)
    return y


# ------------------------------------------------------------------------
# construction of a configured transform through the public routes
# ------------------------------------------------------------------------
class Spec(object):
    def __init__(self, name, ctor=None, params=None, consts=None):
        self.name = name
        self.ctor = ctor or {}
        self.params = params or {}
        self.consts = consts or {}

    def build(self, route=0):
        if route == 0:
            kw = dict(self.ctor)
            kw.update(self.params)
            kw.update(self.consts)
            return get_transform(self.name, **kw)

        trans = getattr(transform, self.name)(**self.ctor)
        self.configure(trans, route)
        return trans

    def configure(self, trans, route):
        """ (re)configure an existing object """
        if route == 1:
            # attribute on the transform
            for k, v in self.consts.items():
                setattr(trans, k, v)
            for k, v in self.params.items():
                setattr(trans, k, v)
        elif route == 2:
            # item on the transform
            for k, v in list(self.consts.items()) + list(self.params.items()):
                trans[k] = v
        elif route == 3:
            # item on the vectors
            for k, v in self.consts.items():
                trans.constants[k] = v
            for k, v in self.params.items():
                trans.params[k] = v
        elif route == 4:
            # whole vector
            if self.consts:
                trans.constants.values = [self.consts[k] for k
                                          in trans.constants.names]
            if self.params:
                trans.params.values = [self.params[k] for k
                                       in trans.params.names]
        elif route == 5:
            # in place write in the value arrays
            for vect, dct in [(trans.constants, self.consts),
                              (trans.params, self.params)]:
                for i, k in enumerate(vect.names):
                    if str(k) in dct:
                        vect.values[i] = dct[str(k)]
        else:
            raise ValueError(route)


# ------------------------------------------------------------------------
# grid of cases : (label, spec, x, xfloor, yfloor, rtol, yref)
# ------------------------------------------------------------------------
def power_lams(minilam):
    lams = [0., -0., 0.5e-10, 0.99e-10, 1e-10, 1.01e-10, 2e-10, 5e-10,
            1e-9, 1e-7, 1e-5, 1e-2, 0.2, 0.5, 1., 1.5, 2., 3. - 1e-9, 3.]
    if minilam < 0:
        neg = [-0.5e-10, -1e-10, -1.01e-10, -2e-10, -1e-9, -1e-6, -1e-2,
               -0.5, -1., -2., -3.]
        lams += [v for v in neg if v >= minilam]
        lams.append(minilam)
    return lams


def power_w(lam):
    """ w = x + nu with |lam ln w| <= 13.8 (and |ln w| <= 13.8) """
    lim = 13.8 / max(abs(lam), 1.)
    ln = np.concatenate([np.linspace(-lim, lim, 61),
                         [-1e-3, 1e-3, -1e-7, 1e-7, 0.]])
    return np.sort(np.exp(ln))


def power_rtol(lam):
    return 5e-6 if EPS < abs(lam) < 1e-9 else RTOL


def cases():
    # Identity
    x = np.concatenate([signed_logspace(-300, 300, 25), [1., -1., 5e-324]])
    yield "Identity", Spec("Identity"), x, 0., 0., RTOL, x

    # Logit
    for lower in [-5., 0., 3.3, 1e4]:
        for logdelta in [-10., -2., 0., 0.5, 3., 10.]:
            delta = math.exp(logdelta)
            v = np.concatenate([np.logspace(-6, -0.31, 20),
                                1 - np.logspace(-6, -0.31, 20), [0.5]])
            x = lower + delta * v
            vv = (x - lower) / ((lower + delta) - lower)
            x = np.unique(x[(vv > 1e-7) & (vv < 1 - 1e-7)])
            vv = (x - lower) / ((lower + delta) - lower)
            yref = np.log(vv) - np.log1p(-vv)
            yield f"Logit(lower={lower},logdelta={logdelta})", \
                Spec("Logit", params=dict(lower=lower, logdelta=logdelta)), \
                x, max(abs(lower), delta), 1., RTOL, \
                yref if abs(lower) < 1e3 else None

    for logdelta in [-10., 0., 10.]:
        v = np.concatenate([np.logspace(-6, -0.31, 30),
                            1 - np.logspace(-6, -0.31, 30)])
        yield f"Logit-rel(logdelta={logdelta})", \
            Spec("Logit", params=dict(lower=0., logdelta=logdelta)), \
            math.exp(logdelta) * v, 0., 1., RTOL, None

    # Log (any base)
    for mininu in [EPS, 1e-3, 0.5]:
        for base in [None, 10., 10, 2., 2, math.e, 1.5, 0.5, 7, 1e-3, 1e6]:
            for nu in [mininu, 1., 1e4]:
                if nu < mininu:
                    continue
                x = np.logspace(-9, 9, 55) - nu
                x = x[x + nu > 0]
                bf = 1. if base is None else math.log(base)
                yield f"Log(mininu={mininu},base={base!r},nu={nu})", \
                    Spec("Log", dict(mininu=mininu, base=base),
                         dict(nu=nu)), \
                    x, nu, 1., RTOL, np.log(x + nu) / bf

    # Power family
    for mininu, minilam in [(EPS, 0.), (1e-3, -3.), (0.2, -1.)]:
        for nu in [mininu, 1e-2, 1., 50.]:
            if nu < mininu:
                continue
            for lam in power_lams(minilam):
                w = power_w(lam)
                x = w - nu
                x = x[x + nu > 0]
                yref = ref_boxcox(x + nu, lam)
                rt = power_rtol(lam)
                opts = dict(mininu=mininu, minilam=minilam)
                lab = f"(mininu={mininu},minilam={minilam}," \
                      f"nu={nu},lam={lam!r})"

                yield "BoxCox2" + lab, \
                    Spec("BoxCox2", opts, dict(nu=nu, lam=lam)), \
                    x, nu, 1., rt, yref
                yield "BoxCox1lam" + lab, \
                    Spec("BoxCox1lam", opts, dict(lam=lam), dict(nu=nu)), \
                    x, nu, 1., rt, yref
                yield "BoxCox1nu" + lab, \
                    Spec("BoxCox1nu", opts, dict(nu=nu), dict(lam=lam)), \
                    x, nu, 1., rt, yref

                if abs(lam * math.log(nu)) > 13.8:
                    continue
                xa = w - nu
                xa = xa[xa > 0]
                xs = np.concatenate([-xa[::-1], [0.], xa])
                y0 = ref_boxcox(np.array([0. + nu]), lam)[0]
                yrefs = np.sign(xs) * (ref_boxcox(np.abs(xs) + nu, lam) - y0)
                yield "BoxCox2sym" + lab, \
                    Spec("BoxCox2sym", opts, dict(nu=nu, lam=lam)), \
                    xs, nu, max(1., abs(y0)), rt, yrefs

    # Yeo-Johnson
    yj_lams = [-1., -0.5, -1e-3, -1.1e-8, -1e-8, -1e-10, 0., -0., 1e-10,
               1e-9, 1e-8, 1.1e-8, 1e-7, 1e-4, 0.3, 0.5, 1., 1.5, 1.7,
               2. - 1e-3, 2. - 3e-5, 2 - 2.1e-5, 2. - 2e-5, 2. - 1e-5,
               2. - 1e-8, 2., 2. + 1e-8, 2. + 1e-5, 2 + 2e-5, 2. + 2.1e-5,
               2. + 3e-5, 2.5, 3.]
    for nu in [-3., 0., 2.5]:
        for scale in [1e-5, 1., 100.]:
            for lam in yj_lams:
                epos = max(abs(lam), 1.)
                eneg = max(abs(2 - lam), 1.)
                lp = np.linspace(-13.8, 13.8 / epos, 25)
                ln = np.linspace(-13.8, 13.8 / eneg, 25)
                w = np.concatenate([-np.exp(ln)[::-1],
                                    [-1e-10, -1e-11, 0., 1e-11, 0.99e-10,
                                     1e-10, 1.01e-10, 1e-9],
                                    np.exp(lp)])
                x = (w - nu) / scale
                yref = ref_yj(nu + x * scale, lam)
                yield f"YeoJohnson(nu={nu},scale={scale},lam={lam!r})", \
                    Spec("YeoJohnson",
                         params=dict(nu=nu, scale=scale, lam=lam)), \
                    x, (abs(nu) + 1) / scale, 1., RTOL, yref

    # Reciprocal
    for mininu in [EPS, 1e-3, 0.1]:
        for nu in [mininu, 1., 30.]:
            if nu < mininu:
                continue
            hi = min(8., math.log10(0.5 / mininu))
            x = np.logspace(-8, hi, 50) - nu
            x = x[(x + nu > 0) & (x + nu < 0.9 / mininu)]
            yield f"Reciprocal(mininu={mininu},nu={nu})", \
                Spec("Reciprocal", dict(mininu=mininu), dict(nu=nu)), \
                x, nu, 0., RTOL, -1. / (x + nu)

    # Sinh
    for nu in [-3., 0., 1e3]:
        for scale in [1e-10, 1e-3, 1., 1e3]:
            x = nu + signed_logspace(-8, 6, 40) / scale
            yield f"Sinh(nu={nu},scale={scale})", \
                Spec("Sinh", params=dict(nu=nu, scale=scale)), \
                x, abs(nu) + 1. / scale, 1., RTOL, \
                np.arcsinh((x - nu) * scale)

    # LogSinh : a + b x/xmax >= 1e-4
    for xmax in [EPS, 1., 1e4]:
        for loga in [-20., -9.3, -9.2, -3., -1., 0.]:
            for logb in [-5., -1., 0., 2., 5.]:
                a = math.exp(loga)
                b = math.exp(logb)
                w = np.concatenate([np.logspace(-4, math.log10(500.), 40),
                                    [19.9, 20., 20.1],
                                    [a] if a >= 1e-4 else []])
                w = w[w >= max(a, 1e-4)]
                x = np.unique(xmax * (w - a) / b)
                ww = a + b * (x / xmax)
                x = x[ww >= 1e-4]
                ww = ww[ww >= 1e-4]
                yref = np.log(np.sinh(np.minimum(ww, 700.))) / b
                yield f"LogSinh(xmax={xmax},loga={loga},logb={logb})", \
                    Spec("LogSinh", params=dict(loga=loga, logb=logb),
                         consts=dict(xmax=xmax)), \
                    x, xmax * max(a, 1e-4) / b, 1. / b, RTOL, yref

    # Manly : |lam| >= 1e-3 or lam = 0 (plus the switch itself)
    for xmax in [EPS, 1., 1e3]:
        for lam in [0., -0., 1e-11, -1e-11, 1e-10, -1e-10, 1e-3, -1e-3,
                    1e-2, -1e-2, 0.1, -0.1, 1., -1., 5., -5.]:
            lim = 13.8 / max(abs(lam), 1.)
            u = np.unique(np.concatenate([np.linspace(-lim, lim, 41),
                                          signed_logspace(-6, -1, 6)]))
            x = u * xmax
            uu = x / xmax
            yref = np.expm1(lam * uu) / lam if abs(lam) > EPS else uu
            yield f"Manly(xmax={xmax},lam={lam!r})", \
                Spec("Manly", params=dict(lam=lam), consts=dict(xmax=xmax)), \
                x, xmax, 1., RTOL, yref


# ------------------------------------------------------------------------
# checks for the element-wise (1-D) transforms
# ------------------------------------------------------------------------
def run_case(label, spec, x, xfloor, yfloor, rtol, yref, icase):
    x = np.ascontiguousarray(x, dtype=np.float64)
    n = len(x)
    trans = spec.build(0)
    x0 = x.copy()

    # round trip x -> y -> x
    y = trans.forward(x)
    if not np.array_equal(x, x0):
        fail(label, "forward modified its argument")
    if not close(label, "0: forward output", y, y, 1.):
        return
    if np.shares_memory(y, x):
        fail(label, "forward output aliases its argument")
    y0 = y.copy()
    xb = trans.backward(y)
    if not np.array_equal(y, y0):
        fail(label, "backward modified its argument")
    if isinstance(xb, np.ndarray) and np.shares_memory(xb, y):
        fail(label, "backward output aliases its argument")
    close(label, "A: backward(forward(x))", xb, x, xfloor, rtol)

    # round trip y -> x -> y
    y2 = trans.forward(xb)
    close(label, "B: forward(backward(y))", y2, y, yfloor, rtol)

    # earlier results must not have been overwritten by later calls
    if not np.array_equal(y, y0):
        fail(label, "H: result of forward changed after later calls")
    xb0 = xb.copy()
    trans.backward(y[::-1].copy())
    trans.forward(x[::-1].copy())
    if not (np.array_equal(xb, xb0) and np.array_equal(y, y0)):
        fail(label, "H: earlier results overwritten by same-shape calls")

    # documented mapping
    if yref is not None:
        close(label, "F: forward vs reference", y, yref,
              max(yfloor, 1e-300), max(10 * rtol, 1e-5))

    # lengths 1 and 2 - shapes change from call to call
    for sl in [slice(0, 1), slice(0, 2), slice(n - 1, n), slice(n - 2, n),
               slice(n // 2, n // 2 + 1)]:
        xs = x[sl].copy()
        ys = trans.forward(xs)
        if close(label, f"C: short forward {sl}", ys, y[sl], yfloor, rtol):
            close(label, f"C: short round trip {sl}", trans.backward(ys),
                  xs, xfloor, rtol)

    # strided views
    xv = x[::2]
    yv = trans.forward(xv)
    if close(label, "S: strided forward", yv, y[::2], yfloor, rtol):
        close(label, "S: strided round trip", trans.backward(y[::2]),
              xv, xfloor, rtol)
    xr = x[::-1]
    close(label, "S: reversed view round trip",
          trans.backward(trans.forward(xr)), xr, xfloor, rtol)

    # NaN propagation
    xn = x.copy()
    pos = [0, n // 3, n - 1]
    xn[pos] = np.nan
    good = np.ones(n, dtype=bool)
    good[pos] = False
    yn = trans.forward(xn)
    if not isinstance(yn, np.ndarray) or yn.shape != x.shape \
            or not np.all(np.isnan(yn[pos])):
        fail(label, "D: NaN not propagated by forward")
    else:
        close(label, "D: forward beside NaN", yn[good], y[good], yfloor,
              rtol)
        xbn = trans.backward(yn)
        if not np.all(np.isnan(xbn[pos])):
            fail(label, "D: NaN not propagated by backward")
        close(label, "D: round trip beside NaN", xbn[good], x[good],
              xfloor, rtol)
    xa = np.full(2, np.nan)
    if not (np.all(np.isnan(trans.forward(xa)))
            and np.all(np.isnan(trans.backward(xa)))):
        fail(label, "D: all-NaN argument")

    # after all that, same answer as the first call
    same(label, "H: forward repeatable", trans.forward(x), y0)
    same(label, "H: backward repeatable", trans.backward(y0), xb0)

    # every route of configuration, backward first on the fresh object
    routes = [1, 2, 3, 4, 5]
    if icase % 3:
        # subsample (rotating) to keep the run time reasonable
        routes = [1 + (icase % 5)]
    for route in routes:
        fresh = spec.build(route)
        same(label, f"G: fresh backward route {route}", fresh.backward(y0),
             xb0)
        same(label, f"G: fresh forward route {route}", fresh.forward(x), y0)


# ------------------------------------------------------------------------
# call histories : one object dragged through many configurations
# ------------------------------------------------------------------------
def run_histories(allcases):
    """ For each class, ONE object is reconfigured successively to the
    settings of several grid cases (rotating the configuration route), in
    an order that jumps back and forth. Results must equal those of a fresh
    object. A second object of the same class is used alternately. """
    rng = np.random.default_rng(1234)
    byclass = {}
    for case in allcases:
        spec = case[1]
        key = (spec.name, tuple(sorted(spec.ctor.items(), key=str)))
        byclass.setdefault(key, []).append(case)

    for key, lst in byclass.items():
        if key[0] == "Identity":
            continue
        spec0 = lst[0][1]
        objA = getattr(transform, spec0.name)(**spec0.ctor)
        objB = getattr(transform, spec0.name)(**spec0.ctor)
        order = rng.permutation(len(lst))
        if len(order) > 40:
            order = order[:40]
        # visit some settings twice (a -> b -> a)
        order = np.concatenate([order, order[:5][::-1]])
        prev = None
        for step, k in enumerate(order):
            label, spec, x, xfloor, yfloor, rtol, yref = lst[k]
            label = "hist:" + label
            x = np.ascontiguousarray(x, dtype=np.float64)
            fresh = spec.build(0)
            yf = fresh.forward(x)
            xf = fresh.backward(yf)

            route = 1 + step % 5
            spec.configure(objA, route)
            if step % 4 == 0:
                # backward first
                same(label, f"H: reused backward r{route}",
                     objA.backward(yf), xf)
                same(label, f"H: reused forward r{route}",
                     objA.forward(x), yf)
            else:
                same(label, f"H: reused forward r{route}",
                     objA.forward(x), yf)
                same(label, f"H: reused backward r{route}",
                     objA.backward(yf), xf)
            close(label, "A: reused round trip",
                  objA.backward(objA.forward(x)), x, xfloor, rtol)

            # the other object keeps the previous setting and is used
            # in between
            if prev is not None:
                plabel, px, pyf, pxf = prev
                same(plabel, "H: other object forward", objB.forward(px),
                     pyf)
                same(plabel, "H: other object backward", objB.backward(pyf),
                     pxf)
                same(label, "H: reused forward after other object",
                     objA.forward(x), yf)
            spec.configure(objB, 1 + (step + 2) % 5)
            prev = (label, x, yf, xf)

            # reset() brings the default parameters back; then re-apply
            if step % 7 == 3:
                objA.reset()
                dflt = getattr(transform, spec0.name)(**spec0.ctor)
                if not np.array_equal(objA.params.values,
                                      dflt.params.values):
                    fail(label, "H: reset() did not restore defaults")
                spec.configure(objA, route)
                same(label, "H: forward after reset + configure",
                     objA.forward(x), yf)


def run_switch_walk():
    """ a single object walked across the branch switches, both ways """
    xs = np.array([-4., -0.5, 0., 0.25, 9.])
    xp = np.array([1e-3, 0.5, 1., 3., 2e3])
    lams = [0., 1e-10, 1.01e-10, 0.5, 0.99e-10, -0., 2e-10, 1., 2., 3.,
            1e-10, 0., 0.5, 0.5, 1.01e-10, 0.]
    for name, x, kw in [("BoxCox2", xp, dict(nu=0.1)),
                        ("BoxCox2sym", xs, dict(nu=1.)),
                        ("BoxCox1lam", xp, dict(nu=0.1))]:
        tr = get_transform(name, **kw)
        for i, lam in enumerate(lams):
            if i % 3 == 0:
                tr.lam = lam
            elif i % 3 == 1:
                tr.params["lam"] = lam
            else:
                tr.params.values[list(tr.params.names).index("lam")] = lam
            fresh = get_transform(name, lam=lam, **kw)
            y = tr.forward(x)
            same(f"walk:{name}", f"W: lam={lam!r} vs fresh", y,
                 fresh.forward(x))
            close(f"walk:{name}", f"W: lam={lam!r}", tr.backward(y), x,
                  1., power_rtol(lam))

    tr = get_transform("BoxCox1nu", nu=0.1)
    for lam in lams:
        tr.constants["lam"] = lam
        y = tr.forward(xp)
        same("walk:BoxCox1nu", f"W: lam={lam!r} vs fresh", y,
             get_transform("BoxCox1nu", nu=0.1, lam=lam).forward(xp))
        close("walk:BoxCox1nu", f"W: lam={lam!r}", tr.backward(y), xp,
              1., power_rtol(lam))

    tr = get_transform("YeoJohnson")
    for lam in [2., 0., 1., 2. + 1e-5, 1e-9, 2., 1.1e-8, 1e-8, 0., 2 + 3e-5,
                2 - 3e-5, 2., -1., 3., 0.5, 1.5]:
        tr.lam = lam
        y = tr.forward(xs)
        same("walk:YeoJohnson", f"W: lam={lam!r} vs fresh", y,
             get_transform("YeoJohnson", lam=lam).forward(xs))
        close("walk:YeoJohnson", f"W: lam={lam!r}", tr.backward(y), xs, 1.)

    tr = get_transform("Manly", xmax=2.)
    xm = np.array([-3., -0.1, 0., 0.2, 4.])
    for lam in [0., 1e-3, 1e-10, -1e-10, -1e-3, 5., 0., -5., 1e-11, 1.]:
        tr.lam = lam
        y = tr.forward(xm)
        same("walk:Manly", f"W: lam={lam!r} vs fresh", y,
             get_transform("Manly", xmax=2., lam=lam).forward(xm))
        close("walk:Manly", f"W: lam={lam!r}", tr.backward(y), xm, 2.)
        # constant changed between forward and backward pairs
        tr.xmax = 7.
        y7 = tr.forward(xm)
        close("walk:Manly", f"W: lam={lam!r} xmax=7", tr.backward(y7), xm,
              7.)
        tr.xmax = 2.
        same("walk:Manly", f"W: lam={lam!r} xmax back to 2", tr.forward(xm),
             y)

    # Log objects with different bases alive together
    logs = {b: get_transform("Log", base=b, nu=0.5)
            for b in [None, 2, 10, 3., 0.5]}
    xl = np.array([1e-6, 0.5, 1., 7., 1023.5, 1e9])
    for _ in range(2):
        for b, tr in logs.items():
            bf = 1. if b is None else math.log(b)
            y = tr.forward(xl)
            close("walk:Log", f"W: base={b}", y, np.log(xl + 0.5) / bf, 1.)
            close("walk:Log", f"W: base={b} rt", tr.backward(y), xl, 0.5)

    # exact powers of the base come back (to 1e-6)
    for b in [2, 10]:
        tr = get_transform("Log", base=b, nu=EPS)
        k = np.arange(-3., 9.)
        xk = float(b)**k - EPS
        close("walk:Log", f"W: base={b} powers", tr.forward(xk), k, 1.)
        close("walk:Log", f"W: base={b} powers rt",
              tr.backward(tr.forward(xk)), xk, EPS)

    # LogSinh and Logit : parameters moved between calls
    tr = get_transform("LogSinh", xmax=10.)
    tl = get_transform("Logit")
    xq = np.array([0.01, 0.5, 3., 9., 10., 300.])
    vq = np.array([1e-5, 0.1, 0.5, 0.9, 1 - 1e-5])
    for loga, logb in [(-1., 0.), (-20., 5.), (0., -5.), (-1., 0.),
                       (-3., 2.), (-1., 0.)]:
        tr.params.values = [loga, logb]
        y = tr.forward(xq)
        same("walk:LogSinh", f"W: {loga},{logb} vs fresh", y,
             get_transform("LogSinh", xmax=10., loga=loga,
                           logb=logb).forward(xq))
        close("walk:LogSinh", f"W: {loga},{logb}", tr.backward(y), xq,
              10. * max(math.exp(loga), 1e-4) / math.exp(logb))

        tl.lower = loga
        tl.logdelta = logb
        xx = loga + math.exp(logb) * vq
        y = tl.forward(xx)
        same("walk:Logit", f"W: {loga},{logb} vs fresh", y,
             get_transform("Logit", lower=loga, logdelta=logb).forward(xx))
        close("walk:Logit", f"W: {loga},{logb}", tl.backward(y), xx,
              max(abs(loga), math.exp(logb)))


# ------------------------------------------------------------------------
# Softmax : 2-D, rows with positive entries summing below 1
# ------------------------------------------------------------------------
def softmax_cases():
    rng = np.random.default_rng(5446)
    for nrow, ncol in [(1, 1), (1, 2), (2, 1), (2, 2), (1, 7), (5, 3),
                       (40, 4), (3, 50), (2, 300)]:
        for total in [1e-12, 1e-3, 0.5, 0.99, 1 - 1e-6, 1 - 1e-8]:
            u = rng.uniform(0.05, 1., size=(nrow, ncol))
            x = u / u.sum(axis=1)[:, None] * total
            if ncol > 2:
                x[:, 0] *= 1e-9
            if np.any(x.sum(axis=1) > 1 - 2e-10):
                continue
            yield f"Softmax({nrow}x{ncol},sum={total})", x

    yield "Softmax(ties)", np.full((3, 4), 0.2)
    yield "Softmax(ties-small)", np.full((2, 5), 1e-300)
    yield "Softmax(limit)", np.array([[0.5, 0.5 - 1e-9], [0.25, 0.25]])


def run_softmax(label, x, trans):
    x0 = x.copy()
    y = trans.forward(x)
    if not np.array_equal(x, x0):
        fail(label, "forward modified its argument")
    if not close(label, "0: forward output", y, y, 1.):
        return
    yref = np.log(x) - np.log1p(-np.sum(x, axis=1))[:, None]
    close(label, "F: forward vs reference", y, yref, 1., 1e-5)
    y0 = y.copy()
    xb = trans.backward(y)
    if not np.array_equal(y, y0):
        fail(label, "backward modified its argument")
    close(label, "A: backward(forward(x))", xb, x, 0., RTOL)
    close(label, "B: forward(backward(y))", trans.forward(xb), y, 1., RTOL)
    if np.any(np.sum(xb, axis=1) >= 1) or np.any(xb <= 0):
        fail(label, "backward left the open simplex")
    if not np.array_equal(y, y0):
        fail(label, "H: earlier result overwritten")

    # single rows, Fortran order, strided views give the same
    for i in [0, x.shape[0] - 1]:
        yi = trans.forward(x[i:i + 1])
        if close(label, "C: single row", yi, y[i:i + 1], 1., RTOL):
            close(label, "C: single row round trip", trans.backward(yi),
                  x[i:i + 1], 0., RTOL)
    xf = np.asfortranarray(x)
    close(label, "S: fortran order", trans.forward(xf), y, 1., RTOL)
    close(label, "S: fortran order backward",
          trans.backward(np.asfortranarray(y)), x, 0., RTOL)
    wide = np.zeros((x.shape[0], 2 * x.shape[1]))
    wide[:, ::2] = x
    close(label, "S: strided view", trans.forward(wide[:, ::2]), y, 1.,
          RTOL)


def run_softmax_from_y(trans):
    rng = np.random.default_rng(90)
    for nrow, ncol in [(1, 1), (1, 2), (6, 3), (4, 30)]:
        for loc, sc in [(0., 1.), (-20., 5.), (5., 3.), (-200., 50.)]:
            y = rng.normal(loc, sc, size=(nrow, ncol))
            y = np.minimum(y, 18. - math.log(ncol))
            x = trans.backward(y)
            label = f"Softmax-y({nrow}x{ncol},loc={loc})"
            if not close(label, "0: backward output", x, x, 1.):
                continue
            if np.any(x <= 0) and loc > -100:
                fail(label, "backward not positive")
            if np.any(x <= 0):
                continue
            close(label, "B: forward(backward(y))", trans.forward(x), y,
                  1., RTOL)


# ------------------------------------------------------------------------
def misc_checks():
    expected = {"Identity", "Logit", "Log", "BoxCox2", "BoxCox1lam",
                "BoxCox1nu", "BoxCox2sym", "YeoJohnson", "Reciprocal",
                "Softmax", "Sinh", "LogSinh", "Manly"}
    if set(transform.__all__) != expected:
        fail("catalogue", f"__all__ = {transform.__all__}")
    for nm in expected:
        tr = get_transform(nm)
        if not isinstance(tr, getattr(transform, nm)) or tr.name != nm:
            fail("catalogue", f"get_transform({nm})")

    # Identity returns an equal but distinct array
    tr = get_transform("Identity")
    x = np.array([1., -2., 3.])
    y = tr.forward(x)
    y[0] = 99.
    z = tr.backward(x)
    z[1] = 99.
    if not np.array_equal(x, [1., -2., 3.]):
        fail("Identity", "output aliases input")

    # in-bounds values are stored exactly, whatever the route
    for name, key, vals in [("BoxCox2", "lam", [0., 1e-10, 2e-10, 3., 0.7]),
                            ("BoxCox2", "nu", [EPS, 1e-3, 1e300]),
                            ("BoxCox2sym", "lam", [0., 3., 1.01e-10]),
                            ("YeoJohnson", "lam", [-1., 0., 2., 3., 2.5]),
                            ("YeoJohnson", "scale", [1e-5, 1., 1e10]),
                            ("Manly", "lam", [-5., 0., 5., 1e-3]),
                            ("Manly", "xmax", [EPS, 1., 1e10]),
                            ("LogSinh", "loga", [-20., 0., -1.]),
                            ("LogSinh", "logb", [-5., 5., 0.]),
                            ("LogSinh", "xmax", [EPS, 3.]),
                            ("BoxCox1lam", "nu", [EPS, 0.1, 1e5]),
                            ("BoxCox1nu", "lam", [0., 3., 0.25]),
                            ("Logit", "logdelta", [-10., 10., 0.]),
                            ("Sinh", "scale", [1e-10, 1., 1e8]),
                            ("Reciprocal", "nu", [EPS, 2.]),
                            ("Log", "nu", [EPS, 2.])]:
        for v in vals:
            t1 = get_transform(name, **{key: v})
            t2 = get_transform(name)
            setattr(t2, key, v)
            t3 = get_transform(name)
            t3[key] = v
            for tr in [t1, t2, t3]:
                vect = tr.params if key in tr.params.names else tr.constants
                idx = list(vect.names).index(key)
                if not (tr[key] == v and getattr(tr, key) == v
                        and vect[key] == v and vect.values[idx] == v):
                    fail("store", f"{name}.{key}={v!r} read {tr[key]!r}")

    # errors (any exception class, any text)
    tr = get_transform("Softmax")
    for bad in [np.array([[-0.1, 0.2]]), np.array([[0.6, 0.5]]),
                np.array([[0.2, 0.2], [0.5, 0.5]])]:
        try:
            tr.forward(bad)
        except Exception:
            pass
        else:
            fail("softmax-domain", f"no error for {bad.tolist()}")
    try:
        get_transform("NotATransform")
    except Exception:
        pass
    else:
        fail("catalogue", "unknown name accepted")
    for name in ["BoxCox1lam", "BoxCox1nu", "LogSinh", "Manly"]:
        tr = get_transform(name)
        for fun in [tr.forward, tr.backward]:
            try:
                fun(np.array([1., 2.]))
            except Exception:
                pass
            else:
                fail("unset-constant", f"{name}: no error raised")
        # ... and the object is usable once the constant is supplied
        cname = str(tr.constants.names[0])
        tr[cname] = 1.
        x = np.array([0.5, 2.])
        close("unset-constant", f"A: {name} usable afterwards",
              tr.backward(tr.forward(x)), x, 1.)


def main():
    allcases = list(cases())
    for icase, case in enumerate(allcases):
        run_case(*case, icase)
        STATS["case"] += 1

    run_histories(allcases)
    run_switch_walk()

    # one Softmax object for all cases (shapes change all the time) and a
    # fresh one per case
    shared = get_transform("Softmax")
    for label, x in softmax_cases():
        run_softmax(label, x, shared)
        run_softmax(label + "/fresh", x, transform.Softmax())
        STATS["case"] += 1
    run_softmax_from_y(shared)

    misc_checks()

    if VERBOSE:
        print("worst error / tolerance per transform and check:")
        for key in sorted(WORST):
            print(f"  {key[0]:22s} {key[1]:2s} {WORST[key]:.3e}")

    print(f"{STATS['case']} cases, {STATS['check']} comparisons, "
          f"{STATS['fail']} failures")
    if STATS["fail"] > 0:
        print("DEMO FAILED")
        return 1
    print("DEMO OK")
    return 0


if __name__ == "__main__":
    sys.exit(main())
