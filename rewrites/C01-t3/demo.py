#!/usr/bin/env python
""" C01 demo: every data transform is invertible on its domain.

Run as
    PYTHONPATH=<tree>/src /venv/bin/python demo.py

Exits 0 when backward(forward(x)) == x and forward(backward(y)) == y hold
to a relative accuracy of 1e-6 (plus a tiny absolute floor for targets
close to zero) for all 13 transforms, on parameter / constant vectors
inside the declared bounds (branch values included), with default and
non default constructor options, on float64 arrays that stay inside the
conditioning region stated by the property.
"""
import sys
import math
import itertools
import warnings

import numpy as np

from hydrodiy.stat import transform
from hydrodiy.data.containers import Vector

warnings.simplefilter("ignore")
np.seterr(all="ignore")

RTOL = 1e-6
# just above the 1e-10 switch of the power family the formula
# (u^lam-1)/lam amplifies the half ulp error of pow by 1/lam ~ 1e10, i.e.
# the mapping is NOT well conditioned there: a looser tolerance is used
RTOL_EDGE = 5e-6
EPS = 1e-10

NCHECK = 0
FAILURES = []


def fail(label, detail):
    FAILURES.append(f"{label}: {detail}")
    if len(FAILURES) <= 20:
        print("FAIL", label, detail)


def check(cond, label, detail=""):
    global NCHECK
    NCHECK += 1
    if not cond:
        fail(label, detail)


def close(got, ref, rtol=RTOL, atol=1e-12):
    """ relative closeness with nan == nan, shapes must agree """
    got = np.asarray(got, dtype=np.float64)
    ref = np.asarray(ref, dtype=np.float64)
    if got.shape != ref.shape:
        return False, f"shape {got.shape} != {ref.shape}"
    ng, nr = np.isnan(got), np.isnan(ref)
    if not np.array_equal(ng, nr):
        return False, f"nan pattern differ got={got} ref={ref}"
    ok = ~nr
    if not ok.any():
        return True, ""
    # exact equality covers infinities and zeros
    same = got[ok] == ref[ok]
    with np.errstate(all="ignore"):
        err = np.abs(got[ok] - ref[ok])
        good = same | (err <= rtol * np.abs(ref[ok]) + atol)
    if good.all():
        return True, ""
    k = int(np.argmin(good))
    return False, f"got {got[ok][k]!r} expected {ref[ok][k]!r}"


def variants(x):
    """ the same float64 content presented through several 1-D layouts
    (all of them are float64 ndarrays) """
    x = np.ascontiguousarray(x, dtype=np.float64)
    out = [("plain", x.copy())]
    if x.ndim == 1:
        big = np.empty(2 * x.shape[0] + 1)
        big[:] = -77.
        big[1::2] = x
        out.append(("strided", big[1::2]))
        out.append(("reversed", x[::-1].copy()[::-1]))
    else:
        out.append(("fortran", np.asfortranarray(x)))
    ro = x.copy()
    ro.setflags(write=False)
    out.append(("readonly", ro))
    return out


def roundtrip(label, trans, x, rtol=RTOL, layouts=True):
    """ check backward(forward(x)) = x and forward(backward(y)) = y """
    x = np.asarray(x, dtype=np.float64)
    ref_y = None
    for vname, xv in (variants(x) if layouts else [("plain", x.copy())]):
        before = xv.copy()
        y = trans.forward(xv)
        lab = f"{label}/{vname}"
        check(isinstance(y, np.ndarray) and y.dtype == np.float64, lab,
              f"forward returned {type(y)}")
        check(np.array_equal(xv, before, equal_nan=True), lab,
              "forward modified its input")
        check(np.all(np.isfinite(y) | ~np.isfinite(x).reshape(y.shape)), lab,
              f"forward not finite inside domain: x={x} y={y}")
        xx = trans.backward(y)
        check(isinstance(xx, np.ndarray) and xx.dtype == np.float64, lab,
              f"backward returned {type(xx)}")
        ok, detail = close(np.reshape(xx, x.shape), x, rtol)
        check(ok, lab + " b(f(x))=x", detail)
        yy = trans.forward(xx)
        ok, detail = close(yy, y, rtol)
        check(ok, lab + " f(b(y))=y", detail)
        # same content, other layout -> same numbers
        if ref_y is None:
            ref_y = np.array(y)
        else:
            ok, detail = close(y, ref_y, 1e-13)
            check(ok, lab + " layout independent", detail)
        # calling again gives the same answer (no hidden state drift)
        y2 = trans.forward(xv)
        check(np.array_equal(y, y2, equal_nan=True), lab,
              "second call differs")
        check(y2 is not y, lab, "same object returned twice")


def sizes(x):
    """ full array plus lengths 1 and 2 """
    x = np.asarray(x, dtype=np.float64)
    yield "all", x
    if x.shape[0] >= 1:
        yield "len1", x[:1].copy()
        yield "len1b", x[-1:].copy()
    if x.shape[0] >= 2:
        yield "len2", x[:2].copy()
        mid = x.shape[0] // 2
        yield "len2b", x[mid:mid + 2].copy()


def roundtrip_sizes(label, trans, x, rtol=RTOL):
    """ round trip on the whole array (all layouts) and on sub arrays of
    length 1 and 2 """
    for sn, xs in sizes(x):
        roundtrip(f"{label}/{sn}", trans, xs, rtol, layouts=(sn == "all"))


def with_nan(x):
    x = np.array(x, dtype=np.float64)
    if x.shape[0] > 2:
        x = np.insert(x, 1, np.nan)
    return x


LOGGRID = np.concatenate([np.logspace(-6, 6, 25), [1., 2., 0.5, 1e-3, 13.7]])


# ---------------------------------------------------------------------
def demo_identity():
    trans = transform.Identity()
    x = np.array([-1e300, -5.5, -1., -0., 0., 5e-324, 1e-300, 1., 3.,
                  1e300, np.inf, -np.inf])
    roundtrip_sizes(f"Identity", trans, x)
    roundtrip("Identity/nan", trans, with_nan(x))
    trans = transform.get_transform("Identity")
    roundtrip("Identity/get", trans, x)


def demo_logit():
    vgrid = np.array([1e-3, 0.01, 0.1, 0.25, 0.5, 0.5000001, 0.75, 0.9,
                      0.99, 0.999])
    for lower, logdelta in itertools.product([-10., 0., 3.5, 1e3],
                                             [-10., -2., 0., 3., 10.]):
        for how in range(3):
            trans = transform.Logit()
            if how == 0:
                trans.params.values = [lower, logdelta]
            elif how == 1:
                trans.lower = lower
                trans.logdelta = logdelta
            else:
                trans = transform.get_transform("Logit", lower=lower,
                                                logdelta=logdelta)
            delta = math.exp(logdelta)
            x = lower + delta * vgrid
            # keep x where (x-lower)/delta is still well inside (0, 1)
            v = (x - lower) / delta
            x = x[(v > 5e-4) & (v < 1 - 5e-4)]
            lab = f"Logit[{lower},{logdelta},{how}]"
            roundtrip_sizes(f"{lab}", trans, x)
        roundtrip(lab + "/nan", trans, with_nan(x))
        # y grid: forward(backward(y)) = y
        if abs(lower) <= 10 and logdelta >= -2:
            y = np.array([-6., -1., -1e-3, 0., 1e-3, 0.3, 2., 6.])
            ok, detail = close(trans.forward(trans.backward(y)), y)
            check(ok, lab + " ygrid", detail)


def demo_log():
    for mininu, base in itertools.product([None, 0., 0.5, 3.],
                                          [None, 2, 10, math.e, 0.5, 1.5,
                                           1e-3, 1e6]):
        kw = {}
        if mininu is not None:
            kw["mininu"] = mininu
        if base is not None:
            kw["base"] = base
        m = EPS if mininu is None else mininu
        for nu in [m, m + 1e-3, 1., 100.]:
            if nu < m:
                continue
            for how in range(2):
                if how == 0:
                    trans = transform.Log(**kw)
                    trans.nu = nu
                else:
                    trans = transform.get_transform("Log", nu=nu, **kw)
                check(trans.nu == nu, "Log nu stored", f"{trans.nu} {nu}")
                x = LOGGRID[LOGGRID >= 1e-3 * nu]
                if nu > 0:
                    x = np.concatenate([x, [-nu / 2, -nu * 0.9]])
                lab = f"Log[{mininu},{base},{nu},{how}]"
                roundtrip_sizes(f"{lab}", trans, x)
            roundtrip(lab + "/nan", trans, with_nan(x))
            y = np.array([-5., -1., -1e-2, 0., 0.5, 3.])
            if nu <= 1e-3 and base is None:
                ok, detail = close(trans.forward(trans.backward(y)), y)
                check(ok, lab + " ygrid", detail)


LAMS = [-3., -1., -0.5, -1e-3, -2e-10, -1e-10, -1e-11, -0., 0., 1e-11,
        5e-11, 1e-10, 1.0000001e-10, 2e-10, 1e-9, 1e-8, 1e-3, 0.2, 0.5,
        1., 1.5, 2., 3.]


def lam_rtol(lam):
    return RTOL_EDGE if EPS < abs(lam) < 1e-9 else RTOL


def power_domain(nu, lam):
    """ x with x+nu > 0, |lam ln(x+nu)| <= 13.8, x not tiny against nu """
    x = LOGGRID[LOGGRID >= 1e-3 * nu]
    if nu > 0:
        x = np.concatenate([x, [-nu / 2]])
    if EPS < abs(lam) < 1e-6:
        # tiny exponents on the power branch amplify rounding errors by
        # 1/lam : do not add the cancellation of (x+nu)-nu on top
        x = x[x >= nu]
    u = x + nu
    return x[np.abs(lam * np.log(u)) <= 13.8]


def demo_boxcox():
    options = [({}, EPS, 0.), ({"mininu": 0., "minilam": -1.}, 0., -1.),
               ({"mininu": 0.1, "minilam": -3.}, 0.1, -3.),
               ({"mininu": 2.}, 2., 0.)]
    for kw, mininu, minilam in options:
        for nu in [mininu, mininu + 1e-2, 1., 10.]:
            if nu < mininu or nu <= 0:
                continue
            for lam in LAMS:
                if lam < minilam:
                    continue
                x = power_domain(nu, lam)
                if x.shape[0] == 0:
                    continue
                rtol = lam_rtol(lam)
                tag = f"[{kw},{nu},{lam}]"

                # BoxCox2, three ways of setting the parameters
                for how in range(3):
                    if how == 0:
                        trans = transform.BoxCox2(**kw)
                        trans.params.values = [nu, lam]
                    elif how == 1:
                        trans = transform.BoxCox2(**kw)
                        trans["nu"] = nu
                        trans.params["lam"] = lam
                    else:
                        trans = transform.get_transform("BoxCox2", nu=nu,
                                                        lam=lam, **kw)
                    check(trans.nu == nu and trans.lam == lam,
                          "BoxCox2 params stored" + tag)
                    roundtrip_sizes(f"BoxCox2{tag}{how}", trans, x, rtol)
                roundtrip(f"BoxCox2{tag}/nan", trans, with_nan(x), rtol)
                ybc2 = trans.forward(x)

                # BoxCox1lam : nu is a constant
                trans = transform.BoxCox1lam(**kw)
                trans.constants.values = [nu]
                trans.lam = lam
                roundtrip_sizes(f"BoxCox1lam{tag}", trans, x, rtol)
                ok, detail = close(trans.forward(x), ybc2, 1e-13)
                check(ok, "BoxCox1lam == BoxCox2" + tag, detail)
                trans = transform.get_transform("BoxCox1lam", nu=nu,
                                                lam=lam, **kw)
                roundtrip(f"BoxCox1lam{tag}/get", trans, x, rtol)

                # BoxCox1nu : lam is a constant
                trans = transform.BoxCox1nu(**kw)
                trans.lam = lam
                trans.params.values = nu
                roundtrip_sizes(f"BoxCox1nu{tag}", trans, x, rtol)
                ok, detail = close(trans.forward(x), ybc2, 1e-13)
                check(ok, "BoxCox1nu == BoxCox2" + tag, detail)
                trans = transform.get_transform("BoxCox1nu", nu=nu,
                                                lam=lam, **kw)
                roundtrip(f"BoxCox1nu{tag}/get", trans, x, rtol)

                # BoxCox2sym : both signs
                xp = x[x >= 1e-3 * nu]
                # |x|+nu must be in the conditioning region as well as nu
                if abs(lam * math.log(nu)) > 13.8 or xp.shape[0] == 0:
                    continue
                xs_ = np.concatenate([-xp[::-1], xp])
                trans = transform.BoxCox2sym(**kw)
                trans.params.values = [nu, lam]
                roundtrip_sizes(f"BoxCox2sym{tag}", trans, xs_, rtol)
                roundtrip(f"BoxCox2sym{tag}/nan", trans, with_nan(xs_), rtol)

    # interleaving two transforms does not leak state between them
    t1 = transform.BoxCox1lam()
    t1.nu = 0.5
    t1.lam = 0.3
    t2 = transform.BoxCox1lam()
    t2.nu = 2.
    t2.lam = 0.
    x = np.array([0.1, 1., 7.])
    y1, y2 = t1.forward(x), t2.forward(x)
    check(np.array_equal(t1.forward(x), y1) and
          np.array_equal(t2.forward(x), y2), "BoxCox1lam interleaved")
    ok, d = close(y1, (np.power(x + 0.5, 0.3) - 1) / 0.3, 1e-12)
    check(ok, "BoxCox1lam value", d)
    ok, d = close(y2, np.log(x + 2.), 1e-12)
    check(ok, "BoxCox1lam value log", d)

    # not initialised constants are reported
    for nm in ["BoxCox1lam", "BoxCox1nu"]:
        trans = transform.get_transform(nm)
        try:
            trans.forward(np.array([1., 2.]))
            check(False, nm + " nan constant accepted")
        except ValueError:
            check(True, nm)


def demo_yeojohnson():
    lams = [-1., -0.5, -1e-3, 0., 1e-9, 5e-9, 3e-8, 1e-3, 0.5, 1., 1.5,
            2. - 1e-3, 2. - 3e-5, 2. - 1e-5, 2., 2. + 1e-5, 2. + 3e-5, 2.5,
            3.]
    wgrid = np.concatenate([np.logspace(-3, 5, 17), [1., 2.5]])
    wgrid = np.concatenate([-wgrid[::-1], [0.], wgrid])
    for nu, scale, lam in itertools.product([-3., 0., 2.5],
                                            [1e-5, 0.5, 1., 20.], lams):
        w = wgrid
        with np.errstate(all="ignore"):
            cpos = np.abs(lam * np.log1p(np.abs(w))) <= 13.8
            cneg = np.abs((2 - lam) * np.log1p(np.abs(w))) <= 13.8
        w = w[np.where(w >= 0, cpos, cneg)]
        x = (w - nu) / scale
        # drop x that are tiny compared with the shift (cancellation)
        x = x[(np.abs(x) * scale >= 1e-3 * abs(nu)) & ((x != 0) | (nu == 0))]
        # keep away from the w ~ 0 region where w+1 loses digits
        wchk = nu + x * scale
        x = x[(np.abs(wchk) >= 1e-4) | (wchk == 0)]
        # tiny (non zero) exponents amplify rounding errors by 1/exponent:
        # stay where log(1+|w|) is not small
        wchk = nu + x * scale
        if 0 < abs(lam) < 1e-6:
            x = x[(wchk < 0) | (wchk >= 1)]
        for how in range(2):
            if how == 0:
                trans = transform.YeoJohnson()
                trans.params.values = [nu, scale, lam]
            else:
                trans = transform.get_transform("YeoJohnson", nu=nu,
                                                scale=scale, lam=lam)
            tag = f"YeoJohnson[{nu},{scale},{lam},{how}]"
            roundtrip_sizes(f"{tag}", trans, x)
        roundtrip(f"{tag}/nan", trans, with_nan(x))


def demo_reciprocal():
    for mininu in [None, 0., 0.3]:
        kw = {} if mininu is None else {"mininu": mininu}
        m = EPS if mininu is None else mininu
        for nu in [m, m + 0.5, 7.]:
            if nu <= 0:
                continue
            trans = transform.Reciprocal(**kw)
            trans.nu = nu
            x = LOGGRID[LOGGRID >= 1e-3 * nu]
            x = np.concatenate([x, [-nu / 2]])
            tag = f"Reciprocal[{mininu},{nu}]"
            roundtrip_sizes(f"{tag}", trans, x)
            roundtrip(f"{tag}/nan", trans, with_nan(x))
            trans = transform.get_transform("Reciprocal", nu=nu, **kw)
            roundtrip(f"{tag}/get", trans, x)


def demo_softmax():
    rng = np.random.RandomState(5446)
    trans = transform.Softmax()
    for shape in [(1, 1), (1, 2), (2, 1), (2, 2), (5, 3), (3, 10), (40, 4)]:
        for total in [1e-3, 0.5, 0.9, 0.999]:
            x = rng.uniform(0.05, 1, size=shape)
            x = x / x.sum(axis=1)[:, None] * total
            tag = f"Softmax[{shape},{total}]"
            roundtrip(tag, trans, x)
            # rows are independent
            y = trans.forward(x)
            for i in range(shape[0]):
                ok, d = close(trans.forward(x[i:i + 1])[0], y[i], 1e-13)
                check(ok, tag + " row", d)
    x = np.array([[0.2, 0.3, 0.1], [1e-6, 1e-5, 0.5]])
    roundtrip("Softmax/small", trans, x)
    y = np.array([[-3., 0., 2.], [0.5, 0.5, 0.5], [-12., 10., 1.]])
    ok, d = close(trans.forward(trans.backward(y)), y)
    check(ok, "Softmax ygrid", d)
    # rejected inputs : negative entries, sums reaching 1
    for bad in [np.array([[0.5, -0.1]]), np.array([[0.5, 0.5]]),
                np.array([[0.2, 0.1], [0.9, 0.2]])]:
        try:
            trans.forward(bad)
            check(False, "Softmax bad input accepted", str(bad))
        except ValueError:
            check(True, "Softmax")
    trans2 = transform.get_transform("Softmax")
    roundtrip("Softmax/get", trans2, x)


def demo_sinh():
    mags = np.logspace(-2, 4, 13)
    for nu, scale in itertools.product([-5., 0., 3.],
                                       [1e-10, 1e-3, 1., 50.]):
        x = np.concatenate([nu - mags[::-1], [nu], nu + mags])
        x = x[(np.abs(x) >= 1e-3 * max(abs(nu), 1.)) | ((x == 0) & (nu == 0))]
        trans = transform.Sinh()
        trans.params.values = [nu, scale]
        tag = f"Sinh[{nu},{scale}]"
        roundtrip_sizes(f"{tag}", trans, x)
        roundtrip(f"{tag}/nan", trans, with_nan(x))
        trans = transform.get_transform("Sinh", nu=nu, scale=scale)
        roundtrip(f"{tag}/get", trans, x)
    trans = transform.Sinh()
    y = np.array([-20., -3., -1e-3, 0., 1e-3, 0.7, 5., 20.])
    ok, d = close(trans.forward(trans.backward(y)), y)
    check(ok, "Sinh ygrid", d)


def demo_logsinh():
    tgrid = np.array([0., 1e-3, 0.01, 0.1, 0.2, 0.5, 0.9, 1., 3.])
    for loga, logb, xmax in itertools.product([-20., -9., -5., -1., 0.],
                                              [-5., -1., 0., 1., 5.],
                                              [1e-3, 1., 250.]):
        a, b = math.exp(loga), math.exp(logb)
        t = tgrid[a + b * tgrid >= 1e-4]
        # (w-a)/b must not cancel : b*t not tiny against a
        t = t[b * t >= 1e-3 * a]
        x = xmax * t
        if x.shape[0] == 0:
            continue
        for how in range(2):
            if how == 0:
                trans = transform.LogSinh()
                trans.params.values = [loga, logb]
                trans.xmax = xmax
            else:
                trans = transform.get_transform("LogSinh", loga=loga,
                                                logb=logb, xmax=xmax)
            tag = f"LogSinh[{loga},{logb},{xmax},{how}]"
            roundtrip_sizes(f"{tag}", trans, x)
        roundtrip(f"{tag}/nan", trans, with_nan(x))
    trans = transform.LogSinh()
    try:
        trans.forward(np.array([1., 2.]))
        check(False, "LogSinh nan xmax accepted")
    except ValueError:
        check(True, "LogSinh")


def demo_manly():
    ugrid = np.array([-2., -1., -0.3, -1e-3, 0., 1e-3, 0.01, 0.5, 1., 2.])
    lams = [-5., -1., -0.1, -1e-3, -1e-10, -1e-11, 0., 1e-11, 1e-10, 1e-3,
            0.1, 1., 2.5, 5.]
    for lam, xmax in itertools.product(lams, [0.5, 1., 300.]):
        u = ugrid[np.abs(lam * ugrid) <= 13.8]
        x = u * xmax
        for how in range(2):
            if how == 0:
                trans = transform.Manly()
                trans.lam = lam
                trans.constants.values = [xmax]
            else:
                trans = transform.get_transform("Manly", lam=lam, xmax=xmax)
            tag = f"Manly[{lam},{xmax},{how}]"
            roundtrip_sizes(f"{tag}", trans, x)
        roundtrip(f"{tag}/nan", trans, with_nan(x))
    trans = transform.Manly()
    try:
        trans.forward(np.array([1., 2.]))
        check(False, "Manly nan xmax accepted")
    except ValueError:
        check(True, "Manly")


def demo_parameter_updates():
    """ the transform follows its parameters, whatever the way
    they are modified, and parameters are clipped to their bounds """
    x = np.array([0.2, 1., 30.])
    trans = transform.BoxCox2()
    seen = []
    for lam in [0.5, 0., 1e-11, 1., 0.5, 3., 0.5]:
        trans.lam = lam
        y = trans.forward(x)
        ref = np.log(x + trans.nu) if abs(lam) <= EPS \
            else (np.power(x + trans.nu, lam) - 1) / lam
        ok, d = close(y, ref, 1e-12)
        check(ok, f"BoxCox2 follows lam={lam}", d)
        seen.append(y)
        ok, d = close(trans.backward(y), x)
        check(ok, f"BoxCox2 follows lam={lam} back", d)
    check(np.array_equal(seen[0], seen[4]) and np.array_equal(seen[0],
                                                             seen[6]),
          "BoxCox2 same params same result")

    # in place modification of the values array is seen too
    trans.params.values[1] = 0.25
    ok, d = close(trans.forward(x), (np.power(x + trans.nu, 0.25) - 1) / 0.25,
                  1e-12)
    check(ok, "BoxCox2 in place params", d)
    check(trans.lam == 0.25 and trans["lam"] == 0.25 and
          trans.params["lam"] == 0.25 and trans.params.lam == 0.25,
          "BoxCox2 param views")

    # clipping
    trans.lam = 10.
    check(trans.lam == 3., "lam clipped to 3")
    trans.lam = -10.
    check(trans.lam == 0., "lam clipped to 0")
    trans.nu = -1.
    check(trans.nu == EPS, "nu clipped to mininu")
    trans.params.values = [5., 7.]
    check(list(trans.params.values) == [5., 3.], "values clipped")
    trans.reset()
    check(list(trans.params.values) == [EPS, 1.], "reset")
    try:
        trans.lam = np.nan
        check(False, "nan param accepted")
    except ValueError:
        check(True, "nan")
    check(trans.lam == 1., "lam unchanged after rejected nan")

    # snapshots of values
    old = trans.params.values
    trans.params.values = [0.3, 0.7]
    check(list(old) == [EPS, 1.], "old values array is a snapshot")
    trans.params.values = old
    check(list(trans.params.values) == [EPS, 1.], "restore from snapshot")

    # two instances never share parameters
    t1, t2 = transform.Log(), transform.Log()
    t1.nu = 4.
    check(t2.nu == EPS, "instances independent")
    t1, t2 = transform.get_transform("Manly", xmax=2.), \
        transform.get_transform("Manly", xmax=5.)
    check(t1.xmax == 2. and t2.xmax == 5., "get_transform independent")

    # all names of the catalogue are served by get_transform
    names = ["Identity", "Logit", "Log", "BoxCox2", "BoxCox1lam",
             "BoxCox1nu", "BoxCox2sym", "YeoJohnson", "Reciprocal",
             "Softmax", "Sinh", "LogSinh", "Manly"]
    check(sorted(transform.__all__) == sorted(names), "catalogue")
    for nm in names:
        trans = transform.get_transform(nm)
        check(trans.name == nm and isinstance(trans, getattr(transform, nm)),
              "get_transform " + nm)
    try:
        transform.get_transform("Bidule")
        check(False, "unknown name accepted")
    except ValueError:
        check(True, "unknown")


def demo_vector():
    """ Vector store used for parameters and constants """
    v = Vector(["a", "b", "c"], [0.5, 1., 2.], [0., 0., 0.], [1., 5., np.inf])
    check(list(v.names) == ["a", "b", "c"] and v.nval == 3, "names")
    check(list(v.values) == [0.5, 1., 2.], "defaults -> values")
    check(list(v.mins) == [0., 0., 0.] and list(v.maxs) == [1., 5., np.inf]
          and list(v.defaults) == [0.5, 1., 2.], "bounds")
    live = v.values
    v.a = 0.25
    v["b"] = 4.
    check(list(live) == [0.25, 4., 2.] and v.a == 0.25 and v["b"] == 4.,
          "item set is visible in values")
    v.values = [9., -9., 9.]
    check(list(v.values) == [1., 0., 9.], "clip")
    check(list(live) == [0.25, 4., 2.], "values rebinding")
    for dtype in (np.float64, float):
        check(isinstance(v.a, dtype), "element type")
    check(v.values.dtype == np.float64 and v.values.ndim == 1, "dtype")
    w = v.clone()
    w.a = 0.1
    check(v.a == 1. and w.a == 0.1, "clone independent")
    check(Vector.from_dict(v.to_dict()).to_dict() == v.to_dict(), "dict")
    v.reset()
    check(list(v.values) == [0.5, 1., 2.], "reset")
    for bad in ([1., 2.], [1., 2., np.nan]):
        try:
            v.values = bad
            check(False, "bad values accepted")
        except ValueError:
            check(True, "bad values")
    try:
        v["zz"] = 1.
        check(False, "unknown key")
    except ValueError:
        check(True, "unknown key")
    c = Vector(["k"], [np.nan], [1e-10], [np.inf], accept_nan=True)
    check(np.isnan(c.k) and np.isnan(c.values[0]), "nan constant")
    c.k = 3.
    check(c.k == 3., "constant set")
    e = Vector([])
    check(e.nval == 0 and e.values.shape == (0,), "empty")
    try:
        Vector(["a", "a"])
        check(False, "duplicates accepted")
    except ValueError:
        check(True, "dup")


def run_core():
    demo_identity()
    demo_logit()
    demo_log()
    demo_boxcox()
    demo_yeojohnson()
    demo_reciprocal()
    demo_softmax()
    demo_sinh()
    demo_logsinh()
    demo_manly()
    demo_parameter_updates()
    demo_vector()


def same(a, b):
    """ bitwise equality (tells -0. from 0., nan equal to nan) """
    a, b = np.asarray(a), np.asarray(b)
    return a.shape == b.shape and a.dtype == b.dtype and \
        a.tobytes() == b.tobytes()


def fresh(nm, kw, params, constants):
    trans = getattr(transform, nm)(**kw)
    trans.params.values = params
    if len(constants) > 0:
        trans.constants.values = constants
    return trans


def run_specific():
    """ Repeated / interleaved evaluations: the answer only depends on the
    current parameters, constants, options and data, never on what
    was evaluated before. Every result is compared bit for bit with
    the one of a brand new instance. """
    rng = np.random.RandomState(333)
    x = np.array([0.05, 0.11, 0.2, 0.35, 0.41, 0.77])
    xsm = np.array([[0.05, 0.11, 0.2], [0.35, 0.1, 0.25]])
    specs = [
        ("Identity", {}, [[]], [[]]),
        ("Logit", {}, [[0., 0.], [-1., 1.], [0., 1e-3]], [[]]),
        ("Log", {}, [[EPS], [0.5], [2.]], [[]]),
        ("Log", {"base": 10., "mininu": 0.1}, [[0.1], [0.5], [2.]], [[]]),
        ("BoxCox2", {}, [[0.1, 0.], [0.1, 1e-11], [0.1, 2e-10], [0.1, 0.5],
                         [0.2, 0.5], [0.2, 3.]], [[]]),
        ("BoxCox2", {"minilam": -2.}, [[0.1, -2.], [0.1, -0.], [0.1, 0.5]],
         [[]]),
        ("BoxCox1lam", {}, [[0.], [1e-11], [0.3], [1.]], [[0.1], [0.7]]),
        ("BoxCox1nu", {}, [[0.1], [0.7]], [[0.], [1e-11], [0.3], [1.]]),
        ("BoxCox2sym", {}, [[0.1, 0.], [0.1, 0.5], [0.2, 0.5]], [[]]),
        ("YeoJohnson", {}, [[0., 1., 0.], [0., 1., 2.], [0., 1., 1.],
                            [0.3, 2., 1.], [-0.3, 2., 1.]], [[]]),
        ("Reciprocal", {}, [[EPS], [0.5]], [[]]),
        ("Sinh", {}, [[0., 1.], [0.2, 1.], [0.2, 5.]], [[]]),
        ("LogSinh", {}, [[-1., 0.], [-3., 0.], [-1., 0.5]], [[1.], [2.]]),
        ("Manly", {}, [[0.], [1e-11], [0.1], [-2.]], [[1.], [2.]]),
        ("Softmax", {}, [[]], [[]]),
    ]
    for nm, kw, plist, clist in specs:
        data = xsm if nm == "Softmax" else x
        trans = getattr(transform, nm)(**kw)
        combos = [(p, c) for p in plist for c in clist]
        order = list(range(len(combos))) * 3
        rng.shuffle(order)
        for k in order:
            p, c = combos[k]
            # several ways of changing the state of the same object
            way = rng.randint(3)
            if way == 0 or len(p) == 0:
                trans.params.values = p
            elif way == 1:
                for pname, value in zip(trans.params.names, p):
                    trans[str(pname)] = value
            else:
                for i, value in enumerate(p):
                    trans.params.values[i] = value
            if len(c) > 0:
                trans.constants.values = c
            ref = fresh(nm, kw, p, c)
            for meth in ("forward", "backward", "jacobian"):
                arg = data
                if meth == "backward":
                    arg = ref.forward(data)
                expected = getattr(ref, meth)(arg)
                for rep in range(2):
                    got = getattr(trans, meth)(arg)
                    check(same(got, expected),
                          f"{nm} {meth} params={p} constants={c}")
                    # altering a returned array does not alter
                    # the next answers
                    got[...] = 12345.
            ok, d = close(trans.backward(trans.forward(data)), data)
            check(ok, f"{nm} round trip params={p} constants={c}", d)

    # --- the data : same object with new content, new object with same
    # --- content, sign of zero, nan
    trans = transform.Sinh()
    buf = np.array([0., 1., -2.])
    y0 = trans.forward(buf)
    buf[1] = 5.
    y1 = trans.forward(buf)
    check(y1[1] == np.arcsinh(5.) and y0[1] == np.arcsinh(1.),
          "content of data, not identity")
    check(same(trans.forward(np.array([0., 5., -2.])), y1), "same content")
    zp = trans.forward(np.array([0.]))
    zm = trans.forward(np.array([-0.]))
    zp2 = trans.forward(np.array([0.]))
    check(not np.signbit(zp[0]) and np.signbit(zm[0]) and
          not np.signbit(zp2[0]), "sign of zero")
    yn = trans.forward(np.array([np.nan, 1.]))
    yn2 = trans.forward(np.array([np.nan, 1.]))
    check(np.isnan(yn[0]) and np.isnan(yn2[0]) and yn[1] == yn2[1],
          "nan data")
    # shapes with the same bytes
    trans = transform.Log()
    flat = np.arange(1., 7.)
    check(trans.forward(flat).shape == (6,) and
          trans.forward(flat.reshape((2, 3))).shape == (2, 3) and
          trans.forward(flat.reshape((3, 2))).shape == (3, 2) and
          trans.forward(flat).shape == (6,), "shape follows data")
    # forward / backward / jacobian of the same array are not mixed up
    trans = transform.BoxCox2()
    trans.params.values = [0.1, 0.5]
    a = np.array([0.3, 1.2])
    for rep in range(2):
        check(same(trans.forward(a), (np.power(a + 0.1, 0.5) - 1) / 0.5),
              "forward formula")
        check(same(trans.backward(a), np.power(0.5 * a + 1, 1. / 0.5) - 0.1),
              "backward formula")
        check(same(trans.jacobian(a), np.power(a + 0.1, 0.5 - 1.)),
              "jacobian formula")
    # classes sharing a parameter vector are not mixed up
    sym = transform.BoxCox2sym()
    sym.params.values = [0.1, 0.5]
    neg = np.array([-0.3, 1.2])
    for rep in range(2):
        check(np.isnan(trans.forward(neg)[0]) and
              not np.isnan(sym.forward(neg)[0]), "BoxCox2 vs BoxCox2sym")

    # --- options stored as plain attributes are followed
    trans = transform.Log()
    trans.nu = 1.
    yn = trans.forward(a)
    trans.basefactor = math.log(10.)
    y10 = trans.forward(a)
    check(same(y10, np.log(a + 1.) / math.log(10.)) and
          same(yn, np.log(a + 1.)), "Log basefactor followed")
    j0 = trans.jacobian(a)
    trans.mininu = 1.5
    j1 = trans.jacobian(a)
    check(not np.isnan(j0).any() and np.isnan(j1[0]) and
          not np.isnan(j1[1]), "Log mininu followed by jacobian")
    # bounds of the inner transform of the wrappers are followed
    trans = transform.BoxCox1lam()
    trans.nu = 0.1
    trans.lam = 0.5
    ya = trans.forward(a)
    trans.BC.params.mins[0] = 2.
    yb = trans.forward(a)
    check(same(ya, (np.power(a + 0.1, 0.5) - 1) / 0.5) and
          same(yb, (np.power(a + 2., 0.5) - 1) / 0.5), "inner bounds")
    trans.BC.params.mins[0] = EPS
    check(same(trans.forward(a), ya), "inner bounds restored")

    # --- many different evaluations, then the first ones again
    trans = transform.get_transform("BoxCox2", nu=0.3, lam=0.25)
    pool = [rng.uniform(0.1, 5., size=rng.randint(1, 6)) for _ in range(400)]
    first = [trans.forward(p) for p in pool]
    for p, y in zip(pool, first):
        check(same(y, (np.power(p + 0.3, 0.25) - 1) / 0.25), "pool")
    for p, y in list(zip(pool, first))[::7]:
        check(same(trans.forward(p), y), "pool again")
    # large data
    big = rng.uniform(0.1, 5., size=30000)
    yb1 = trans.forward(big)
    big2 = big.copy()
    big2[-1] = 7.
    yb2 = trans.forward(big2)
    check(same(yb1[:-1], yb2[:-1]) and yb2[-1] != yb1[-1] and
          same(trans.forward(big), yb1), "large data")
    ok, d = close(trans.backward(yb1), big)
    check(ok, "large data round trip", d)

    # --- rejected calls are rejected every time
    trans = transform.Softmax()
    for rep in range(3):
        try:
            trans.forward(np.array([[0.6, 0.6]]))
            check(False, "Softmax accepted bad data")
        except ValueError:
            check(True, "rejected")
    trans = transform.Manly()
    for rep in range(2):
        try:
            trans.forward(a)
            check(False, "Manly accepted nan xmax")
        except ValueError:
            check(True, "rejected")
    trans.xmax = 2.
    check(same(trans.forward(a), (np.exp(0.1 * a / 2.) - 1) / 0.1),
          "Manly after xmax set")

    # --- separate instances used from several threads
    import threading
    errors = []

    def worker(lam):
        trans = transform.BoxCox2()
        local = np.array([0.2, 1.5, 3.])
        for i in range(200):
            trans.params.values = [0.1, lam]
            got = trans.forward(local)
            exp = (np.power(local + 0.1, lam) - 1) / lam
            if not same(got, exp) or \
                    not np.allclose(trans.backward(got), local,
                                    rtol=1e-6, atol=0.):
                errors.append(lam)
    threads = [threading.Thread(target=worker, args=(lam,))
               for lam in (0.2, 0.4, 0.2, 0.8)]
    for th in threads:
        th.start()
    for th in threads:
        th.join()
    check(len(errors) == 0, "threads", str(errors))


if __name__ == "__main__":
    run_core()
    run_specific()
    families = {}
    for f in FAILURES:
        key = f.split("[")[0].split("/")[0]
        families[key] = families.get(key, 0) + 1
    print(f"{NCHECK} checks, {len(FAILURES)} failures {families}")
    sys.exit(1 if FAILURES else 0)
