#!/usr/bin/env python
""" C18 - computations leave their arguments untouched and are repeatable.

    PYTHONPATH=<tree>/src /venv/bin/python demo.py

What is checked, for every call in the catalogue below:

 A. ARGUMENTS UNTOUCHED. A byte-level fingerprint of every argument (values,
    dtype, shape, strides and, for a view, the whole buffer it is a view of;
    values/index/columns/dtypes for pandas objects; cell values and geometry
    for grids) is taken before the first call and compared after each call.

 B. REPEATABLE. numpy is seeded, the function is called; numpy is seeded
    again, the function is called again with the very same argument objects:
    both results must have the same fingerprint (type, dtype, shape, values
    bit for bit with NaN == NaN), or both calls must raise the same exception
    class (an error is an accepted outcome, e.g. kernels refusing integer or
    strided arrays, but it has to be the same one twice and the arguments
    still have to be untouched).

 C. NO HIDDEN COUPLING BETWEEN CALLS ("for every call history"). Between the
    two calls the arrays/frames returned by the first call are overwritten
    with garbage (a result is owned by the caller: writing in it must not
    change what the next call returns, nor the arguments).
    At the end the whole catalogue is replayed in reverse order, i.e. every
    call is now preceded by a different history (other sample sizes, other
    parameters, other grids): each call has to return what it returned in the
    first pass.

Exit status 0 when everything passes.
"""
import sys
import os
os.environ.setdefault("OMP_NUM_THREADS", "1")
os.environ.setdefault("OPENBLAS_NUM_THREADS", "1")
import io
import time
import hashlib
import warnings
import math

import numpy as np
import pandas as pd

import matplotlib
matplotlib.use("Agg")
from matplotlib.figure import Figure
from matplotlib.lines import Line2D
from matplotlib.artist import Artist

from hydrodiy.stat import metrics, sutils, armodels, transform
from hydrodiy.data import dutils, qualitycontrol, signatures
from hydrodiy.gis import gutils
from hydrodiy.gis import grid as gridmod
from hydrodiy.gis.grid import Grid, Catchment
from hydrodiy.plot import putils, boxplot, violinplot

warnings.filterwarnings("ignore")
np.seterr(all="ignore")

SEED = 180518
FAILURES = []
CATALOGUE = []      # (label, fun, args, kwargs, fingerprint of first result)
STATS = {}          # group -> [ncalls, nraised]
VERBOSE = "-v" in sys.argv
KEPT = []           # results of the last calls, with their fingerprint
DUMP = {}           # label -> fingerprint of the result (see --dump)


# ---------------------------------------------------------------------------
# Fingerprints
# ---------------------------------------------------------------------------
def _owner(arr):
    """ The array owning the memory arr is a view of """
    while isinstance(getattr(arr, "base", None), np.ndarray):
        arr = arr.base
    return arr


def _bytes(arr):
    """ Bytes of the items of arr in C order, NaN made canonical """
    if arr.dtype == object:
        return repr(arr.tolist()).encode()
    arr = np.ascontiguousarray(arr)
    if arr.dtype.kind == "f":
        arr = np.where(np.isnan(arr), np.array(np.nan, dtype=arr.dtype), arr)
    return arr.tobytes()


class Fingerprint(object):
    """ sha1 of a canonical description of (nested) objects """

    def __init__(self, for_argument):
        self.h = hashlib.sha1()
        self.for_argument = for_argument

    def add(self, *items):
        for item in items:
            if isinstance(item, bytes):
                self.h.update(item)
            else:
                self.h.update(repr(item).encode())
            self.h.update(b"|")

    def feed(self, obj):
        add = self.add
        if isinstance(obj, np.ndarray):
            add("nd", str(obj.dtype), obj.shape, _bytes(obj))
            if self.for_argument:
                # layout of the argument and memory around a view
                add(obj.strides, obj.flags["WRITEABLE"])
                own = _owner(obj)
                if own is not obj:
                    add("owner", str(own.dtype), own.shape, _bytes(own))

        elif isinstance(obj, pd.Series):
            add("se", str(obj.dtype), obj.shape, obj.name)
            self.feed(np.asarray(obj.values))
            self.feed(obj.index)

        elif isinstance(obj, pd.DataFrame):
            add("df", obj.shape, [str(d) for d in obj.dtypes])
            self.feed(obj.columns)
            self.feed(obj.index)
            for icol in range(obj.shape[1]):
                self.feed(np.asarray(obj.iloc[:, icol].values))

        elif isinstance(obj, pd.Index):
            add("ix", str(obj.dtype), obj.names)
            self.feed(np.asarray(obj.values))

        elif isinstance(obj, Grid):
            # Cell values and geometry. The dtype of a grid ARGUMENT is
            # left out: C18 is about cell values (grid-level functions
            # convert the flow direction grid to int64).
            data = obj.data
            add("grid", data.shape, obj.nrows, obj.ncols, obj.cellsize,
                obj.xllcorner, obj.yllcorner)
            if self.for_argument:
                add(_bytes(data.astype(np.float64)))
            else:
                add(str(data.dtype), _bytes(data))

        elif isinstance(obj, Catchment):
            add("catchment")
            self.feed(obj.flowdir)

        elif isinstance(obj, transform.Transform):
            add("transform", obj.name)
            self.feed(np.asarray(obj.params.values))
            self.feed(np.asarray(obj.constants.values))

        elif isinstance(obj, (list, tuple)):
            add(type(obj).__name__, len(obj))
            for item in obj:
                self.feed(item)

        elif isinstance(obj, dict):
            add("dict", len(obj))
            for key, item in obj.items():
                add(key)
                self.feed(item)

        elif isinstance(obj, Line2D):
            add("line")
            self.feed(np.asarray(obj.get_xydata(), dtype=np.float64))

        elif isinstance(obj, (Artist, Figure)):
            add("artist", type(obj).__name__)

        elif isinstance(obj, (float, np.floating)):
            add("float", type(obj).__name__,
                "nan" if obj != obj else float(obj).hex())

        elif isinstance(obj, (bool, np.bool_, int, np.integer, str,
                              type(None))):
            add(type(obj).__name__, obj)

        elif callable(obj):
            add("callable")

        else:
            add("other", type(obj).__name__, repr(obj))

    def digest(self):
        return self.h.hexdigest()


def fp_args(obj):
    f = Fingerprint(True)
    f.feed(obj)
    return f.digest()


def fp_result(obj):
    f = Fingerprint(False)
    f.feed(obj)
    return f.digest()


def scribble(obj, _depth=0):
    """ Overwrite in place whatever a call has returned """
    if _depth > 4:
        return
    if isinstance(obj, np.ndarray):
        if obj.flags["WRITEABLE"] and obj.size > 0 \
                and obj.dtype.kind in "fiub":
            try:
                obj[...] = 1 if obj.dtype.kind == "b" else 77
            except Exception:
                pass
    elif isinstance(obj, (pd.Series, pd.DataFrame)):
        try:
            arr = obj.values
            if isinstance(arr, np.ndarray):
                scribble(arr, _depth+1)
        except Exception:
            pass
        try:
            if obj.size > 0:
                obj.iloc[:] = 77
        except Exception:
            pass
    elif isinstance(obj, Grid):
        scribble(obj.data, _depth+1)
    elif isinstance(obj, (list, tuple)):
        for item in obj:
            scribble(item, _depth+1)
    elif isinstance(obj, dict):
        for item in obj.values():
            scribble(item, _depth+1)


class quiet(object):
    """ Some kernels print their progress on the C stdout """
    def __enter__(self):
        sys.stdout.flush()
        self.saved = os.dup(1)
        self.null = os.open(os.devnull, os.O_WRONLY)
        os.dup2(self.null, 1)

    def __exit__(self, *args):
        sys.stdout.flush()
        os.dup2(self.saved, 1)
        os.close(self.saved)
        os.close(self.null)


def _call(fun, args, kwargs):
    np.random.seed(SEED)
    try:
        return "ok", fun(*args, **kwargs)
    except Exception as err:
        return "raised", type(err).__name__


def check(label, fun, *args, **kwargs):
    """ Checks A, B and first half of C for one call """
    group = label.split("[")[0].split("/")[0]
    stat = STATS.setdefault(group, [0, 0])
    stat[0] += 1

    watched = (args, kwargs)
    before = fp_args(watched)

    # Two consecutive calls
    with quiet():
        status1, out1 = _call(fun, args, kwargs)
    if fp_args(watched) != before:
        FAILURES.append(f"{label}: argument modified by the first call")
        return
    fp1 = (status1, fp_result(out1))

    with quiet():
        status2, out2 = _call(fun, args, kwargs)
    if fp_args(watched) != before:
        FAILURES.append(f"{label}: argument modified by the second call")
        return
    fp2 = (status2, fp_result(out2))

    if fp1 != fp2:
        FAILURES.append(f"{label}: two consecutive calls differ "
                        + f"({status1} {out1 if status1=='raised' else ''}/"
                        + f"{status2} {out2 if status2=='raised' else ''})")
        return

    if status1 == "raised":
        stat[1] += 1
        if VERBOSE:
            print(f"   raised {out1}: {label}")
    else:
        # What the first call returned belongs to the caller: the second
        # call has not changed it ..
        if fp_result(out1) != fp1[1]:
            FAILURES.append(f"{label}: the result of the first call has "
                            + "been changed by the second call")
            return

        # .. and the caller can write in it without consequence on the
        # arguments or on a third call
        scribble(out1)
        scribble(out2)
        if fp_args(watched) != before:
            FAILURES.append(f"{label}: result is aliased with an argument")
            return

        with quiet():
            status3, out3 = _call(fun, args, kwargs)
        if fp_args(watched) != before:
            FAILURES.append(f"{label}: argument modified by the third call")
            return
        if (status3, fp_result(out3)) != fp1:
            FAILURES.append(f"{label}: writing in the results of previous "
                            + "calls changes what the next call returns")
            return

        # .. and it stays as it is while other calls are made
        KEPT.append((label, out3, fp1[1]))
        if len(KEPT) > 40:
            oldlabel, oldout, oldfp = KEPT.pop(0)
            if fp_result(oldout) != oldfp:
                FAILURES.append(f"{oldlabel}: the result has been changed "
                                + "by later calls")

    CATALOGUE.append((label, fun, args, kwargs, before, fp1))
    DUMP[label] = fp1


def replay():
    """ Second half of C: same calls, other history """
    nbad = 0
    for label, fun, args, kwargs, before, fp1 in CATALOGUE[::-1]:
        with quiet():
            status, out = _call(fun, args, kwargs)
        if fp_args((args, kwargs)) != before:
            FAILURES.append(f"{label}: argument modified during replay")
            nbad += 1
        elif (status, fp_result(out)) != fp1:
            FAILURES.append(f"{label}: result depends on the calls made"
                            + " before (replay in reverse order differs)")
            nbad += 1
    return nbad


# ---------------------------------------------------------------------------
# Input variants
# ---------------------------------------------------------------------------
RNG = np.random.RandomState(42)

DTYPES = {"f8": np.float64, "f4": np.float32, "i8": np.int64, "i4": np.int32}


def layouts(arr, which=("c", "strided", "rev")):
    """ Same values in different memory layouts """
    arr = np.ascontiguousarray(arr)
    for lay in which:
        if lay == "c":
            yield lay, arr.copy()
        elif lay == "strided":
            # every second item (1d) / a block inside a larger array (2d)
            if arr.ndim == 1:
                big = np.full(2*arr.shape[0]+3, 9, dtype=arr.dtype)
                big[1:1+2*arr.shape[0]:2] = arr
                yield lay, big[1:1+2*arr.shape[0]:2]
            else:
                big = np.full((arr.shape[0]+2, 2*arr.shape[1]+1), 9,
                              dtype=arr.dtype)
                big[1:-1, 0:2*arr.shape[1]:2] = arr
                yield lay, big[1:-1, 0:2*arr.shape[1]:2]
        elif lay == "rev":
            # negative strides
            if arr.ndim == 1:
                yield lay, arr[::-1].copy()[::-1]
            else:
                yield lay, arr[::-1, ::-1].copy()[::-1, ::-1]
        elif lay == "F":
            yield lay, np.asfortranarray(arr)


def contents(n, kinds=("rand", "ties", "nan", "const", "zero")):
    """ 1d float samples of length n, positive, with the awkward cases """
    for kind in kinds:
        if kind == "rand":
            x = np.round(RNG.uniform(0.5, 30, n), 3)
        elif kind == "ties":
            x = RNG.choice([0., 1., 1., 2., 5.], n).astype(float)
        elif kind == "nan":
            x = np.round(RNG.uniform(0.5, 30, n), 3)
            x[RNG.uniform(0, 1, n) < 0.3] = np.nan
            x[0] = np.nan
        elif kind == "const":
            x = np.full(n, 3.)
        elif kind == "zero":
            x = np.zeros(n)
        yield kind, x


def vectors(ns=(1, 2, 3, 11, 40), kinds=("rand", "ties", "nan", "const",
                                         "zero"),
            dts=("f8", "f4", "i8", "i4"), lays=("c", "strided", "rev"),
            pandas=True):
    """ 1d inputs: (tag, object). Integers never carry nan. """
    for n in ns:
        for kind, x in contents(n, kinds):
            for dt in dts:
                if kind == "nan" and dt[0] == "i":
                    continue
                xd = x.astype(DTYPES[dt])
                for lay, xl in layouts(xd, lays):
                    yield f"n={n},{kind},{dt},{lay},array", xl
                if pandas:
                    yield f"n={n},{kind},{dt},series", pd.Series(xd.copy())


def matrices(shapes=((1, 1), (2, 3), (9, 2), (25, 4)),
             kinds=("rand", "ties", "nan"), dts=("f8", "i8", "f4"),
             lays=("c", "strided", "rev", "F"), pandas=True):
    """ 2d inputs """
    for shape in shapes:
        n = shape[0]*shape[1]
        for kind, x in contents(n, kinds):
            for dt in dts:
                if kind == "nan" and dt[0] == "i":
                    continue
                xd = x.astype(DTYPES[dt]).reshape(shape)
                for lay, xl in layouts(xd, lays):
                    yield f"shape={shape},{kind},{dt},{lay},array", xl
                if pandas:
                    yield f"shape={shape},{kind},{dt},frame", \
                        pd.DataFrame(xd.copy())


def pairs(ns=(1, 2, 3, 12, 50), kinds=("rand", "ties", "nan", "const"),
          dts=("f8", "i8", "f4"), lays=("c", "strided", "rev"),
          pandas=True):
    """ (obs, sim) pairs of 1d inputs sharing layout/dtype/container """
    for n in ns:
        for kind, x in contents(n, kinds):
            y = x + np.round(RNG.normal(0, 1, n), 2)
            if kind == "ties":
                y = x[::-1].copy()
            for dt in dts:
                if kind == "nan" and dt[0] == "i":
                    continue
                xd, yd = x.astype(DTYPES[dt]), y.astype(DTYPES[dt])
                for (lay, xl), (_, yl) in zip(layouts(xd, lays),
                                              layouts(yd, lays)):
                    yield f"n={n},{kind},{dt},{lay},array", xl, yl
                if pandas:
                    yield f"n={n},{kind},{dt},series", \
                        pd.Series(xd.copy()), pd.Series(yd.copy())


def ensembles(shapes=((1, 1), (2, 2), (3, 5), (14, 6), (30, 1)),
              kinds=("rand", "ties", "nan"), dts=("f8", "i8"),
              lays=("c", "strided", "rev", "F"), pandas=True):
    """ (obs [n], ens [n, p]) """
    for n, p in shapes:
        for kind, e in contents(n*p, kinds):
            e = e.reshape((n, p))
            o = np.round(RNG.uniform(0.5, 30, n), 3)
            if kind == "ties":
                # obs equal to members, and at the censoring threshold
                o = e[:, 0].copy()
                o[::3] = 0.
            if kind == "nan":
                o[-1] = np.nan
            for dt in dts:
                if kind == "nan" and dt[0] == "i":
                    continue
                od, ed = o.astype(DTYPES[dt]), e.astype(DTYPES[dt])
                for (lay, el) in layouts(ed, lays):
                    ol = list(layouts(od, ("strided" if lay != "c"
                                           else "c",)))[0][1]
                    yield f"n={n},p={p},{kind},{dt},{lay},array", ol, el
                if pandas:
                    yield f"n={n},p={p},{kind},{dt},pandas", \
                        pd.Series(od.copy()), pd.DataFrame(ed.copy())


# ---------------------------------------------------------------------------
# stat.metrics
# ---------------------------------------------------------------------------
def run_metrics():
    m = metrics
    for tag, obs, ens in ensembles():
        check(f"metrics.pit[{tag}]", m.pit, obs, ens)
        check(f"metrics.pit/random[{tag}]", m.pit, obs, ens, random=True)
        check(f"metrics.crps[{tag}]", m.crps, obs, ens)
        check(f"metrics.corr[{tag}]", m.corr, obs, ens)
        check(f"metrics.dscore[{tag}]", m.dscore, obs, ens)
        check(f"metrics.iqr[{tag}]", m.iqr, ens, ens)

    for tag, obs, ens in ensembles(dts=("f8",), lays=("c", "strided")):
        for kind in ["weak", "strict", "mean"]:
            check(f"metrics.pit/{kind}[{tag}]", m.pit, obs, ens, kind=kind,
                  censor=1.)
        for tp in ["CV", "KS", "AD"]:
            check(f"metrics.alpha/{tp}[{tag}]", m.alpha, obs, ens, type=tp)
        for stat in ["mean", "median"]:
            for tp in ["Pearson", "Spearman", "censored"]:
                check(f"metrics.corr/{stat}/{tp}[{tag}]", m.corr, obs, ens,
                      stat=stat, type=tp, excludenull=True,
                      trans=transform.get_transform("Log", nu=0.1))
        check(f"metrics.iqr/cov80[{tag}]", m.iqr, ens, ens[::-1],
              coverage=80.)

    # uniform samples in [0, 1], bounds included
    for n in [1, 2, 3, 10, 57, 200]:
        for kind in ["rand", "ties", "bounds"]:
            u = RNG.uniform(0, 1, n)
            if kind == "ties":
                u = np.round(u, 1)
            elif kind == "bounds":
                u[0] = 0.
                u[-1] = 1.
            for dt in ["f8", "f4"]:
                ud = u.astype(DTYPES[dt])
                for lay, ul in layouts(ud):
                    tag = f"n={n},{kind},{dt},{lay}"
                    check(f"metrics.anderson_darling_test[{tag}]",
                          m.anderson_darling_test, ul)
                    check(f"metrics.cramer_von_mises_test[{tag}]",
                          m.cramer_von_mises_test, ul)
                se = pd.Series(ud.copy())
                check(f"metrics.anderson_darling_test[n={n},{kind},series]",
                      m.anderson_darling_test, se)
                check(f"metrics.cramer_von_mises_test[n={n},{kind},series]",
                      m.cramer_von_mises_test, se)
    for tag, x in vectors(ns=(1, 4), kinds=("zero", "const", "ties"),
                          dts=("i8",)):
        check(f"metrics.anderson_darling_test[{tag}]",
              m.anderson_darling_test, x)
        check(f"metrics.cramer_von_mises_test[{tag}]",
              m.cramer_von_mises_test, x)

    transforms = [("identity", transform.Identity()),
                  ("log", transform.get_transform("Log", nu=0.5)),
                  ("bc", transform.get_transform("BoxCox2", nu=0.5, lam=0.3))]
    for tag, obs, sim in pairs():
        for tname, trans in transforms:
            for excl in [False, True]:
                t = f"{tname},excl={excl},{tag}"
                check(f"metrics.nse[{t}]", m.nse, obs, sim, trans=trans,
                      excludenull=excl)
                check(f"metrics.kge[{t}]", m.kge, obs, sim, trans=trans,
                      excludenull=excl)
                for tp in ["standard", "normalised", "log"]:
                    check(f"metrics.bias/{tp}[{t}]", m.bias, obs, sim,
                          trans=trans, excludenull=excl, type=tp)
        check(f"metrics.dscore/1d[{tag}]", m.dscore, obs, sim)
        check(f"metrics.relative_percentile_error[{tag}]",
              m.relative_percentile_error, obs, sim, [10, 90], neval=7)
        check(f"metrics.relative_percentile_error/mod[{tag}]",
              m.relative_percentile_error, obs, sim, (0, 100),
              modified=True, neval=5)
        check(f"metrics.absolute_peak_error[{tag}]", m.absolute_peak_error,
              obs, sim, winerase=3, winpeakbefore=1, winpeakafter=2)

    # nse/dscore with an ensemble as second argument
    for tag, obs, ens in ensembles(shapes=((2, 2), (14, 6)), dts=("f8",),
                                   kinds=("rand", "ties")):
        check(f"metrics.dscore/[n,1][{tag}]", m.dscore, obs, np.asarray(ens)[:, :1])

    # categories
    for n in [1, 2, 9, 60]:
        for ncat in [2, 3]:
            o = RNG.randint(0, ncat, n)
            s = RNG.randint(0, ncat, n)
            for dt in [np.int64, np.int32, np.float64, bool]:
                if dt is bool and ncat > 2:
                    continue
                od, sd = o.astype(dt), s.astype(dt)
                for (lay, ol), (_, sl) in zip(layouts(od), layouts(sd)):
                    tag = f"n={n},ncat={ncat},{np.dtype(dt).name},{lay}"
                    check(f"metrics.confusion_matrix[{tag}]",
                          m.confusion_matrix, ol, sl)
                    check(f"metrics.confusion_matrix/ncat[{tag}]",
                          m.confusion_matrix, ol, sl, ncat=ncat+1)
                check(f"metrics.confusion_matrix[n={n},ncat={ncat},series]",
                      m.confusion_matrix, pd.Series(od), pd.Series(sd))

    for mat in [[[50, 3], [7, 40]], [[1, 0], [0, 1]], [[0, 0], [0, 0]],
                [[3000000000, 1], [2, 3000000000]], [[5, 5], [5, 5]]]:
        for dt in [np.int64, np.float64, np.int32]:
            try:
                a = np.array(mat).astype(dt)
            except Exception:
                continue
            for lay, al in layouts(a, ("c", "strided", "rev", "F")):
                check(f"metrics.binary[{mat},{np.dtype(dt).name},{lay}]",
                      m.binary, al)
            check(f"metrics.binary[{mat},{np.dtype(dt).name},frame]",
                  m.binary, pd.DataFrame(a))


# ---------------------------------------------------------------------------
# stat.sutils, stat.armodels
# ---------------------------------------------------------------------------
def run_sutils():
    s = sutils
    for n in [0, 1, 2, 5, 5, 100, 5]:
        for cst in [0., 0.3, 0.375, 0.5, 0.3]:
            check(f"sutils.ppos[{n},{cst}]", s.ppos, n, cst)
        check(f"sutils.ppos[{n}]", s.ppos, n)
        check(f"sutils.ppos[np.int64({n}),np.float64(0.4)]", s.ppos,
              np.int64(n), np.float64(0.4))
    check("sutils.ppos[cst=0.6]", s.ppos, 10, 0.6)
    check("sutils.ppos[cst=0 int]", s.ppos, 10, 0)

    for tag, x in vectors():
        n = len(x)
        for maxlag in [1, 3]:
            check(f"sutils.acf[maxlag={maxlag},{tag}]", s.acf, x,
                  maxlag=maxlag)
        idx = np.asarray(x) >= 1
        check(f"sutils.acf/idx[{tag}]", s.acf, x, maxlag=2, idx=idx)
        check(f"sutils.standard_normal[{tag}]", s.standard_normal, x)
        check(f"sutils.standard_normal/sorted[{tag}]", s.standard_normal,
              x, cst=0.3, sorted=True)
        check(f"sutils.standard_normal/min[{tag}]", s.standard_normal,
              x, cst=0.4, rank_method="min")

    for tag, x in matrices(shapes=((1, 2), (2, 2), (3, 2), (40, 2)),
                           kinds=("rand", "ties")):
        arr = np.asarray(x)
        xc = x - 3 if not isinstance(x, pd.DataFrame) else x
        check(f"sutils.semicorr[{tag}]", s.semicorr, xc)

    for tag, x in matrices(shapes=((1, 1), (2, 3), (9, 2), (25, 4)),
                           kinds=("rand", "ties", "nan")):
        for orient in [1, -1]:
            check(f"sutils.pareto_front[{orient},{tag}]", s.pareto_front,
                  x, orient)

    for nsamples in [1, 2, 10]:
        for pmin, pmax in [([0.], [1.]), (np.zeros(3), np.ones(3)),
                           (np.array([0, 1, 2]), np.array([5])),
                           (pd.Series([0., 1.]), pd.Series([2., 3.])),
                           ([0, 0], [1, 0])]:
            check(f"sutils.lhs[{nsamples},{len(pmin)}]", s.lhs, nsamples,
                  pmin, pmax)
        mean = np.array([1., 2.])
        cov = np.array([[1., 0.3], [0.3, 2.]])
        check(f"sutils.lhs_norm[{nsamples}]", s.lhs_norm, nsamples, mean,
              cov)
        check(f"sutils.lhs_norm/strided[{nsamples}]", s.lhs_norm, nsamples,
              np.arange(1., 5.)[::2], np.asfortranarray(cov))

    for n, p in [(3, 1), (4, 2), (12, 3), (50, 2)]:
        for kind in ["rand", "nan", "ties"]:
            X = np.round(RNG.normal(size=(n, p)), 2)
            y = X.sum(axis=1) + np.round(RNG.normal(size=n), 2)
            if kind == "nan" and n > 4:
                X[1, 0] = np.nan
                y[2] = np.nan
            if kind == "ties":
                X = np.round(X)
            for dt in ["f8", "i8", "f4"]:
                if kind == "nan" and dt == "i8":
                    continue
                Xd, yd = X.astype(DTYPES[dt]), y.astype(DTYPES[dt])
                for lay, Xl in layouts(Xd, ("c", "strided", "rev", "F")):
                    yl = list(layouts(yd, ("strided",)))[0][1]
                    tag = f"n={n},p={p},{kind},{dt},{lay}"
                    check(f"sutils.lstsq[{tag}]", s.lstsq, Xl, yl)
                    check(f"sutils.lstsq/intercept[{tag}]", s.lstsq, Xl, yl,
                          add_intercept=True)
                df = pd.DataFrame(Xd.copy(),
                                  columns=[f"x{i}" for i in range(p)])
                se = pd.Series(yd.copy())
                tag = f"n={n},p={p},{kind},{dt},pandas"
                check(f"sutils.lstsq[{tag}]", s.lstsq, df, se)
                check(f"sutils.lstsq/intercept[{tag}]", s.lstsq, df, se,
                      add_intercept=True)
                R = [np.ones((1, p))]
                r = [np.zeros(1)]
                check(f"sutils.lstsq/Rtest[{tag}]", s.lstsq, Xd, yd,
                      Rtest=R, rtest=r)


def run_armodels():
    a = armodels
    paramsets = [("float", 0.9), ("1", np.array([0.5])),
                 ("2", np.array([0.5, 0.2])),
                 ("2strided", np.array([0.5, 9., 0.2])[::2]),
                 ("int", np.array([1, 0])), ("list", [0.3, 0.1, 0.05])]
    for tag, x in vectors(ns=(1, 2, 3, 30)):
        for ptag, params in paramsets:
            check(f"armodels.armodel_sim[{ptag},{tag}]", a.armodel_sim,
                  params, x)
            check(f"armodels.armodel_residual[{ptag},{tag}]",
                  a.armodel_residual, params, x)
        check(f"armodels.armodel_sim/ini[{tag}]", a.armodel_sim,
              0.8, x, sim_mean=2., sim_ini=1)
        check(f"armodels.armodel_residual/ini[{tag}]", a.armodel_residual,
              0.8, x, sim_mean=2., sim_ini=1)

    for tag, x in matrices(shapes=((1, 1), (5, 2), (20, 3)),
                           kinds=("rand", "nan"), dts=("f8", "i8")):
        check(f"armodels.armodel_sim/2d[{tag}]", a.armodel_sim, 0.7, x)
        check(f"armodels.armodel_residual/2d[{tag}]", a.armodel_residual,
              [0.7, 0.1], x)

    for acf in [[1., 0.5], [1., 0.8, 0.5, 0.2], [1, 0, 0], [1., 1.]]:
        for dt in ["f8", "f4", "i8"]:
            ad = np.array(acf).astype(DTYPES[dt])
            for lay, al in layouts(ad):
                check(f"armodels.yule_walker[{acf},{dt},{lay}]",
                      a.yule_walker, al)
            check(f"armodels.yule_walker[{acf},{dt},series]",
                  a.yule_walker, pd.Series(ad))
        check(f"armodels.yule_walker[{acf},list]", a.yule_walker, acf)


# ---------------------------------------------------------------------------
# stat.transform
# ---------------------------------------------------------------------------
def make_transforms():
    g = transform.get_transform
    trs = [("Identity", g("Identity")),
           ("Logit", g("Logit", lower=-1., logdelta=4.)),
           ("Log", g("Log", nu=0.1)),
           ("Log10", transform.Log(base=10)),
           ("BoxCox2", g("BoxCox2", nu=0.1, lam=0.2)),
           ("BoxCox2/lam0", g("BoxCox2", nu=0.1, lam=0.)),
           ("BoxCox2/lam1e-10", g("BoxCox2", nu=0.1, lam=1e-10)),
           ("BoxCox2/lam2e-10", g("BoxCox2", nu=0.1, lam=2e-10)),
           ("BoxCox1lam", g("BoxCox1lam", nu=0.1, lam=0.3)),
           ("BoxCox1lam/nunan", g("BoxCox1lam", lam=0.3)),
           ("BoxCox1nu", g("BoxCox1nu", nu=0.1, lam=0.3)),
           ("BoxCox2sym", g("BoxCox2sym", nu=0.1, lam=0.3)),
           ("BoxCox2sym/lam0", g("BoxCox2sym", nu=0.5, lam=0.)),
           ("YeoJohnson", g("YeoJohnson", nu=-1., scale=0.5, lam=0.7)),
           ("YeoJohnson/lam0", g("YeoJohnson", lam=0.)),
           ("YeoJohnson/lam2", g("YeoJohnson", nu=-3., lam=2.)),
           ("Reciprocal", g("Reciprocal", nu=0.2)),
           ("Sinh", g("Sinh", nu=1., scale=0.3)),
           ("LogSinh", g("LogSinh", loga=-2., logb=0.5, xmax=30.)),
           ("LogSinh/nan", g("LogSinh", loga=-2., logb=0.5)),
           ("Manly", g("Manly", lam=0.5, xmax=30.)),
           ("Manly/lam0", g("Manly", lam=0., xmax=30.)),
           ("Manly/lam1e-10", g("Manly", lam=1e-10, xmax=30.)),
           ]
    return trs


def run_transform():
    trs = make_transforms()
    inputs = list(vectors(ns=(1, 2, 9), kinds=("rand", "ties", "nan",
                                               "zero"),
                          dts=("f8", "f4", "i8")))
    # negative values and scalars
    xneg = np.round(RNG.normal(0, 5, 8), 2)
    inputs += [(f"neg,{lay}", x) for lay, x in layouts(xneg)]
    inputs += [("neg,series", pd.Series(xneg.copy()))]
    inputs += [("scalar float", 2.5), ("scalar 0", 0.), ("scalar int", 3),
               ("scalar np", np.float64(1.5)), ("0d", np.array(2.)),
               ("scalar -1", -1.), ("2d", np.abs(xneg).reshape((4, 2))),
               ("2d,F", np.asfortranarray(np.abs(xneg).reshape((4, 2))))]

    for tname, trans in trs:
        for tag, x in inputs:
            check(f"transform.forward[{tname},{tag}]", trans.forward, x)
            check(f"transform.backward[{tname},{tag}]", trans.backward, x)
            check(f"transform.jacobian[{tname},{tag}]", trans.jacobian, x)
        for tag, x in inputs[::7]:
            check(f"transform.backward_censored[{tname},{tag}]",
                  trans.backward_censored, x, censor=0.5)
        check(f"transform.params_sample[{tname}]", trans.params_sample, 7)
        check(f"transform.params_logprior[{tname}]", trans.params_logprior)

    # Softmax: rows of positive values summing to less than 1
    soft = transform.Softmax()
    for shape in [(1, 1), (1, 3), (4, 2), (10, 3)]:
        x = RNG.uniform(0, 1, shape)
        x = x/(x.sum(axis=1)[:, None]+0.5)
        for dt in ["f8", "f4"]:
            for lay, xl in layouts(x.astype(DTYPES[dt]),
                                   ("c", "strided", "rev", "F")):
                tag = f"{shape},{dt},{lay}"
                check(f"transform.forward[Softmax,{tag}]", soft.forward, xl)
                check(f"transform.backward[Softmax,{tag}]", soft.backward,
                      xl)
                check(f"transform.jacobian[Softmax,{tag}]", soft.jacobian,
                      xl)
        check(f"transform.forward[Softmax,{shape},int zeros]", soft.forward,
              np.zeros(shape, dtype=np.int64))

    # the symmetric transform keeps in memory the transform of 0: change
    # the parameters between calls, in both directions, and replace the
    # inner transform
    sym = transform.get_transform("BoxCox2sym", nu=0.1, lam=0.3)
    x = np.array([-3., -0.5, 0., 0.2, 7.])

    def sym_forward(nu, lam, x):
        sym.params.values = [nu, lam]
        return sym.forward(x)

    def sym_backward(nu, lam, x):
        sym.params.values = [nu, lam]
        return sym.backward(x)

    for nu, lam in [(0.1, 0.3), (0.2, 0.3), (0.2, 0.), (0.1, 0.3), (5., 1.),
                    (0.2, 1e-10), (0.1, 0.3), (1e-12, 0.3), (0.1, 7.)]:
        check(f"transform.forward[BoxCox2sym,nu={nu},lam={lam}]",
              sym_forward, nu, lam, x)
        check(f"transform.backward[BoxCox2sym,nu={nu},lam={lam}]",
              sym_backward, nu, lam, x)
        fresh = transform.get_transform("BoxCox2sym", nu=nu, lam=lam)
        a, b = sym_forward(nu, lam, x), fresh.forward(x)
        if fp_result(a) != fp_result(b):
            FAILURES.append("BoxCox2sym: a transform whose parameters have "
                            + f"been changed to nu={nu},lam={lam} differs "
                            + "from a new one")
        a, b = sym_backward(nu, lam, x), fresh.backward(x)
        if fp_result(a) != fp_result(b):
            FAILURES.append("BoxCox2sym backward: history dependent")

    sym.nu = 0.7
    fresh = transform.get_transform("BoxCox2sym", nu=0.7, lam=sym.lam)
    if fp_result(sym.forward(x)) != fp_result(fresh.forward(x)):
        FAILURES.append("BoxCox2sym: attribute assignment not followed")

    # inner transform replaced by one with other bounds
    def sym_inner(mininu, x):
        tr = transform.get_transform("BoxCox2sym", nu=0.1, lam=0.3)
        first = tr.forward(x)
        tr.BC = transform.BoxCox2(mininu=mininu, minilam=0.)
        return first, tr.forward(x), tr.backward(x)

    for mininu in [1e-10, 0.1, 1., 3.]:
        check(f"transform.forward[BoxCox2sym,inner mininu={mininu}]",
              sym_inner, mininu, x)
    try:
        a = sym_inner(1., x)
        bc = transform.BoxCox2(mininu=1., minilam=0.)
        bc.params.values = [0.1, 0.3]
        b = np.sign(x)*(bc.forward(np.abs(x))-bc.forward(0.))
        if not np.array_equal(a[1], b, equal_nan=True):
            FAILURES.append("BoxCox2sym: replaced inner transform not "
                            + "followed")
    except Exception as err:
        FAILURES.append(f"BoxCox2sym: inner transform check failed ({err})")


# ---------------------------------------------------------------------------
# data.dutils, data.qualitycontrol, data.signatures
# ---------------------------------------------------------------------------
def run_data():
    d, q, sg = dutils, qualitycontrol, signatures

    for n in [0, 1, 2, 7, 30]:
        b = RNG.uniform(0, 1, n) > 0.5
        for kind in ["rand", "alltrue", "allfalse"]:
            if kind == "alltrue":
                b = np.ones(n, dtype=bool)
            elif kind == "allfalse":
                b = np.zeros(n, dtype=bool)
            for lay, bl in layouts(b):
                check(f"dutils.sequence_true[n={n},{kind},{lay}]",
                      d.sequence_true, bl)
            check(f"dutils.sequence_true[n={n},{kind},series]",
                  d.sequence_true, pd.Series(b))
            check(f"dutils.sequence_true[n={n},{kind},int]",
                  d.sequence_true, b.astype(np.int64))

    for tag, x in vectors(ns=(1, 2, 9), kinds=("rand", "nan", "ties")):
        for lg in [-3, -1, 0, 1, 2, 20]:
            check(f"dutils.lag[{lg},{tag}]", d.lag, x, lg)
        check(f"dutils.lag/missing[{tag}]", d.lag, x, 1, missing=-9)
        check(f"dutils.cast[{tag}]", d.cast, x, x)
        check(f"dutils.cast/scalar[{tag}]", d.cast, 1., x)
        check(f"qualitycontrol.ismisscens[{tag}]", q.ismisscens, x)
        check(f"qualitycontrol.ismisscens/censor[{tag}]", q.ismisscens, x,
              censor=1., eps=1e-3)
        check(f"signatures.fdcslope[{tag}]", sg.fdcslope, x)
        check(f"signatures.fdcslope/q[{tag}]", sg.fdcslope, x, q1=10,
              q2=90, cst=0.3, trans=transform.get_transform("Log", nu=1.))
        check(f"signatures.eckhardt[{tag}]", sg.eckhardt, x)
        check(f"signatures.eckhardt/hourly[{tag}]", sg.eckhardt, x,
              thresh=0.8, tau=100, BFI_max=0.5, timestep_type=0)

    for tag, x in matrices(kinds=("rand", "nan", "ties")):
        check(f"dutils.lag/2d[{tag}]", d.lag, x, 1)
        check(f"qualitycontrol.ismisscens/2d[{tag}]", q.ismisscens, x)

    # linear interpolation: straight lines, plateaux, values at the threshold
    for n in [0, 1, 2, 3, 4, 10, 40]:
        for kind in ["rand", "linear", "const", "mixed"]:
            if kind == "rand":
                x = np.round(RNG.uniform(0, 10, n), 2)
            elif kind == "linear":
                x = 1.+0.5*np.arange(n)
            elif kind == "const":
                x = np.zeros(n)
            else:
                x = np.concatenate([np.arange(n//2)*1., np.full(n-n//2, 2.)])
                x[n//3:n//3+1] = np.nan
            for dt in ["f8", "f4", "i8"]:
                xd = x.astype(DTYPES[dt]) if not (dt == "i8" and
                                                  np.isnan(x).any()) else None
                if xd is None:
                    continue
                for lay, xl in layouts(xd):
                    tag = f"n={n},{kind},{dt},{lay}"
                    check(f"qualitycontrol.islinear[{tag}]", q.islinear, xl)
                    check(f"qualitycontrol.islinear/np1[{tag}]", q.islinear,
                          xl, npoints=1, tol=1e-3, thresh=1.)
                check(f"qualitycontrol.islinear[n={n},{kind},{dt},series]",
                      q.islinear, pd.Series(xd))

    # aggregation
    for n in [1, 2, 5, 40]:
        for kind in ["rand", "nan", "ties"]:
            x = list(contents(n, (kind,)))[0][1]
            agg = np.sort(RNG.randint(0, max(1, n//3)+1, n))
            for dt in ["f8", "i8", "f4"]:
                if kind == "nan" and dt == "i8":
                    continue
                xd = x.astype(DTYPES[dt])
                for adt in [np.int64, np.int32, np.float64]:
                    ad = agg.astype(adt)
                    for (lay, xl), (_, al) in zip(layouts(xd), layouts(ad)):
                        tag = f"n={n},{kind},{dt},{np.dtype(adt).name},{lay}"
                        for op in [0, 1, 2, 3]:
                            check(f"dutils.aggregate[op={op},{tag}]",
                                  d.aggregate, al, xl, operator=op)
                        check(f"dutils.aggregate/maxnan[{tag}]",
                              d.aggregate, al, xl, operator=1, maxnan=2)
                        check(f"dutils.flathomogen[{tag}]", d.flathomogen,
                              al, xl)
                        check(f"dutils.flathomogen/maxnan[{tag}]",
                              d.flathomogen, al, xl, maxnan=1)
                        check(f"signatures.goue[{tag}]", sg.goue, al, xl)
                tag = f"n={n},{kind},{dt},series"
                check(f"dutils.aggregate[{tag}]", d.aggregate,
                      pd.Series(agg), pd.Series(xd))
                check(f"dutils.flathomogen[{tag}]", d.flathomogen,
                      pd.Series(agg), pd.Series(xd))
                check(f"signatures.goue[{tag}]", sg.goue,
                      pd.Series(agg), pd.Series(xd))
        # decreasing index: refused
        check(f"dutils.aggregate/decreasing[n={n}]", d.aggregate,
              np.arange(n)[::-1], np.ones(n))

    # time series
    for start, n in [("2000-01-01", 1), ("2000-02-27", 5),
                     ("1999-11-03", 800), ("1900-02-25", 10)]:
        days = pd.date_range(start, periods=n, freq="D")
        check(f"dutils.dayofyear[{start},{n}]", d.dayofyear, days)
        for ts in ["D", "MS", "AS", "AS-JUL", "h"]:
            check(f"dutils.compute_aggindex[{ts},{start},{n}]",
                  d.compute_aggindex, days, ts)
        for dt in ["f8", "i8", "f4"]:
            vals = np.round(RNG.uniform(0, 10, n), 1).astype(DTYPES[dt])
            if dt != "i8" and n > 3:
                vals[2] = np.nan
            se = pd.Series(vals, index=days)
            for w in [1, 3, 5]:
                check(f"dutils.water_year_end[{w},{start},{n},{dt}]",
                      d.water_year_end, se, convolve_window=w)
            sev = pd.Series(vals, index=days +
                            pd.to_timedelta(RNG.randint(0, 3000, n), "s"))
            sev = sev.sort_index()
            for rain in [False, True]:
                check(f"dutils.var2h[{rain},{start},{n},{dt}]", d.var2h,
                      sev, rainfall=rain)
            check(f"dutils.var2h/1800[{start},{n},{dt}]", d.var2h,
                  sev, nbsec_per_period=1800, maxgapsec=3600)

    for start, n in [("2000-01-01", 1), ("2000-02-01", 2),
                     ("1999-11-01", 30)]:
        months = pd.date_range(start, periods=n, freq="MS")
        for dt in ["f8", "i8", "f4"]:
            vals = np.round(RNG.uniform(0, 100, n)).astype(DTYPES[dt])
            if dt != "i8" and n > 3:
                vals[2] = np.nan
            se = pd.Series(vals, index=months)
            for interp in ["flat", "cubic"]:
                check(f"dutils.monthly2daily[{interp},{start},{n},{dt}]",
                      d.monthly2daily, se, interpolation=interp)
            check(f"dutils.monthly2daily/thresh[{start},{n},{dt}]",
                  d.monthly2daily, se, minthreshold=20.)


# ---------------------------------------------------------------------------
# gis
# ---------------------------------------------------------------------------
FLOWDIR_DATA = [[0, 4, 4, 4, 0, 0],
                [0, 4, 4, 8, 0, 0],
                [0, 2, 4, 8, 0, 0],
                [0, 0, 2, 0, 0, 0],
                [0, 0, 0, 4, 0, 0],
                [0, 0, 0, 0, 0, 0]]


def make_flowdir(dtype=np.int32, big=False):
    if big:
        # everything flows south then east towards the bottom right corner
        nr, nc = 30, 40
        fd = Grid("fdbig", nc, nr, dtype=dtype, nodata=-1)
        data = np.full((nr, nc), 4)
        data[-1, :] = 1
        fd.data = data
    else:
        fd = Grid("fd", 6, 6, dtype=dtype, nodata=-1)
        fd.data = FLOWDIR_DATA
    return fd


def make_grid(dtype, nrows=7, ncols=5, kind="rand"):
    gr = Grid("g", ncols, nrows, cellsize=2., xllcorner=130., yllcorner=-39.,
              dtype=dtype)
    data = np.round(RNG.uniform(0, 50, (nrows, ncols)))
    if kind == "ties":
        data = np.round(data/20)
    gr.data = data
    return gr


def run_grid():
    for dt in [np.float64, np.int32, np.int64, np.float32]:
        dn = np.dtype(dt).name
        gr = make_grid(dt)
        xy = np.column_stack([RNG.uniform(129, 141, 12),
                              RNG.uniform(-40, -24, 12)])
        xy[0] = [130., -39.]      # corner
        xy[1] = [132., -37.]      # cell edge
        xy[2] = [140., -25.]      # upper right corner: outside
        cells = np.array([0, 1, 5, 34, 17, 17, 34])
        for lay, xyl in layouts(xy, ("c", "strided", "rev", "F")):
            check(f"Grid.coord2cell[{dn},{lay}]", gr.coord2cell, xyl)
            check(f"Grid.slice[{dn},{lay}]", gr.slice, xyl)
        check(f"Grid.coord2cell[{dn},frame]", gr.coord2cell,
              pd.DataFrame(xy))
        check(f"Grid.coord2cell[{dn},int]", gr.coord2cell,
              np.round(xy).astype(np.int64))
        check(f"Grid.coord2cell[{dn},list]", gr.coord2cell, [[131., -38]])
        check(f"Grid.coord2cell[{dn},nan]", gr.coord2cell,
              np.array([[np.nan, -38]]))
        check(f"Grid.slice[{dn},frame]", gr.slice, pd.DataFrame(xy))
        for cdt in [np.int64, np.int32, np.float64]:
            for lay, cl in layouts(cells.astype(cdt)):
                tag = f"{dn},{np.dtype(cdt).name},{lay}"
                check(f"Grid.cell2coord[{tag}]", gr.cell2coord, cl)
                check(f"Grid.cell2rowcol[{tag}]", gr.cell2rowcol, cl)
            check(f"Grid.cell2coord[{dn},{np.dtype(cdt).name},series]",
                  gr.cell2coord, pd.Series(cells.astype(cdt)))
        check(f"Grid.cell2coord[{dn},outside]", gr.cell2coord, [35])
        check(f"Grid.cell2rowcol[{dn},negative]", gr.cell2rowcol, [-1])
        for c in [0, 4, 17, 34, 35, -1]:
            check(f"Grid.neighbours[{dn},{c}]", gr.neighbours, c)
        check(f"Grid.clip[{dn}]", gr.clip, 132.5, -36.5, 137., -30.)
        check(f"Grid.clip/whole[{dn}]", gr.clip, 130.1, -38.9, 139.9, -25.1)
        check(f"Grid.clone[{dn}]", gr.clone)
        check(f"Grid.clone/f4[{dn}]", gr.clone, np.float32)
        check(f"Grid.apply[{dn}]", gr.apply, np.sqrt)
        check(f"Grid.apply/args[{dn}]", gr.apply, np.clip, 10, 20)
        check(f"Grid.to_dict[{dn}]", gr.to_dict)
        check(f"Grid.xvalues[{dn}]", lambda g: (g.xvalues, g.yvalues), gr)

        other = Grid("o", 4, 3, cellsize=3., xllcorner=131., yllcorner=-38.,
                     dtype=np.float64)
        for method in ["linear", "nearest"]:
            check(f"Grid.interpolate[{dn},{method}]", gr.interpolate, other,
                  method=method)
        check(f"Grid.interpolate/same[{dn}]", gr.interpolate, gr.clone())

        poly = np.array([[131., -38.], [138., -37.], [136., -28.],
                         [131., -30.]])
        for lay, pl in layouts(poly, ("c", "strided", "rev", "F")):
            check(f"Grid.cells_inside_polygon[{dn},{lay}]",
                  gr.cells_inside_polygon, pl)
        check(f"Grid.cells_inside_polygon[{dn},int]",
              gr.cells_inside_polygon, poly.astype(np.int64))

        # assigning data copies them
        def setdata(g, arr):
            g2 = g.clone()
            g2.data = arr
            return g2
        newdata = np.round(RNG.uniform(0, 9, (7, 5)), 1)
        for lay, nl in layouts(newdata, ("c", "strided", "rev", "F")):
            check(f"Grid.data=[{dn},{lay}]", setdata, gr, nl)
        check(f"Grid.data=[{dn},frame]", setdata, gr, pd.DataFrame(newdata))
        check(f"Grid.data=[{dn},int]", setdata, gr,
              newdata.astype(np.int64))

        # smoothing
        mask = make_grid(np.int32, kind="ties")
        for g in [gr, make_grid(dt, kind="ties")]:
            check(f"grid.gsmooth[{dn}]", gridmod.gsmooth, g, coastwin=3,
                  sigma=1.)
            check(f"grid.gsmooth/mask[{dn}]", gridmod.gsmooth, g, mask=mask,
                  coastwin=3, sigma=1., minval=5.)

        fig = Figure()
        ax = fig.add_subplot(111)
        check(f"Grid.plot[{dn}]", gr.plot, ax)
        check(f"Grid.plot_values[{dn}]", gr.plot_values, ax, fmt="0.0f",
              mini=10)

    # points in polygon
    poly = np.array([[0., 0.], [4., 0.], [4., 4.], [2., 2.], [0., 4.]])
    pts = np.column_stack([RNG.uniform(-1, 5, 30), RNG.uniform(-1, 5, 30)])
    pts[:5] = poly                 # vertices
    pts[5] = [2., 0.]              # on an edge
    pts[6] = [2., 3.]              # in the notch
    for dt in ["f8", "f4", "i8"]:
        for lay, pl in layouts(pts.astype(DTYPES[dt]),
                               ("c", "strided", "rev", "F")):
            for play, polyl in layouts(poly.astype(DTYPES[dt]),
                                       ("c", "strided")):
                check(f"gutils.points_inside_polygon[{dt},{lay},{play}]",
                      gutils.points_inside_polygon, pl, polyl)
        check(f"gutils.points_inside_polygon[{dt},frame]",
              gutils.points_inside_polygon,
              pd.DataFrame(pts.astype(DTYPES[dt])),
              pd.DataFrame(poly.astype(DTYPES[dt])))
    check("gutils.points_inside_polygon[1 point]",
          gutils.points_inside_polygon, pts[:1].copy(), poly)
    check("gutils.points_inside_polygon[2 vertices]",
          gutils.points_inside_polygon, pts, poly[:2].copy())
    check("gutils.points_inside_polygon[atol]",
          gutils.points_inside_polygon, pts, poly, atol=1e-2)


def catchment_state(ca, names=None):
    """ What a catchment knows, copied """
    if names is None:
        names = ["_idxcell_outlet", "_idxcells_area",
                 "_idxcells_area_filled", "_idxcells_boundary",
                 "_xycells_boundary", "_flowpathlengths"]
    out = {}
    for name in names:
        value = getattr(ca, name, None)
        out[name] = None if value is None else \
            (value.copy() if hasattr(value, "copy") else value)
    return out


AREA = ["_idxcell_outlet", "_idxcells_area", "_idxcells_area_filled"]


def run_catchment():
    g = gridmod

    # .. the functions below only depend on their arguments: the catchment
    #    they are given is either set entirely by the call (area) or
    #    cloned before being changed
    def delineate(ca, outlet, inlets=None, nval=1000000):
        try:
            ca.delineate_area(outlet, inlets, nval=nval)
        finally:
            state = catchment_state(ca, AREA)
        return state

    def boundary(ca, mask=None):
        ca = ca.clone()
        ca.delineate_boundary(mask)
        return catchment_state(ca)

    def boundary_twice(ca):
        # same object, boundary delineated twice in a row
        ca = ca.clone()
        ca.delineate_boundary()
        first = catchment_state(ca)
        ca.delineate_boundary()
        return first, catchment_state(ca)

    def flowpaths(ca):
        ca = ca.clone()
        ca.compute_flowpathlengths()
        return catchment_state(ca)

    for dt in [np.int32, np.int64, np.float64]:
        dn = np.dtype(dt).name
        for big in [False, True]:
            fd = make_flowdir(dt, big)
            ncell = fd.nrows*fd.ncols
            tagb = f"{dn},{'big' if big else 'small'}"
            outlets = [27, 12, 14, 27, 3, 35, 0] if not big \
                else [ncell-1, ncell-5, 45, ncell-1]

            # catchment whose area changes from call to call
            cw = Catchment("cw", fd)
            for outlet in outlets:
                check(f"Catchment.delineate_area[{tagb},{outlet}]",
                      delineate, cw, outlet)
            # buffer too small, then large enough again
            for nval in [3, 1, 5000, 0, 2000001]:
                check(f"Catchment.delineate_area/nval={nval}[{tagb}]",
                      delineate, cw, outlets[0], None, nval)
            check(f"Catchment.delineate_area/outside[{tagb}]",
                  delineate, cw, ncell)
            if not big:
                for inlets in [14, [14, 13], np.array([14, 13, 99])[:2],
                               np.array([14., 13.]), pd.Series([14]),
                               [14, 14], np.array([14, 99, 13])[::2]]:
                    check(f"Catchment.delineate_area/inlets[{tagb},"
                          + f"{type(inlets).__name__}]",
                          delineate, cw, 27, inlets)

            # catchment that does not change anymore
            ca = Catchment("ca", fd)
            ca.delineate_area(outlets[0])
            ca.delineate_boundary()
            ca.compute_flowpathlengths()

            check(f"Catchment.delineate_boundary[{tagb}]", boundary, ca)
            check(f"Catchment.delineate_boundary/twice[{tagb}]",
                  boundary_twice, ca)
            mask = np.zeros(ncell, dtype=np.int64)
            mask[ca.idxcells_area_filled] = 1
            check(f"Catchment.delineate_boundary/mask[{tagb}]", boundary,
                  ca, mask)
            big2 = np.zeros(2*ncell, dtype=np.int64)
            big2[::2] = mask
            check(f"Catchment.delineate_boundary/mask strided[{tagb}]",
                  boundary, ca, big2[::2])
            check(f"Catchment.delineate_boundary/mask int32[{tagb}]",
                  boundary, ca, mask.astype(np.int32))
            check(f"Catchment.delineate_boundary/mask wrong[{tagb}]",
                  boundary, ca, mask*0)
            check(f"Catchment.compute_flowpathlengths[{tagb}]", flowpaths,
                  ca)
            check(f"Catchment.extent[{tagb}]", ca.extent)
            check(f"Catchment.to_dict[{tagb}]", ca.to_dict)
            check(f"Catchment.clone[{tagb}]",
                  lambda c: catchment_state(c.clone()), ca)

            # single cell / empty areas
            for outlet in outlets[1:3]:
                cs = Catchment("cs", fd)
                cs.delineate_area(outlet)
                check(f"Catchment.delineate_boundary[{tagb},{outlet}]",
                      boundary, cs)
                check(f"Catchment.compute_flowpathlengths[{tagb},{outlet}]",
                      flowpaths, cs)

            cells = np.array([0, 1, 8, 14, 27, ncell-1, 8])
            for cdt in [np.int64, np.int32, np.float64]:
                for lay, cl in layouts(cells.astype(cdt)):
                    tag = f"{tagb},{np.dtype(cdt).name},{lay}"
                    check(f"Catchment.upstream[{tag}]", ca.upstream, cl)
                    check(f"Catchment.downstream[{tag}]", ca.downstream, cl)
                check(f"Catchment.upstream[{tagb},series]", ca.upstream,
                      pd.Series(cells.astype(cdt)))
            check(f"Catchment.upstream[{tagb},scalar]", ca.upstream, 8)
            check(f"Catchment.downstream[{tagb},outside]", ca.downstream,
                  [ncell])
            for c in [27, 0, ncell-1]:
                check(f"Catchment.isin[{tagb},{c}]", ca.isin, c)
                check(f"Catchment.isin/filled[{tagb},{c}]", ca.isin, c,
                      filled=True)

            # intersection with coarser grids of several sizes (a larger
            # one first, then a smaller one: work vectors shrink and grow)
            for nr, nc, csz in [(4, 5, 2.), (2, 2, 3.), (10, 10, 4.),
                                (1, 1, 50.), (2, 2, 3.)]:
                for gdt in [np.float64, np.int32]:
                    gr = Grid("rain", nc, nr, cellsize=csz, dtype=gdt)
                    gr.data = np.round(RNG.uniform(0, 9, (nr, nc)))
                    tag = f"{tagb},{nr}x{nc},{np.dtype(gdt).name}"
                    check(f"Catchment.intersect[{tag}]", ca.intersect, gr)
                    check(f"Catchment.intersect/filled[{tag}]",
                          ca.intersect, gr, filled=True)

            proj = lambda x, y: (1000.*x+3*y, 1000.*y-x)
            check(f"Catchment.compute_area[{tagb}]", ca.compute_area, proj)
            check(f"Catchment.compute_area/from[{tagb}]", ca.compute_area,
                  proj, proj)

            # combinations
            cb = Catchment("cb", fd)
            cb.delineate_area(outlets[2])
            check(f"Catchment.__add__[{tagb}]",
                  lambda a, b: catchment_state(a+b, AREA), ca, cb)
            check(f"Catchment.__sub__[{tagb}]",
                  lambda a, b: catchment_state(a-b, AREA), ca, cb)

            # voronoi weights
            xy = np.array([[0., 0.], [0., 5.], [5., 0.], [5., 5.],
                           [2.5, 2.5]])
            for xdt in ["f8", "i8", "f4"]:
                for lay, xl in layouts(xy.astype(DTYPES[xdt]),
                                       ("c", "strided", "rev", "F")):
                    check(f"grid.voronoi[{tagb},{xdt},{lay}]", g.voronoi,
                          ca, xl)
                check(f"grid.voronoi[{tagb},{xdt},frame]", g.voronoi, ca,
                      pd.DataFrame(xy.astype(DTYPES[xdt])))
            check(f"grid.voronoi[{tagb},1 point]", g.voronoi, ca,
                  [[1., 1.]])
            check(f"grid.voronoi[{tagb},list]", g.voronoi, ca, xy.tolist())

            # grid level functions: the grids are arguments
            for start in [1, 2, 8, 27, 0, ncell-1, ncell]:
                check(f"grid.delineate_river[{tagb},{start}]",
                      g.delineate_river, fd, start)
            check(f"grid.delineate_river/nval=2[{tagb}]", g.delineate_river,
                  fd, 1, nval=2)
            check(f"grid.accumulate[{tagb}]", g.accumulate, fd, nprint=10)
            check(f"grid.accumulate/nprint=0[{tagb}]", g.accumulate, fd,
                  nprint=0)
            check(f"grid.accumulate/max[{tagb}]", g.accumulate, fd,
                  nprint=10, max_accumulated_cells=2)
            for adt in [np.float64, np.int32, np.float32]:
                toacc = Grid("toacc", fd.ncols, fd.nrows, dtype=adt,
                             nodata=-1)
                toacc.data = np.round(RNG.uniform(1, 9, fd.shape))
                check(f"grid.accumulate/field[{tagb},"
                      + f"{np.dtype(adt).name}]", g.accumulate, fd, toacc,
                      nprint=10)
                alt = Grid("alt", fd.ncols, fd.nrows, dtype=adt,
                           nodata=-9)
                alt.data = np.round(RNG.uniform(0, 3, fd.shape))\
                    + np.arange(fd.nrows)[::-1][:, None]
                check(f"grid.slope[{tagb},{np.dtype(adt).name}]", g.slope,
                      fd, alt, nprint=10)
            check(f"grid.slope/nprint=0[{tagb}]", g.slope, fd, alt,
                  nprint=0)

    # Catchment rebuilt from a dictionary with cells in any order
    fd = make_flowdir()
    ca = Catchment("ca", fd)
    ca.delineate_area(27)
    dic = ca.to_dict()
    dic["idxcells_area_filled"] = dic["idxcells_area_filled"][::-1]
    cd = Catchment.from_dict(dic)
    check("Catchment.from_dict", lambda d: catchment_state(
        Catchment.from_dict(d), AREA), dic)
    check("Catchment.delineate_boundary[from_dict]", boundary, cd)


# ---------------------------------------------------------------------------
# plot
# ---------------------------------------------------------------------------
def run_plot():
    for tag, x in vectors(ns=(1, 2, 3, 4, 5, 30),
                          kinds=("rand", "ties", "nan", "const")):
        check(f"boxplot.boxplot_stats[{tag}]", boxplot.boxplot_stats,
              x, 50., 90.)
        check(f"boxplot.boxplot_stats/40-99[{tag}]", boxplot.boxplot_stats,
              x, 40, 99)
    xinf = np.array([1., np.inf, 3., -np.inf, 5., 2., np.nan, 8.])
    for lay, xl in layouts(xinf):
        check(f"boxplot.boxplot_stats[inf,{lay}]", boxplot.boxplot_stats,
              xl, 50., 90.)

    def box(data, draw=False, **kwargs):
        bx = boxplot.Boxplot(data, **kwargs)
        if draw:
            fig = Figure()
            ax = fig.add_subplot(111)
            bx.draw(ax=ax)
            bx.show_count()
        return bx.stats

    def violin(data, draw=False, **kwargs):
        vl = violinplot.Violin(data, **kwargs)
        if draw:
            fig = Figure()
            ax = fig.add_subplot(111)
            vl.draw(ax=ax)
        return vl.stats, vl.kde_x, vl.kde_y

    shapes = ((1, 1), (2, 3), (4, 2), (5, 1), (40, 3))
    for tag, x in matrices(shapes=shapes, kinds=("rand", "ties", "nan"),
                           dts=("f8", "i8", "f4")):
        check(f"boxplot.Boxplot[{tag}]", box, x)
        check(f"violinplot.Violin[{tag}]", violin, x)
        if "shape=(40, 3)" in tag and ("c,array" in tag or "frame" in tag):
            check(f"boxplot.Boxplot/draw[{tag}]", box, x, draw=True,
                  show_mean=True, show_text=True)
            check(f"boxplot.Boxplot/narrow[{tag}]", box, x, draw=True,
                  style="narrow", width_from_count=True)
            check(f"violinplot.Violin/draw[{tag}]", violin, x, draw=True)
            check(f"violinplot.Violin/npts[{tag}]", violin, x,
                  npoints_kde=51, nresample_kde=10)

    for tag, x in vectors(ns=(2, 5, 30), kinds=("rand", "ties", "nan")):
        by = np.arange(len(x)) % 2
        check(f"boxplot.Boxplot/by[{tag}]", box, x, by=by)
        check(f"boxplot.Boxplot/by series[{tag}]", box, x,
              by=pd.Series(by.astype(float), name="cat"))
        check(f"boxplot.Boxplot/1d[{tag}]", box, x)
        check(f"violinplot.Violin/1d[{tag}]", violin, x)
        fig = Figure()
        ax = fig.add_subplot(111)
        check(f"putils.qqplot[{tag}]", putils.qqplot, ax, x)
        check(f"putils.qqplot/line[{tag}]", putils.qqplot, ax, x,
              addline=True)
        check(f"putils.qqplot/censor[{tag}]", putils.qqplot, ax, x,
              addline=True, censor=1.)

    for tag, x in matrices(shapes=((1, 1), (2, 2), (6, 3), (40, 2)),
                           kinds=("rand", "ties", "nan"),
                           dts=("f8", "i8", "f4"), lays=("c",)):
        if not isinstance(x, pd.DataFrame):
            continue
        fig = Figure()
        ax = fig.add_subplot(111)
        check(f"putils.ecdfplot[{tag}]", putils.ecdfplot, ax, x)
        check(f"putils.ecdfplot/stat[{tag}]", putils.ecdfplot, ax, x,
              label_stat="mean", cst=0.3)
    # a view on a larger frame
    dfbig = pd.DataFrame(np.round(RNG.uniform(0, 9, (30, 5)), 1),
                         columns=list("abcde"))
    fig = Figure()
    ax = fig.add_subplot(111)
    check("putils.ecdfplot[column subset]", putils.ecdfplot, ax,
          dfbig[["b", "d"]])
    check("putils.ecdfplot[row subset]", putils.ecdfplot, ax,
          dfbig.iloc[::3])

    for shape in [(3, 2), (4, 2), (30, 2), (2, 30)]:
        for kind in ["rand", "ties"]:
            xy = RNG.normal(size=shape)
            if kind == "ties":
                xy = np.round(xy)
            for dt in ["f8", "f4", "i8"]:
                xd = (xy*(10 if dt == "i8" else 1)).astype(DTYPES[dt])
                for lay, xl in layouts(xd, ("c", "strided", "rev", "F")):
                    tag = f"{shape},{kind},{dt},{lay}"
                    check(f"putils.kde[{tag}]", putils.kde, xl, ngrid=7)
                check(f"putils.kde/eps=0[{shape},{kind},{dt}]", putils.kde,
                      xd, ngrid=5, eps=0.)


# ---------------------------------------------------------------------------
def info():
    """ Details that C18 does not constrain and that differ between
    versions of the library. Printed for information, never a failure. """
    fd = make_flowdir(np.int32)
    alt = Grid("alt", 6, 6, dtype=np.int32, nodata=-9)
    alt.data = np.arange(36).reshape((6, 6))
    with quiet():
        gridmod.accumulate(fd, alt, nprint=0)
    print("   [info] dtype of int32 grid arguments after accumulate: "
          + f"flowdir {fd.data.dtype}, to_accumulate {alt.data.dtype}"
          + " (cell values are the same)")
    print("   [info] nse([1,2,4],[1,3,3]) = "
          + repr(float(metrics.nse(np.array([1., 2., 4.]),
                                   np.array([1., 3., 3.])))))


def main():
    import hydrodiy
    print("hydrodiy from", os.path.dirname(hydrodiy.__file__))
    t0 = time.time()
    steps = [("metrics", run_metrics), ("sutils", run_sutils),
             ("armodels", run_armodels), ("transform", run_transform),
             ("data", run_data), ("grid", run_grid),
             ("catchment", run_catchment), ("plot", run_plot)]
    for name, step in steps:
        n0, f0 = len(CATALOGUE), len(FAILURES)
        step()
        print(f".. {name:10s}: {sum(s[0] for s in STATS.values()):6d} calls"
              + f" so far, {len(FAILURES)-f0} failures"
              + f" ({time.time()-t0:0.0f}s)")

    info()
    print(".. replaying the catalogue in reverse order")
    replay()
    print(f".. done ({time.time()-t0:0.0f}s)")

    if VERBOSE:
        for group in sorted(STATS):
            print(f"   {group:45s} {STATS[group][0]:5d} calls,"
                  + f" {STATS[group][1]:5d} raising twice the same error")

    if "--dump" in sys.argv:
        # fingerprints of the results, to compare two source trees
        import json
        with open(sys.argv[sys.argv.index("--dump")+1], "w") as fo:
            json.dump(DUMP, fo, indent=0)

    ncalls = sum(s[0] for s in STATS.values())
    nraised = sum(s[1] for s in STATS.values())
    print(f"{ncalls} calls x 3 (+ replay), {len(STATS)} functions,"
          + f" {nraised} calls raising (same error twice)")

    if FAILURES:
        print(f"C18 VIOLATED: {len(FAILURES)} failures")
        for fail in FAILURES[:60]:
            print("  ", fail)
        sys.exit(1)

    print("C18 OK: arguments untouched, calls repeatable")
    sys.exit(0)


if __name__ == "__main__":
    main()
