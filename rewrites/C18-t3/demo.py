""" C18 demo (rewrite r3: data/stat functions also accept plain python
sequences; fdcslope returns its quantiles as an array in all branches).
Checks on numpy arrays and pandas objects (C-contiguous / non contiguous,
float / integer) that arguments are left bit-for-bit untouched and that
two calls (same seed when random) give the same answer.

Run as: PYTHONPATH=<tree>/src /venv/bin/python demo.py
"""
import sys
import warnings
import numpy as np
import pandas as pd

warnings.filterwarnings("ignore")

from hydrodiy.gis.grid import Grid
from hydrodiy.stat import metrics, sutils, armodels, transform
from hydrodiy.data import dutils, qualitycontrol, signatures

NFAIL = 0
NCHECK = 0


def fail(msg):
    global NFAIL
    NFAIL += 1
    print("FAIL:", msg)


# ---------- snapshots of arguments -------------------------------------
def snap(a):
    """ Bit-for-bit snapshot of an argument """
    if isinstance(a, Grid):
        # grids: cell values (and geometry)
        return ("grid", a.nrows, a.ncols, a.cellsize, a.xllcorner,
                a.yllcorner, np.array(a.data, dtype=np.float64).tobytes())
    if isinstance(a, np.ndarray):
        return ("nd", str(a.dtype), a.shape, a.strides,
                np.ascontiguousarray(a).tobytes(), a.flags["WRITEABLE"])
    if isinstance(a, pd.Series):
        return ("se", str(a.dtype), a.shape, a.values.tobytes(),
                tuple(a.index), a.name)
    if isinstance(a, pd.DataFrame):
        return ("df", tuple(map(str, a.dtypes)), a.shape,
                np.ascontiguousarray(a.values).tobytes(),
                tuple(a.index), tuple(a.columns))
    if isinstance(a, (list, tuple)):
        return ("seq", type(a).__name__, tuple(snap(x) for x in a))
    return ("obj", repr(a))


# ---------- equality of results ----------------------------------------
def same(x, y):
    if isinstance(x, Grid):
        return isinstance(y, Grid) and snap(x) == snap(y) \
            and x.dtype == y.dtype
    if isinstance(x, np.ndarray):
        return isinstance(y, np.ndarray) and x.dtype == y.dtype \
            and x.shape == y.shape \
            and np.ascontiguousarray(x).tobytes() == \
            np.ascontiguousarray(y).tobytes()
    if isinstance(x, (pd.Series, pd.DataFrame)):
        return type(x) is type(y) and snap(x) == snap(y)
    if isinstance(x, dict):
        return isinstance(y, dict) and list(x) == list(y) \
            and all(same(x[k], y[k]) for k in x)
    if isinstance(x, (list, tuple)):
        return type(x) is type(y) and len(x) == len(y) \
            and all(same(u, v) for u, v in zip(x, y))
    if isinstance(x, (float, np.floating)):
        return type(x) is type(y) and (x == y or (x != x and y != y))
    if isinstance(x, BaseException):
        return type(x) is type(y)
    return type(x) is type(y) and x == y


def run(fun, *args, **kwargs):
    try:
        return fun(*args, **kwargs)
    except Exception as err:
        return err


def check(label, fun, *args, **kwargs):
    """ Call fun twice: arguments untouched, same answer """
    global NCHECK
    NCHECK += 1
    before = snap(list(args)) + snap(list(kwargs.values()))
    r1 = run(fun, *args, **kwargs)
    mid = snap(list(args)) + snap(list(kwargs.values()))
    r2 = run(fun, *args, **kwargs)
    after = snap(list(args)) + snap(list(kwargs.values()))
    if before != mid or before != after:
        fail(f"{label}: arguments modified")
    if not same(r1, r2):
        fail(f"{label}: two calls differ: {r1!r} / {r2!r}")
    return r1



def seeded(fun, seed=5446):
    """ Same random seed before each call """
    def wrapped(*args, **kwargs):
        np.random.seed(seed)
        return fun(*args, **kwargs)
    return wrapped


def layouts1d(x, pandas=True):
    """ Same numbers in different layouts (all inside the quantifier) """
    x = np.asarray(x)
    wide = np.zeros((len(x), 3), dtype=x.dtype)
    wide[:, 1] = x
    strided = np.zeros(2*len(x), dtype=x.dtype)
    strided[::2] = x
    out = {"c": x.copy(), "col": wide[:, 1], "step": strided[::2],
           "neg": x[::-1].copy()[::-1]}
    if pandas:
        out["series"] = pd.Series(x.copy())
    if x.dtype.kind == "f" and np.all(np.isfinite(x)) \
            and np.all(x == np.round(x)):
        out["int64"] = x.astype(np.int64)
        out["int32"] = np.ascontiguousarray(x.astype(np.int32))
        out["int64_step"] = np.repeat(x.astype(np.int64), 2)[::2]
    return out


def layouts2d(x, pandas=True):
    x = np.asarray(x)
    big = np.zeros((2*x.shape[0], 2*x.shape[1]), dtype=x.dtype)
    big[::2, ::2] = x
    out = {"c": x.copy(), "f": np.asfortranarray(x), "step": big[::2, ::2],
           "t": np.ascontiguousarray(x.T).T}
    if pandas:
        out["df"] = pd.DataFrame(x.copy())
    if x.dtype.kind == "f" and np.all(np.isfinite(x)) \
            and np.all(x == np.round(x)):
        out["int64"] = x.astype(np.int64)
        out["int32_f"] = np.asfortranarray(x.astype(np.int32))
    return out


def agree(label, results, keys):
    """ layouts that must give the same answer """
    ref = None
    for k in keys:
        if k not in results:
            continue
        if ref is None:
            ref = results[k]
        elif not same(ref, results[k]):
            fail(f"{label}: layout {k} changes the answer")


RNG = np.random.RandomState(333)


def series_samples():
    smp = {
        "n1": np.array([1.5]), "n2": np.array([2., -1.]),
        "n3": np.array([0., 1., 2.]),
        "ints": np.array([3., 1., 4., 1., 5., 9., 2., 6., 5., 3., 5.]),
        "ties": np.array([1., 1., 1., 2., 2., 0., 0., 3.]),
        "const": np.full(12, 2.),
        "zeros": np.zeros(6),
        "lin": np.array([1., 2., 3., 3., 4., 5., 5., 5., 5., 7.]),
        "rand": RNG.normal(size=57),
        "pos": np.abs(RNG.normal(size=40))*10,
        "nan": np.array([1., np.nan, 3., 4., np.nan, 6., 0., 2.]),
        "allnan": np.full(4, np.nan),
        "cens": np.array([0., 1e-10, 1e-11, -1., 2e-10, 1., 0.]),
        "inf": np.array([1., np.inf, 2., -np.inf, 0.]),
        "big": RNG.uniform(0, 100, size=400),
    }
    return smp


def armodel_checks():
    for sname, x in series_samples().items():
        for params in [0.9, 0., -0.5, np.array([0.5, 0.2]),
                       np.array([0.5, 0.3, 0.1])[::2], np.array([1]),
                       pd.Series([0.4])]:
            for kw in [{}, {"sim_mean": 1.}, {"sim_mean": 2, "sim_ini": -1.}]:
                res_s, res_r = {}, {}
                for lname, xx in layouts1d(x).items():
                    lab = f"armodel {sname}/{lname} {params!r} {kw}"
                    res_s[lname] = check("sim "+lab, armodels.armodel_sim,
                                         params, xx, **kw)
                    res_r[lname] = check("res "+lab,
                                         armodels.armodel_residual,
                                         params, xx, **kw)
                    if lname == "series":
                        continue
                    for r in [res_s[lname], res_r[lname]]:
                        if isinstance(r, BaseException):
                            # e.g. all-nan series without sim_mean
                            if np.all(np.isfinite(x)):
                                fail(lab + f": refused {r!r}")
                        elif r.shape != xx.shape or r.dtype != np.float64:
                            fail(lab + ": shape/dtype of result")
                        elif np.shares_memory(r, xx):
                            fail(lab + ": result aliases the argument")
                agree("armodel_sim "+sname, res_s, ["c", "col", "step", "neg",
                                                  "int64", "int32",
                                                  "int64_step"])
                agree("armodel_res "+sname, res_r, ["c", "col", "step", "neg",
                                                  "int64", "int32",
                                                  "int64_step"])
    # 2d innovations
    for shape in [(1, 1), (2, 1), (1, 3), (20, 3)]:
        x = np.round(RNG.normal(size=shape)*4)
        res = {}
        for lname, xx in layouts2d(x, pandas=False).items():
            res[lname] = check(f"armodel_sim 2d {shape} {lname}",
                               armodels.armodel_sim, 0.7, xx)
            check(f"armodel_res 2d {shape} {lname}",
                  armodels.armodel_residual, [0.7, 0.1], xx, 0.)
        agree(f"armodel_sim 2d {shape}", res, list(res))
    # sim and residual are inverse of each other
    x = RNG.normal(size=100)
    y = armodels.armodel_sim(0.8, x)
    if not np.allclose(armodels.armodel_residual(0.8, y, 0.), x):
        fail("armodel round trip")

    for acf in [np.array([1., 0.5]), np.array([1., 0.5, 0.2]),
                np.array([1., 0.5, 9., 0.2])[[0, 1, 3]],
                np.array([1., 9., 0.5, 9., 0.2])[::2],
                np.array([1, 0, 0]), pd.Series([1., 0.3, 0.1]).values]:
        check(f"yule_walker {acf!r}", armodels.yule_walker, acf)


def dutils_checks():
    for sname, x in series_samples().items():
        res = {}
        for lname, xx in layouts1d(x).items():
            lab = f"{sname}/{lname}"
            for lg in [-3, -1, 0, 1, 2, len(x), -len(x), len(x)+1]:
                r = check(f"lag {lab} {lg}", dutils.lag, xx, lg)
                if isinstance(r, np.ndarray) and np.shares_memory(r, xx):
                    fail(f"lag {lab} {lg}: result aliases the argument")
                check(f"lag {lab} {lg} missing", dutils.lag, xx, lg, -9)
            # boolean vectors
            for bname, b in [("pos", xx > 1), ("notnull", pd.notnull(xx)),
                             ("all", xx == xx), ("none", xx != xx)]:
                check(f"sequence_true {lab} {bname}", dutils.sequence_true, b)
            check(f"ismisscens {lab}", qualitycontrol.ismisscens, xx)
            check(f"ismisscens {lab} c1", qualitycontrol.ismisscens, xx, 1.,
                  1e-5)
            for npts in [1, 3]:
                check(f"islinear {lab} {npts}", qualitycontrol.islinear, xx,
                      npts)
            check(f"islinear {lab} thr", qualitycontrol.islinear, xx, 2,
                  1e-3, 1.5)
            check(f"islinear {lab} badtol", qualitycontrol.islinear, xx, 2,
                  1e-12)
            check(f"islinear {lab} badnpts", qualitycontrol.islinear, xx, 0)

            # aggregation with several indexes
            n = len(x)
            for iname, agg in [("blocks", np.arange(n)//3),
                               ("single", np.zeros(n, dtype=np.int64)),
                               ("each", np.arange(n).astype(np.int32)),
                               ("series", pd.Series(np.arange(n)//2)),
                               ("step", np.repeat(np.arange(n)//4, 2)[::2]),
                               ("short", np.arange(max(n-1, 0)))]:
                for op in [0, 1, 2, 3, 4]:
                    for maxnan in [0, 1]:
                        check(f"aggregate {lab} {iname} {op} {maxnan}",
                              dutils.aggregate, agg, xx, op, maxnan)
                check(f"flathomogen {lab} {iname}", dutils.flathomogen,
                      agg, xx)
                check(f"flathomogen {lab} {iname} 1", dutils.flathomogen,
                      agg, xx, 1)
                check(f"goue {lab} {iname}", signatures.goue, agg, xx)

            check(f"eckhardt {lab}", signatures.eckhardt, xx)
            check(f"eckhardt {lab} h", signatures.eckhardt, xx, 0.9, 10, 0.5,
                  0)
            res[lname] = check(f"fdcslope {lab}", signatures.fdcslope, xx)
            check(f"fdcslope {lab} 50-80", signatures.fdcslope, xx, 50, 80)
            check(f"fdcslope {lab} bad", signatures.fdcslope, xx, 90, 80)
            check(f"fdcslope {lab} log", signatures.fdcslope, xx,
                  trans=transform.Log())
        agree(f"fdcslope {sname}", res, ["c", "col", "step", "neg"])

    # fdcslope: constant series -> (nan, two nan quantiles), usual anchors
    slp, qq = signatures.fdcslope(np.full(10, 3.))
    if not (np.isnan(slp) and len(qq) == 2 and np.all(np.isnan(qq))):
        fail("fdcslope constant series")
    slp, qq = signatures.fdcslope(np.linspace(0, 1, 101), cst=0.5)
    if not (np.isclose(slp, 1.01) and np.allclose(qq, [0.9, 1.])):
        fail("fdcslope anchor")
    if not np.array_equal(qualitycontrol.ismisscens(
            np.array([np.nan, 0., 1.])), [0, 1, 2]):
        fail("ismisscens anchor")

    # 2d inputs of ismisscens
    x2 = np.array([[0., 1.], [np.nan, 2.], [3., 0.], [np.nan, np.nan],
                   [1e-10, 1e-11]])
    res = {}
    for lname, xx in layouts2d(x2).items():
        res[lname] = check(f"ismisscens 2d {lname}",
                           qualitycontrol.ismisscens, xx)
    agree("ismisscens 2d", res, ["c", "f", "step", "t"])
    check("ismisscens 3d", qualitycontrol.ismisscens, np.zeros((2, 2, 2)))
    check("islinear 2d", qualitycontrol.islinear, np.zeros((4, 2)))


def sutils_checks():
    for sname, x in series_samples().items():
        res = {}
        for lname, xx in layouts1d(x).items():
            lab = f"{sname}/{lname}"
            for maxlag in [1, 3]:
                check(f"acf {lab} {maxlag}", sutils.acf, xx, maxlag)
            check(f"acf {lab} idx", sutils.acf, xx, 2, xx > 0.5)
            for meth in ["average", "min", "first"]:
                check(f"standard_normal {lab} {meth}", sutils.standard_normal,
                      xx, 0.3, False, meth)
            check(f"standard_normal {lab} sorted", sutils.standard_normal,
                  xx, 0., True)
            res[lname] = check(f"cvm {lab}", metrics.cramer_von_mises_test,
                               xx)
        agree(f"cvm {sname}", res, ["c", "col", "step", "neg", "series",
                                    "int64", "int32", "int64_step"])

    for shape in [(1, 2), (2, 2), (3, 2), (50, 2), (30, 3), (5, 1)]:
        x = np.round(RNG.normal(size=shape)*3)
        x[0] = x[-1]            # ties
        r1, r2 = {}, {}
        for lname, xx in layouts2d(x).items():
            for ori in [1, -1, 0]:
                r1[(lname, ori)] = check(f"pareto {shape} {lname} {ori}",
                                         sutils.pareto_front, xx, ori)
            r2[lname] = check(f"semicorr {shape} {lname}", sutils.semicorr,
                              xx)
        for ori in [1, -1]:
            agree(f"pareto {shape} {ori}",
                  {k[0]: v for k, v in r1.items() if k[1] == ori},
                  ["c", "f", "step", "t", "int64", "int32_f"])
    xn = RNG.normal(size=(200, 2))
    for lname, xx in layouts2d(xn).items():
        check(f"semicorr normal {lname}", sutils.semicorr, xx)
    check("pareto 1d", sutils.pareto_front, np.zeros(4))

    # random sampling with the same seed
    pmin = np.array([0., 9., -1., 9., 5.])[::2]
    pmax = np.array([1., 2., 7.])
    check("lhs", seeded(sutils.lhs), 20, pmin, pmax)
    check("lhs 1", seeded(sutils.lhs), 1, pmin, pmax)
    check("lhs int", seeded(sutils.lhs), 7, np.array([0, 1]),
          np.array([2, 5], dtype=np.int32))
    cov = np.array([[1., 0.3], [0.3, 2.]])
    check("lhs_norm", seeded(sutils.lhs_norm), 10, np.array([0., 1.]), cov)
    check("lhs_norm f", seeded(sutils.lhs_norm), 10, np.array([0, 1]),
          np.asfortranarray(cov))

    # metrics on obs/sim with a few layouts
    obs = np.abs(RNG.normal(size=60))
    sim = obs + RNG.normal(size=60)*0.1
    obs[3] = np.nan
    for oname, o in layouts1d(obs).items():
        for sname, s_ in layouts1d(sim).items():
            for fun in [metrics.nse, metrics.bias, metrics.kge]:
                check(f"{fun.__name__} {oname}/{sname}", fun, o, s_)
            check(f"nse log {oname}/{sname}", metrics.nse, o, s_,
                  transform.Log())
    ens = np.round(np.abs(RNG.normal(size=(60, 8)))*5)
    obs = np.round(np.abs(RNG.normal(size=60))*5)
    for oname, o in layouts1d(obs).items():
        for ename, e in layouts2d(ens).items():
            check(f"crps {oname}/{ename}", metrics.crps, o, e)
            check(f"pit {oname}/{ename}", metrics.pit, o, e)
            check(f"pit rnd {oname}/{ename}", seeded(metrics.pit), o, e,
                  True)
            check(f"alpha {oname}/{ename}", seeded(metrics.alpha), o, e)


def main():
    armodel_checks()
    dutils_checks()
    sutils_checks()
    print(f"{NCHECK} checks, {NFAIL} failures")
    sys.exit(1 if NFAIL else 0)


if __name__ == "__main__":
    main()
