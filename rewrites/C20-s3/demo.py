#!/usr/bin/env python
""" C20 demo - sampling, ranking and summary helpers return what their
names promise.

    PYTHONPATH=<tree>/src /venv/bin/python demo.py

Exit code 0 when all the checks pass, 1 otherwise.

What is checked is the semantic property only:
* lhs: one point in each of the n equal strata of every parameter range,
* ppos: strictly increasing in (0, 1), symmetric about 0.5,
* standard_normal: scores are a strictly increasing function of the ranks,
  ranks follow the data,
* pareto_front: flag == "another point is strictly better in every
  non-missing coordinate", front of complete data not empty, orientation
  reversal == negation of the data,
* box plot / violin: statistics of the finite values of each column or
  group (count, percentiles at the levels implied by the coverages, ordered
  between min and max, group-wise == group alone), density profile
  normalised to [0, 1].

Statistics are always looked up BY LABEL. Nothing is assumed about row
order, container type (array or series), memory layout, index names, error
message text, exception subclass or the random numbers consumed. Floating
point values are compared with a tolerance of a few ulps of the data scale.
Every helper is also called several times in a row, with earlier results
scribbled over in between, to make sure that no state is shared between
calls.
"""
import sys
import math
import itertools
import warnings

import numpy as np
import pandas as pd

import matplotlib
matplotlib.use("Agg")

from hydrodiy.stat import sutils
from hydrodiy.plot.boxplot import Boxplot, boxplot_stats
from hydrodiy.plot.violinplot import Violin

warnings.filterwarnings("ignore")

EPS = np.finfo(np.float64).eps
COUNTS = {"checks": 0, "failed": 0}


def check(cond, msg):
    COUNTS["checks"] += 1
    if not bool(cond):
        COUNTS["failed"] += 1
        if COUNTS["failed"] <= 50:
            print("FAILED:", msg)


def raises(fun, *args, **kwargs):
    """ True if the call ends with an error (any Exception) """
    try:
        fun(*args, **kwargs)
    except Exception:
        return True
    return False


def same(a, b, rtol=1e-11, atol=0.):
    """ NaN aware comparison of two scalars """
    a, b = float(a), float(b)
    if math.isnan(a) or math.isnan(b):
        return math.isnan(a) and math.isnan(b)
    if math.isinf(a) or math.isinf(b):
        return a == b
    return abs(a-b) <= atol + rtol*max(abs(a), abs(b))


# ===================================================================
# ppos
# ===================================================================
def demo_ppos(rng):
    constants = [0., 0.5, 0.3, 0.3175, 0.375, 0.4, 0.44, 0.25, 1e-9,
                 0.5-1e-9, np.float64(0.1), np.float32(0.25)]
    constants += rng.uniform(0., 0.5, 4).tolist()
    sizes = list(range(1, 66)) + [100, 128, 365, 511, 1000]
    for nval, cst in itertools.product(sizes, constants):
        lab = f"ppos({nval}, {cst})"
        pp = np.asarray(sutils.ppos(nval, cst), dtype=np.float64)
        check(pp.shape == (nval, ), lab+": length")
        if pp.shape != (nval, ):
            continue
        check(pp[0] > 0. and pp[-1] < 1., lab+": in (0, 1)")
        check(np.all(np.diff(pp) > 0), lab+": strictly increasing")
        check(np.all(np.abs(pp+pp[::-1]-1.) <= 4*EPS),
              lab+": symmetric about 0.5")
        ref = (np.arange(1, nval+1)-float(cst))/(nval+1-2*float(cst))
        check(np.all(np.abs(pp-ref) <= 8*EPS), lab+": value")
        if nval % 2 == 1:
            check(abs(pp[nval//2]-0.5) <= 2*EPS, lab+": middle point")

    # .. numpy integer as size, default constant
    pp = np.asarray(sutils.ppos(np.int64(7)))
    check(np.allclose(pp, (np.arange(1, 8)-0.3)/7.4, rtol=1e-14, atol=0),
          "ppos default constant")

    # .. call history: the result of a call is not affected
    # by what is done with the result of a previous one
    for nval, cst in [(5, 0.3), (1, 0.5), (30, 0.), (5, 0.3), (5, 0.4)]:
        first = sutils.ppos(nval, cst)
        keep = np.array(first, dtype=np.float64, copy=True)
        try:
            first[...] = -7.
        except Exception:
            pass
        second = np.asarray(sutils.ppos(nval, cst))
        check(np.array_equal(second, keep), "ppos: repeated call")
        other = np.asarray(sutils.ppos(nval+1, cst))
        check(other.shape == (nval+1, ) and np.all(np.diff(other) > 0)
              and other[0] > 0 and other[-1] < 1, "ppos: next size")

    # .. constant outside [0, 0.5] is an error
    check(raises(sutils.ppos, 10, -0.01), "ppos: cst<0 is an error")
    check(raises(sutils.ppos, 10, 0.51), "ppos: cst>0.5 is an error")


# ===================================================================
# lhs
# ===================================================================
def strata_ok(smp, a, b, nsamples):
    """ Exactly one point in each of the nsamples equal strata of [a, b].
        Points are allowed to sit on a boundary within rounding error. """
    du = (b-a)/nsamples
    tol = 1e-9 + 16*EPS*max(abs(a), abs(b))/du
    t = np.sort((np.asarray(smp, dtype=np.float64)-a)/du)
    k = np.arange(nsamples)
    return bool(np.all(t >= k-tol) and np.all(t <= k+1+tol))


def demo_lhs(rng):
    bounds = [
        ([0.], [1.]),
        ([-5.], [-4.99]),
        ([1e6], [1e6+1e-3]),
        ([0., -10.], [1., 10.]),
        ([-1e-3, 100.], [1e-3, 1e5]),
        ([1., 2., 3.], [10., 20., 30.]),
        ([-1e6, -1., 0., 5.], [1e6, 1., 1e-6, 5.5]),
        (rng.uniform(-100, 0, 5).tolist(), rng.uniform(1, 100, 5).tolist()),
        (rng.uniform(-1, 1, 6).tolist(), rng.uniform(2, 3, 6).tolist()),
        ([0]*6, [1]*6),
        ([-3, 0, 2], [-1, 7, 3]),
        ]
    sizes = [1, 2, 3, 4, 5, 7, 10, 16, 31, 64, 100, 333, 500]
    for nsamples, (pmin, pmax) in itertools.product(sizes, bounds):
        nparams = len(pmin)
        for variant in ["list", "array", "tuple"]:
            if variant == "list":
                a, b = list(pmin), list(pmax)
            elif variant == "array":
                a, b = np.array(pmin), np.array(pmax)
            else:
                a, b = tuple(pmin), tuple(pmax)
            lab = f"lhs({nsamples}, {pmin}, {pmax}) [{variant}]"
            smp = np.asarray(sutils.lhs(nsamples, a, b), dtype=np.float64)
            check(smp.shape == (nsamples, nparams), lab+": shape")
            if smp.shape != (nsamples, nparams):
                continue
            check(np.all(np.isfinite(smp)), lab+": finite")
            for ip in range(nparams):
                check(strata_ok(smp[:, ip], float(pmin[ip]),
                                float(pmax[ip]), nsamples),
                      lab+f": one point per stratum, param {ip}")
            # inputs are left alone
            check(list(a) == list(pmin) and list(b) == list(pmax),
                  lab+": inputs intact")

    # .. two successive samples are independent objects
    first = sutils.lhs(10, [0., 1.], [1., 3.])
    keep = np.array(first, copy=True)
    second = sutils.lhs(10, [0., 1.], [1., 3.])
    second[...] = np.nan
    check(np.array_equal(np.asarray(first), keep), "lhs: results not shared")

    # .. one upper bound for all parameters
    lows = [0., 0.5, -3.]
    smp = np.asarray(sutils.lhs(20, lows, 1.))
    check(smp.shape == (20, 3), "lhs scalar pmax: shape")
    if smp.shape == (20, 3):
        for ip, a in enumerate(lows):
            check(strata_ok(smp[:, ip], a, 1., 20), "lhs scalar pmax: strata")

    # .. empty or reversed range is an error
    check(raises(sutils.lhs, 10, [0., 1.], [1., 1.]), "lhs: empty range")
    check(raises(sutils.lhs, 10, [0., 1.], [1., 0.]), "lhs: reversed range")
    check(raises(sutils.lhs, 10, [0., 1., 2.], [1., 5.]),
          "lhs: inconsistent number of bounds")


# ===================================================================
# standard_normal
# ===================================================================
def demo_standard_normal(rng):
    vectors = [
        [3.], [1., 2.], [2., 1.], [5., 5.], [0., 0., 0., 0.],
        [1., 3., 2., 3., 1., 3.], [-0., 0., 1e-300, -1e-300],
        [2, 1, 2, 0, 1], [np.inf, 1., -np.inf, 1.],
        rng.normal(size=50), rng.normal(size=333),
        rng.integers(0, 4, size=40).astype(float),
        rng.integers(0, 10, size=200).astype(float),
        np.round(rng.normal(size=100), 1),
        np.arange(20.)[::-1].copy(), np.arange(7.),
        np.repeat([3., 1., 2.], [4, 1, 7]),
        ]
    methods = [None, "average", "min", "max", "dense", "first"]
    constants = [0., 0.3, 0.375, 0.5]
    for x0, method, cst in itertools.product(vectors, methods, constants):
        xa = np.asarray(x0, dtype=np.float64)
        n = len(xa)
        for variant in ["array", "list", "series"]:
            if variant == "array":
                x = xa.copy()
            elif variant == "list":
                x = xa.tolist()
            else:
                x = pd.Series(xa, index=np.arange(n)[::-1]*3+1, name="v")
            lab = f"standard_normal n={n} {method} cst={cst} [{variant}]"
            kw = {} if method is None else {"rank_method": method}
            unorm, ranks = sutils.standard_normal(x, cst=cst, **kw)
            unorm = np.asarray(unorm, dtype=np.float64)
            ranks = np.asarray(ranks, dtype=np.float64)
            check(unorm.shape == (n, ) and ranks.shape == (n, ),
                  lab+": shape")
            if unorm.shape != (n, ) or ranks.shape != (n, ):
                continue
            check(np.all(np.isfinite(unorm)), lab+": finite scores")

            # scores = strictly increasing function of the ranks
            kk = np.argsort(ranks, kind="stable")
            dr, du = np.diff(ranks[kk]), np.diff(unorm[kk])
            check(np.all(du[dr > 0] > 0), lab+": increasing in the rank")
            check(np.all(du[dr == 0] == 0), lab+": function of the rank")

            # ranks follow the data (0 based)
            ks = np.argsort(xa, kind="stable")
            dx, drx = np.diff(xa[ks]), np.diff(ranks[ks])
            check(np.all(drx[dx > 0] > 0), lab+": rank increasing in data")
            if method == "first":
                check(np.all(drx[dx == 0] > 0), lab+": ties broken in order")
            else:
                check(np.all(drx[dx == 0] == 0), lab+": ties share a rank")
            check(ranks.min() >= 0 and ranks.max() <= n-1, lab+": rank range")

            nlow = np.array([np.sum(xa < v) for v in xa], dtype=float)
            neq = np.array([np.sum(xa == v) for v in xa], dtype=float)
            if method in [None, "average"]:
                check(np.array_equal(ranks, nlow+(neq-1)/2), lab+": ranks")
            elif method == "min":
                check(np.array_equal(ranks, nlow), lab+": ranks")
            elif method == "max":
                check(np.array_equal(ranks, nlow+neq-1), lab+": ranks")
            elif method == "dense":
                uu = np.unique(xa)
                check(np.array_equal(ranks, np.searchsorted(uu, xa)),
                      lab+": ranks")
            else:
                check(np.array_equal(np.sort(ranks), np.arange(n)),
                      lab+": ranks")

            # the score is the normal quantile of the plotting position
            # of the rank
            pos = (ranks+1-cst)/(n+1-2*cst)
            back = np.array([0.5*(1+math.erf(u/math.sqrt(2))) for u in unorm])
            check(np.all(np.abs(back-pos) <= 1e-12), lab+": quantile")

            # inputs are left alone
            check(np.array_equal(np.asarray(x, dtype=float), xa),
                  lab+": input intact")

    # .. sorted input
    for x0, cst in itertools.product(vectors, [0., 0.4]):
        xs = np.sort(np.asarray(x0, dtype=np.float64))
        n = len(xs)
        unorm, ranks = sutils.standard_normal(xs, cst=cst, sorted=True)
        unorm = np.asarray(unorm, dtype=np.float64)
        ranks = np.asarray(ranks, dtype=np.float64)
        check(np.array_equal(ranks, np.arange(n)), "sorted: ranks")
        check(np.all(np.diff(unorm) > 0), "sorted: increasing scores")
        check(np.all(np.abs(unorm+unorm[::-1]) <= 1e-12),
              "sorted: symmetric scores")

    # .. repeated calls do not interact
    x = rng.integers(0, 5, size=30).astype(float)
    u1, r1 = sutils.standard_normal(x, cst=0.3)
    k1, kr1 = np.array(u1, copy=True), np.array(r1, copy=True)
    u2, r2 = sutils.standard_normal(x[::-1].copy(), cst=0.3)
    try:
        u2[...] = 0.
    except Exception:
        pass
    u3, r3 = sutils.standard_normal(x, cst=0.3)
    check(np.array_equal(np.asarray(u1), k1)
          and np.array_equal(np.asarray(r1), kr1),
          "standard_normal: results not shared")
    check(np.array_equal(np.asarray(u3), k1)
          and np.array_equal(np.asarray(r3), kr1),
          "standard_normal: repeated call")

    # .. missing values are an error
    check(raises(sutils.standard_normal, np.array([1., np.nan, 2.])),
          "standard_normal: nan is an error")


# ===================================================================
# pareto_front
# ===================================================================
def pareto_bruteforce(data, orientation):
    """ A point is dominated when another point is strictly better in
    every non missing coordinate of the pair """
    data = np.asarray(data, dtype=np.float64)
    nval = data.shape[0]
    out = np.zeros(nval, dtype=np.int64)
    for i in range(nval):
        for j in range(nval):
            if i == j:
                continue
            better = True
            for a, b in zip(data[i], data[j]):
                if math.isnan(a) or math.isnan(b):
                    continue
                if orientation > 0 and not b > a:
                    better = False
                if orientation < 0 and not b < a:
                    better = False
            if better:
                out[i] = 1
    return out


def pareto_cases(rng):
    for nval in [0, 1, 2, 3, 4, 6, 9, 14, 25, 40, 60]:
        for ncol in [1, 2, 3, 4, 5]:
            shape = (nval, ncol)
            yield "continuous", rng.normal(size=shape)
            yield "ties3", rng.integers(0, 3, size=shape).astype(float)
            yield "ties2", rng.integers(0, 2, size=shape).astype(float)
            yield "constant", np.full(shape, 1.5)
            yield "chain", np.repeat(np.arange(nval)[:, None]*1., ncol, 1)
            yield "antichain", np.column_stack(
                [np.arange(nval)*(-1.)**k for k in range(ncol)]
                ).reshape(shape)
            d = rng.integers(0, 4, size=shape).astype(float)
            if nval > 2:
                d[nval//2:] = d[:nval-nval//2]
            yield "duplicated rows", d
            d = rng.normal(size=shape)*1e-300
            yield "tiny values", d
            d = 1e15+rng.integers(0, 3, size=shape).astype(float)
            yield "large offset", d
            for pnan in [0.1, 0.4, 0.8]:
                d = rng.integers(0, 3, size=shape).astype(float)
                d[rng.uniform(size=shape) < pnan] = np.nan
                yield f"ties+nan{pnan}", d
                d = rng.normal(size=shape)
                d[rng.uniform(size=shape) < pnan] = np.nan
                yield f"continuous+nan{pnan}", d
            d = rng.integers(0, 3, size=shape).astype(float)
            if nval > 0:
                d[0] = np.nan
                d[:, -1] = np.nan
            yield "nan row and column", d
            yield "all nan", np.full(shape, np.nan)


def demo_pareto(rng):
    history = []
    for name, data in pareto_cases(rng):
        nval, ncol = data.shape
        complete = not np.any(np.isnan(data))
        backup = data.copy()
        flags = {}
        for ori in [1, -1]:
            lab = f"pareto_front {name} {nval}x{ncol} ori={ori}"
            isd = sutils.pareto_front(data, ori)
            arr = np.asarray(isd)
            flags[ori] = arr.astype(np.int64)
            check(arr.shape == (nval, ), lab+": shape")
            check(np.all((arr == 0) | (arr == 1)), lab+": 0/1 flags")
            expected = pareto_bruteforce(data, ori)
            check(np.array_equal(arr.astype(np.int64), expected),
                  lab+": dominated points")
            if complete and nval > 0:
                check(np.any(arr == 0), lab+": front is not empty")
            neg = np.asarray(sutils.pareto_front(-data, -ori))
            check(np.array_equal(neg, arr), lab+": reverse == negate")
            check(np.array_equal(data, backup, equal_nan=True),
                  lab+": input intact")
            history.append((isd, arr.copy()))
            if len(history) > 25:
                history.pop(0)

        arr = np.asarray(sutils.pareto_front(data))
        check(np.array_equal(arr, flags[1]), "pareto_front: default is +1")
        if ncol == 1 and complete and nval > 0:
            # 1D: everything below the maximum is dominated
            check(np.array_equal(flags[1], (data[:, 0] < data.max())*1),
                  "pareto_front: 1D")
            check(np.array_equal(flags[-1], (data[:, 0] > data.min())*1),
                  "pareto_front: 1D")

        # results of the earlier calls have not been touched
        # by the later ones
        for isd, keep in history:
            check(np.array_equal(np.asarray(isd), keep),
                  "pareto_front: earlier result intact")

    # .. layouts and types of the input
    base = rng.integers(0, 3, size=(25, 6)).astype(float)
    base[rng.uniform(size=base.shape) < 0.2] = np.nan
    view = base[::2, ::2]
    dense = view.copy()
    for ori in [1, -1]:
        expected = pareto_bruteforce(dense, ori)
        isd = np.asarray(sutils.pareto_front(view, ori))
        check(np.array_equal(isd, expected), "pareto_front: strided view")
        isd = np.asarray(sutils.pareto_front(np.asfortranarray(dense), ori))
        check(np.array_equal(isd, expected), "pareto_front: fortran order")
        isd = np.asarray(sutils.pareto_front(dense.T.copy().T, ori))
        check(np.array_equal(isd, expected), "pareto_front: transposed")
        isd = np.asarray(sutils.pareto_front(dense.astype(np.float32), ori))
        check(np.array_equal(isd, expected), "pareto_front: float32")
    check(np.array_equal(view, dense, equal_nan=True),
          "pareto_front: view intact")
    idata = rng.integers(0, 3, size=(20, 3))
    for ori in [1, -1]:
        isd = np.asarray(sutils.pareto_front(idata, ori))
        check(np.array_equal(isd, pareto_bruteforce(idata, ori)),
              "pareto_front: integer data")

    # .. alternating sizes (a large set, a small one, a large one again)
    big = rng.integers(0, 4, size=(60, 5)).astype(float)
    small = rng.integers(0, 4, size=(3, 2)).astype(float)
    r_big = sutils.pareto_front(big, 1)
    k_big = np.array(r_big, copy=True)
    r_small = sutils.pareto_front(small, -1)
    k_small = np.array(r_small, copy=True)
    r_big2 = sutils.pareto_front(big, 1)
    try:
        r_big2[...] = 5
    except Exception:
        pass
    r_big3 = sutils.pareto_front(big, 1)
    check(np.array_equal(np.asarray(r_big), k_big)
          and np.array_equal(np.asarray(r_big3), k_big)
          and np.array_equal(k_big, pareto_bruteforce(big, 1)),
          "pareto_front: large set after small set")
    check(np.array_equal(np.asarray(r_small), k_small)
          and np.array_equal(k_small, pareto_bruteforce(small, -1)),
          "pareto_front: small set after large set")

    # .. only 2D data
    check(raises(sutils.pareto_front, np.arange(5.)), "pareto_front: 1D")


# ===================================================================
# box plot
# ===================================================================
def plabel(level):
    return "{0:0.1f}%".format(level)


def levels(coverage):
    low = float(100-coverage)/2
    return low, 100.-low


def getstat(stats, label, col):
    """ Statistic by label. A statistic that is not listed is missing. """
    if label not in stats.index or col not in stats.columns:
        return np.nan
    value = np.asarray(stats.loc[label, col], dtype=np.float64).ravel()
    return float(value[0])


def check_box_column(stats, col, values, bcov, wcov, lab):
    values = np.asarray(values, dtype=np.float64)
    fin = values[np.isfinite(values)]
    nok = len(fin)
    count = getstat(stats, "count", col)
    if len(values) == 0:
        check(math.isnan(count) or count == 0, lab+": count (no data)")
    else:
        check(count == nok, lab+f": count {count}, expected {nok}")

    b1, b2 = levels(bcov)
    w1, w2 = levels(wcov)
    qq = [w1, b1, 50., b2, w2]
    got = [getstat(stats, plabel(q), col) for q in qq]
    mini, maxi = getstat(stats, "min", col), getstat(stats, "max", col)
    mean = getstat(stats, "mean", col)
    if nok <= 3:
        # 3 values or less are not summarised
        check(all(math.isnan(v) for v in got+[mini, maxi, mean]),
              lab+": too few values, no summary")
        return

    atol = 1e-12*np.abs(fin).max()
    expected = np.percentile(fin, qq)
    for q, g, e in zip(qq, got, expected):
        check(same(g, e, 1e-11, atol), lab+f": {plabel(q)} {g}, expected {e}")
    check(mini == fin.min(), lab+": min")
    check(maxi == fin.max(), lab+": max")
    check(same(mean, math.fsum(fin)/nok, 1e-11, atol), lab+": mean")
    seq = [mini]+got+[maxi]
    check(all(u <= v+atol for u, v in zip(seq[:-1], seq[1:])),
          lab+f": not ordered {seq}")
    check(mini-atol <= mean <= maxi+atol, lab+": mean within range")


def make_column(rng, nval, kind):
    if kind == "normal":
        return rng.normal(size=nval)
    elif kind == "ties":
        return rng.integers(0, 4, size=nval).astype(float)
    elif kind == "constant":
        return np.full(nval, 3.25)
    elif kind == "skewed":
        return np.exp(3*rng.normal(size=nval))
    elif kind == "offset":
        return 1e6+rng.normal(size=nval)
    elif kind == "negative":
        return -np.abs(rng.normal(size=nval))-2.
    raise ValueError(kind)


def spoil(rng, x, how):
    x = np.array(x, dtype=np.float64, copy=True)
    n = len(x)
    if n == 0 or how == "clean":
        return x
    u = rng.uniform(size=n)
    if how == "light":
        x[u < 0.1] = np.nan
        x[(u > 0.1) & (u < 0.15)] = np.inf
        x[(u > 0.15) & (u < 0.2)] = -np.inf
    elif how == "heavy":
        x[u < 0.4] = np.nan
        x[(u > 0.4) & (u < 0.6)] = np.inf
        x[(u > 0.6) & (u < 0.8)] = -np.inf
    elif how == "ends":
        x[0] = np.inf
        x[-1] = np.nan
        if n > 2:
            x[1] = -np.inf
    elif how == "nothing left":
        x[:] = [np.nan, np.inf, -np.inf][rng.integers(0, 3)]
        x[n//2:] = np.nan
    elif how == "4 left":
        x[4:] = np.inf
        x[6:] = np.nan
    elif how == "3 left":
        x[3:] = np.nan
        x[5:] = -np.inf
    return x


KINDS = ["normal", "ties", "constant", "skewed", "offset", "negative"]
SPOILS = ["clean", "light", "heavy", "ends", "nothing left", "4 left",
          "3 left"]
COVERAGES = [(50., 90.), (40., 100.), (45.3, 91.7), (60., 75.),
             (99., 99.5), (75., 99.), (40, 41), (80., 100.)]


def demo_boxplot(rng):
    # .. columns
    for nval in [0, 1, 2, 3, 4, 5, 6, 7, 10, 20, 101, 400]:
        for bcov, wcov in COVERAGES:
            cols = {}
            for kind, how in itertools.product(KINDS, SPOILS):
                cols[f"{kind}/{how}"] = spoil(rng, make_column(rng, nval,
                                                                kind), how)
            df = pd.DataFrame(cols)
            backup = df.copy()
            bx = Boxplot(data=df, box_coverage=bcov, whiskers_coverage=wcov)
            stats = bx.stats
            for cn, x in cols.items():
                lab = f"boxplot n={nval} '{cn}' {bcov}/{wcov}"
                check_box_column(stats, cn, x, bcov, wcov, lab)
            check(df.equals(backup), "boxplot: data intact")

            # reading the stats again, after scribbling over
            # what was obtained the first time
            if nval > 0:
                try:
                    stats.iloc[:, :] = -999.
                except Exception:
                    pass
                bx2 = Boxplot(data=df, box_coverage=bcov,
                              whiskers_coverage=wcov)
                cn = "ties/light"
                check_box_column(bx2.stats, cn, cols[cn], bcov, wcov,
                                 f"boxplot n={nval} second object")

            # one column at a time
            if nval > 0:
                for cn in ["normal/light", "ties/heavy", "constant/clean",
                           "skewed/4 left", "offset/3 left"]:
                    st = boxplot_stats(df.loc[:, cn], bcov, wcov)
                    st = pd.DataFrame({cn: st})
                    lab = f"boxplot_stats n={nval} '{cn}' {bcov}/{wcov}"
                    check_box_column(st, cn, cols[cn], bcov, wcov, lab)

    # .. other containers, default coverages
    x = rng.normal(size=(50, 3))
    x[3, 0] = np.nan
    x[4, 1] = np.inf
    x[5, 1] = -np.inf
    stats = Boxplot(data=x).stats
    for i in range(3):
        check_box_column(stats, stats.columns[i], x[:, i], 50., 90.,
                         "boxplot 2D array")
    stats = Boxplot(data=x[:, 0]).stats
    check_box_column(stats, stats.columns[0], x[:, 0], 50., 90.,
                     "boxplot 1D array")
    stats = Boxplot(data=pd.Series(x[:, 1], name="bob")).stats
    check_box_column(stats, stats.columns[0], x[:, 1], 50., 90.,
                     "boxplot series")
    stats = Boxplot(data=np.arange(10)).stats
    check_box_column(stats, stats.columns[0], np.arange(10.), 50., 90.,
                     "boxplot integers")

    # .. groups
    groupings = [
        ("two", ["a", "b"], [0.8, 0.2]),
        ("three", ["x", "y", "z"], [0.6, 0.3, 0.1]),
        ("ints", [3, 1, 2, 7], [0.4, 0.3, 0.2, 0.1]),
        ("tiny", ["k", "l", "m"], [0.9, 0.07, 0.03]),
        ("floats", [0.5, -1.5], [0.35, 0.65]),
        ]
    hows = ["clean", "light", "heavy", "4 left"]
    for nval in [4, 5, 8, 12, 30, 100, 350]:
        for gname, cats, probs in groupings:
            for kind, how in itertools.product(KINDS, hows):
                bcov, wcov = COVERAGES[rng.integers(0, len(COVERAGES))]
                x = spoil(rng, make_column(rng, nval, kind), how)
                by = np.array(cats)[rng.choice(len(cats), size=nval,
                                               p=probs)]
                # at least two categories, of unequal size
                by[:4] = [cats[0], cats[0], cats[1], cats[0]]
                ucats, sizes = np.unique(by, return_counts=True)
                if len(ucats) == 2 and sizes[0] == sizes[1]:
                    continue
                ucats = ucats.tolist()

                variant = ["array", "series", "named"][rng.integers(0, 3)]
                kw = {"box_coverage": bcov, "whiskers_coverage": wcov}
                if variant == "array":
                    bx = Boxplot(data=x, by=by, **kw)
                elif variant == "series":
                    bx = Boxplot(data=pd.Series(x), by=pd.Series(by), **kw)
                else:
                    bx = Boxplot(data=pd.Series(x, name="val"),
                                 by=pd.Series(by, name="grp"), **kw)
                stats = bx.stats
                check(sorted(stats.columns.tolist()) == sorted(ucats),
                      f"boxplot by={gname}: one column per category")
                for cat in ucats:
                    lab = f"boxplot by={gname}/{variant} n={nval}"\
                          + f" {kind}/{how} cat={cat} {bcov}/{wcov}"
                    xg = x[by == cat]
                    check_box_column(stats, cat, xg, bcov, wcov, lab)

                    # same as the group taken alone
                    alone = Boxplot(data=pd.DataFrame({cat: xg}), **kw).stats
                    labels = set(stats.index.tolist())\
                        | set(alone.index.tolist())
                    for lb in labels:
                        a = getstat(alone, lb, cat)
                        g = getstat(stats, lb, cat)
                        check(same(a, g, 1e-13), lab+f": {lb} alone {a},"
                              + f" in group {g}")


# ===================================================================
# violin
# ===================================================================
def demo_violin(rng):
    names = ["Q0", "Q25", "median", "Q75", "Q100"]
    qq = [0., 25., 50., 75., 100.]
    for nval in [0, 1, 2, 3, 4, 5, 10, 50, 250, 600]:
        cols = {}
        for kind, how in itertools.product(KINDS, SPOILS):
            cols[f"{kind}/{how}"] = spoil(rng, make_column(rng, nval, kind),
                                           how)
        df = pd.DataFrame(cols)
        backup = df.copy()
        for kw in [{}, {"npoints_kde": 51}]:
            vl = Violin(data=df, **kw)
            stats = vl.stats
            # .. read twice, spoil the first reading
            kde_x, kde_y = vl.kde_x, vl.kde_y
            kde_y_keep = kde_y.copy()
            stats_keep = stats.copy()
            if nval > 0:
                try:
                    vl.stats.iloc[:, :] = -5.
                    vl.kde_y.iloc[:, :] = -5.
                except Exception:
                    pass
                # properties hand out either the object itself or a copy:
                # re-read after the scribbling, from a fresh object
                vl = Violin(data=df, **kw)
                stats = vl.stats
                kde_x, kde_y = vl.kde_x, vl.kde_y
                check(stats.shape == stats_keep.shape,
                      "violin: second object")
                check(kde_y.shape == kde_y_keep.shape,
                      "violin: second object")

            npts = 51 if kw else max(100, min(500, nval))
            for cn, x in cols.items():
                lab = f"violin n={nval} '{cn}'"
                fin = x[np.isfinite(x)]
                got = [getstat(stats, nm, cn) for nm in names]
                attrs = [vl.stat_extremes_low, vl.stat_center_low,
                         vl.stat_median, vl.stat_center_high,
                         vl.stat_extremes_high]
                got2 = [float(a[cn]) for a in attrs]
                if len(fin) == 0:
                    check(all(math.isnan(g) for g in got+got2),
                          lab+": no data, no stats")
                else:
                    atol = 1e-12*np.abs(fin).max()
                    expected = np.percentile(fin, qq)
                    for nm, g, g2, e in zip(names, got, got2, expected):
                        check(same(g, e, 1e-11, atol),
                              lab+f": {nm} {g}, expected {e}")
                        check(same(g2, e, 1e-11, atol),
                              lab+f": attribute {nm} {g2}, expected {e}")
                    check(got[0] == fin.min() and got[-1] == fin.max(),
                          lab+": extremes")
                    check(all(u <= v+atol for u, v in zip(got[:-1],
                                                          got[1:])),
                          lab+": ordered")

                # density profile
                kx = np.asarray(kde_x.loc[:, cn], dtype=np.float64)
                ky = np.asarray(kde_y.loc[:, cn], dtype=np.float64)
                check(len(kx) == npts and len(ky) == npts,
                      lab+": profile length")
                if len(fin) > 2 and fin.min() < fin.max():
                    check(np.all(np.isfinite(ky)), lab+": profile finite")
                    check(ky.min() >= 0 and ky.max() <= 1,
                          lab+": profile in [0, 1]")
                    check(ky.min() <= 1e-12 and ky.max() >= 1-1e-12,
                          lab+": profile spans [0, 1]")
                    check(np.all(np.diff(kx) >= 0),
                          lab+": profile abscissae sorted")
                    span = max(abs(fin.min()), abs(fin.max()))
                    check(kx.min() >= fin.min()-1e-5-1e-12*span
                          and kx.max() <= fin.max()+1e-5+1e-12*span,
                          lab+": profile within data range")
                else:
                    check(np.all(np.isnan(ky)), lab+": no profile")
        check(df.equals(backup), "violin: data intact")

    # .. other containers
    x = rng.normal(size=(40, 2))
    x[0, 0] = np.inf
    x[1, 1] = np.nan
    for data in [x, pd.DataFrame(x, columns=["a", "b"])]:
        vl = Violin(data=data)
        stats = vl.stats
        for i, cn in enumerate(stats.columns):
            fin = x[np.isfinite(x[:, i]), i]
            check(same(getstat(stats, "median", cn), np.median(fin), 1e-11),
                  "violin containers: median")
            check(getstat(stats, "Q0", cn) == fin.min(),
                  "violin containers: min")
            check(getstat(stats, "Q100", cn) == fin.max(),
                  "violin containers: max")
    vl = Violin(data=pd.Series(x[:, 0], name="s"))
    fin = x[np.isfinite(x[:, 0]), 0]
    check(same(getstat(vl.stats, "Q75", vl.stats.columns[0]),
               np.percentile(fin, 75), 1e-11), "violin series: Q75")


def main():
    rng = np.random.default_rng(20240920)
    np.random.seed(5446)
    sections = [("ppos", demo_ppos), ("lhs", demo_lhs),
                ("standard_normal", demo_standard_normal),
                ("pareto_front", demo_pareto),
                ("boxplot", demo_boxplot), ("violin", demo_violin)]
    for name, fun in sections:
        before = dict(COUNTS)
        fun(rng)
        nch = COUNTS["checks"]-before["checks"]
        nfl = COUNTS["failed"]-before["failed"]
        print(f"{name:16s}: {nch:7d} checks, {nfl} failed")

    if COUNTS["failed"] > 0:
        print(f"C20 demo: {COUNTS['failed']} checks FAILED")
        return 1
    print(f"C20 demo: all {COUNTS['checks']} checks passed")
    return 0


if __name__ == "__main__":
    sys.exit(main())
