"""Demo / self-check for property C17 (AR simulation and residual computation
are exact inverses of one another).

Run as:  PYTHONPATH=<tree>/src /venv/bin/python demo.py

The program only uses the public functions hydrodiy.stat.armodels.armodel_sim
and armodel_residual and compares them with an independent pure-Python
reference of the recursion

    y[t] - m = sum_k phi[k] * (y[t-k] - m) + e[t],   y[t<0] = ini

evaluated with math.fsum (so the reference is correct to the last bit of each
step and any valid summation order of the library agrees with it within a few
ulps of the largest term).  Exits 0 when everything holds.
"""
import math
import sys
import warnings

import numpy as np

from hydrodiy.stat import armodels

NAN = float("nan")
RNG = np.random.default_rng(1717)
NCHECK = 0
FAILURES = []


def fail(msg):
    FAILURES.append(msg)
    if len(FAILURES) < 25:
        print("FAIL:", msg)


def ok():
    global NCHECK
    NCHECK += 1


# --------------------------------------------------------------------------
# reference implementations (python floats, fsum)
# --------------------------------------------------------------------------
def ref_sim(phi, e, m, ini):
    p = len(phi)
    hist = [ini - m] * p            # hist[k] = centred value at lag k+1
    out = []
    for v in e:
        v = 0.0 if math.isnan(v) else v
        c = math.fsum([v] + [phi[k] * hist[k] for k in range(p)])
        out.append(c + m)
        hist = [c] + hist[:-1]
    return out


def ref_res(phi, y, m, ini):
    """returns residuals and the list of centred values actually used
    (missing inputs are replaced by their one step ahead prediction)"""
    p = len(phi)
    hist = [ini - m] * p
    out = []
    for v in y:
        pred = math.fsum(phi[k] * hist[k] for k in range(p))
        if math.isnan(v):
            c = pred
            out.append(0.0)
        else:
            c = v - m
            out.append(math.fsum([c] + [-phi[k] * hist[k] for k in range(p)]))
        hist = [c] + hist[:-1]
    return out


def scale_of(*things):
    s = 1.0
    for t in things:
        a = np.abs(np.asarray(t, dtype=float))
        a = a[np.isfinite(a)]
        if a.size:
            s = max(s, float(a.max()))
    return s


def close(a, b, tol, what):
    a = np.asarray(a, dtype=float)
    b = np.asarray(b, dtype=float)
    if a.shape != b.shape:
        fail(f"{what}: shape {a.shape} != {b.shape}")
        return
    if a.size and not np.all(np.isfinite(a)):
        fail(f"{what}: non finite value in library result")
        return
    if a.size and float(np.max(np.abs(a - b))) > tol:
        fail(f"{what}: max abs diff {float(np.max(np.abs(a - b))):.3e} > {tol:.3e}")
        return
    ok()


# --------------------------------------------------------------------------
# input generators
# --------------------------------------------------------------------------
def coefficients(order, kind):
    """coefficients of any sign with sum(abs) <= 1.5"""
    if kind == "stable":        # sum abs <= 0.9 : no growth
        phi = RNG.uniform(-1, 1, order)
        phi *= RNG.uniform(0.2, 0.9) / np.abs(phi).sum()
    elif kind == "edge":        # sum abs == 1.5 (up to rounding, never above)
        phi = RNG.uniform(-1, 1, order)
        phi *= 1.5 / np.abs(phi).sum()
        while np.abs(phi).sum() > 1.5:
            phi = np.nextafter(phi, 0.)
    elif kind == "zeros":
        phi = np.zeros(order)
    elif kind == "lastonly":    # only the highest lag is active
        phi = np.zeros(order)
        phi[-1] = -0.75
    elif kind == "unit":        # unit root on first lag
        phi = np.zeros(order)
        phi[0] = 1.0
    elif kind == "negunit":
        phi = np.zeros(order)
        phi[0] = -1.0
    elif kind == "mixedzero":   # some exactly zero, signed zeros included
        phi = RNG.uniform(-1, 1, order)
        phi *= 0.8 / np.abs(phi).sum()
        phi[::2] = -0.0
        if not np.any(phi != 0):
            phi[0] = 0.5
    else:
        raise KeyError(kind)
    assert np.abs(phi).sum() <= 1.5
    return phi


MEANS_INIS = [(0., None), (0., 0.), (2.5, None), (-3.25, 1.5), (4., -7.),
              (-1e3, -1e3 + 2.), (0., -0.5), (1e-3, 0.), (5., 5.)]


def nan_positions(n, how):
    idx = np.zeros(n, dtype=bool)
    if n == 0 or how == "none":
        return idx
    if how == "first":
        idx[0] = True
    elif how == "first3":
        idx[:3] = True
    elif how == "last":
        idx[-1] = True
    elif how == "random":
        idx = RNG.uniform(size=n) < 0.2
    elif how == "run":
        i0 = int(RNG.integers(0, n))
        idx[i0:i0 + 12] = True
    elif how == "all":
        idx[:] = True
    return idx


# --------------------------------------------------------------------------
# 1/2/3. recursion, inverse relations, missing values
# --------------------------------------------------------------------------
def check_config(order, kind, n, m, ini, nanhow):
    phi = coefficients(order, kind)
    tag = f"order={order} {kind} n={n} m={m} ini={ini} nan={nanhow}"
    kw = {"sim_mean": m}
    if ini is not None:
        kw["sim_ini"] = ini
    ini_eff = m if ini is None else ini

    e = RNG.normal(size=n)
    if n > 3:
        e[3] = 0.0
    if n > 4:
        e[4] = -0.0
    isn = nan_positions(n, nanhow)
    e_nan = e.copy()
    e_nan[isn] = NAN
    e_zero = e.copy()
    e_zero[isn] = 0.0

    phi0 = phi.copy()
    e0 = e_nan.copy()

    # -- simulation reproduces the recursion; missing innovation == 0
    y = armodels.armodel_sim(phi, e_nan, **kw)
    if not isinstance(y, np.ndarray) or y.dtype != np.float64 \
            or y.shape != e_nan.shape:
        fail(f"{tag}: sim result container {type(y)} {getattr(y, 'dtype', None)}")
        return
    yref = ref_sim(list(phi), list(e_nan), m, ini_eff)
    sc = scale_of(yref, e, m, ini_eff)
    tol = 1e-10 * sc * max(1, n / 100)
    close(y, yref, tol, f"{tag}: sim vs recursion")
    y2 = armodels.armodel_sim(phi, e_zero, **kw)
    close(y, y2, tol, f"{tag}: nan innov == zero innov")

    # -- inputs untouched
    if not (np.array_equal(phi, phi0) and np.array_equal(e_nan, e0, equal_nan=True)):
        fail(f"{tag}: sim modified its inputs")
    else:
        ok()

    # -- residual(sim(e)) == e
    r = armodels.armodel_residual(phi, y, **kw)
    if not isinstance(r, np.ndarray) or r.dtype != np.float64 \
            or r.shape != y.shape:
        fail(f"{tag}: residual result container")
        return
    close(r, e_zero, tol, f"{tag}: residual(sim(e)) == e")

    # -- residual vs direct formula and sim(residual(y)) == y, series with
    #    missing values
    ys = np.array(yref) + 0.0
    ys_nan = ys.copy()
    ys_nan[isn] = NAN
    ys0 = ys_nan.copy()
    r2 = armodels.armodel_residual(phi, ys_nan, **kw)
    rref = ref_res(list(phi), list(ys_nan), m, ini_eff)
    close(r2, rref, tol, f"{tag}: residual vs formula")
    if isn.any():
        close(r2[isn], np.zeros(int(isn.sum())), tol,
              f"{tag}: missing input -> zero residual")
    if not np.array_equal(ys_nan, ys0, equal_nan=True):
        fail(f"{tag}: residual modified its inputs")
    y3 = armodels.armodel_sim(phi, r2, **kw)
    keep = ~isn
    close(y3[keep], ys_nan[keep], tol, f"{tag}: sim(residual(y)) == y")

    # -- arbitrary series (not generated by the model) also round-trips
    z = m + 3 * RNG.normal(size=n)
    rz = armodels.armodel_residual(phi, z, **kw)
    if kind in ("stable", "zeros", "lastonly", "mixedzero") or n <= 25:
        zz = armodels.armodel_sim(phi, rz, **kw)
        close(zz, z, 1e-10 * scale_of(z, rz, m, ini_eff) * max(1, n / 100),
              f"{tag}: sim(residual(z)) == z")


def section_recursion():
    short = [0, 1, 2, 3, 9, 10, 11, 12, 25]
    for order in range(1, 11):
        for kind in ["stable", "edge", "zeros", "lastonly", "unit",
                     "negunit", "mixedzero"]:
            for n in short:
                for m, ini in MEANS_INIS[:5] if n > 3 else MEANS_INIS:
                    for nanhow in ["none", "first", "first3", "random", "all",
                                   "last"]:
                        if n == 0 and nanhow != "none":
                            continue
                        check_config(order, kind, n, m, ini, nanhow)
        # long series, stable coefficients only (no blow-up of rounding)
        for n in [200, 3000]:
            for m, ini in [(0., None), (-3.25, 1.5), (40., -7.)]:
                for nanhow in ["none", "random", "run"]:
                    check_config(order, "stable", n, m, ini, nanhow)
                    check_config(order, "mixedzero", n, m, ini, nanhow)
    # long and growing, order 1 and 2: still finite, relative accuracy
    for order, n in [(1, 300), (2, 300), (5, 150), (10, 120)]:
        check_config(order, "edge", n, 1.0, -1.0, "none")


# --------------------------------------------------------------------------
# 4. defaults
# --------------------------------------------------------------------------
def section_defaults():
    for order in [1, 2, 5, 10]:
        phi = coefficients(order, "stable")
        for n in [1, 2, 7, 64]:
            e = RNG.normal(size=n)
            y_def = armodels.armodel_sim(phi, e)
            y_exp = armodels.armodel_sim(phi, e, sim_mean=0., sim_ini=0.)
            close(y_def, y_exp, 0., "sim defaults == (0, 0)")
            y_m = armodels.armodel_sim(phi, e, sim_mean=3.)
            y_mm = armodels.armodel_sim(phi, e, 3., 3.)
            close(y_m, y_mm, 0., "sim default ini == mean")
            yn = y_m.copy()
            if n > 2:
                yn[1] = NAN
            mu = float(np.nanmean(yn))
            r_def = armodels.armodel_residual(phi, yn)
            r_exp = armodels.armodel_residual(phi, yn, sim_mean=mu, sim_ini=mu)
            close(r_def, r_exp, 0., "residual default mean == nanmean")
            r_i = armodels.armodel_residual(phi, yn, sim_ini=1.)
            r_ie = armodels.armodel_residual(phi, yn, mu, 1.)
            close(r_i, r_ie, 0., "residual default mean, explicit ini")
        # scalar coefficient is an order 1 model
    e = RNG.normal(size=30)
    close(armodels.armodel_sim(0.6, e, 1., 2.),
          armodels.armodel_sim(np.array([0.6]), e, 1., 2.), 0., "scalar param")
    y = armodels.armodel_sim(0.6, e, 1., 2.)
    close(armodels.armodel_residual(0.6, y, 1., 2.), e, 1e-12 * scale_of(y),
          "scalar param residual")
    close(armodels.armodel_residual(-0.6, y, 1., 2.),
          armodels.armodel_residual([-0.6], y, 1., 2.), 0., "list param")


# --------------------------------------------------------------------------
# 5. rejections
# --------------------------------------------------------------------------
def must_raise(fun, what):
    try:
        with warnings.catch_warnings():
            warnings.simplefilter("ignore")
            res = fun()
    except Exception:       # any error will do
        ok()
        return
    fail(f"{what}: no error raised, got {res!r:.60}")


def section_rejections():
    for n in [0, 1, 2, 15]:
        x = RNG.normal(size=n)
        for fun in [armodels.armodel_sim, armodels.armodel_residual]:
            nm = fun.__name__
            must_raise(lambda: fun(np.zeros(0), x, 0., 0.), f"{nm} order 0 n={n}")
            must_raise(lambda: fun(np.full(11, 0.05), x, 0., 0.),
                       f"{nm} order 11 n={n}")
            must_raise(lambda: fun(np.full(12, 0.0), x, 0., 0.),
                       f"{nm} order 12 n={n}")
            for order in range(1, 11):
                for pos in sorted({0, order // 2, order - 1}):
                    phi = coefficients(order, "stable")
                    phi[pos] = NAN
                    must_raise(lambda: fun(phi, x, 0., 0.),
                               f"{nm} nan param order={order} pos={pos} n={n}")
                phi = coefficients(order, "stable")
                must_raise(lambda: fun(phi, x, NAN, 0.), f"{nm} nan mean")
                must_raise(lambda: fun(phi, x, 0., NAN), f"{nm} nan ini")
                must_raise(lambda: fun(phi, x, NAN, NAN), f"{nm} nan mean+ini")
            must_raise(lambda: fun(NAN, x, 0., 0.), f"{nm} scalar nan param")
        must_raise(lambda: armodels.armodel_sim(0.5, x, NAN), "sim nan mean, default ini")
    # a rejected call must not disturb later valid calls
    e = RNG.normal(size=20)
    phi = coefficients(3, "stable")
    y_before = armodels.armodel_sim(phi, e, 1., 2.)
    bad = phi.copy()
    bad[1] = NAN
    must_raise(lambda: armodels.armodel_sim(bad, e, 1., 2.), "bad then good")
    must_raise(lambda: armodels.armodel_residual(phi, e, NAN, 2.), "bad then good")
    close(armodels.armodel_sim(phi, e, 1., 2.), y_before, 0., "valid call after rejected")


# --------------------------------------------------------------------------
# 6. independence of calls (no state carried from one call to the next,
#    results are fresh arrays, contents decide the answer -- not identity)
# --------------------------------------------------------------------------
def section_call_independence():
    configs = []
    for i in range(60):
        order = int(RNG.integers(1, 11))
        phi = coefficients(order, "stable")
        n = int(RNG.choice([1, 2, 3, 17, 100, 1000]))
        e = RNG.normal(size=n)
        e[RNG.uniform(size=n) < 0.1] = NAN
        m, ini = float(RNG.normal()), float(RNG.normal())
        configs.append((phi, e, m, ini))
    first = [(armodels.armodel_sim(p, e, m, i), armodels.armodel_residual(p, e, m, i))
             for p, e, m, i in configs]
    # replay in another order, several times
    for rep in range(3):
        for j in RNG.permutation(len(configs)):
            p, e, m, i = configs[j]
            y = armodels.armodel_sim(p, e, m, i)
            r = armodels.armodel_residual(p, e, m, i)
            if not (np.array_equal(y, first[j][0]) and np.array_equal(r, first[j][1])):
                fail("repeated call gives another answer")
            else:
                ok()
            if y is first[j][0] or np.shares_memory(y, first[j][0]) \
                    or np.shares_memory(y, e) or np.shares_memory(r, e):
                fail("result shares memory with an earlier result / the input")
            # scribble on the result we got: must not influence later calls
            y[...] = 12345.
            r[...] = -777.
    # same array object, contents changed in place between calls
    phi = coefficients(4, "stable")
    e = RNG.normal(size=50)
    y1 = armodels.armodel_sim(phi, e, 1., 0.)
    e[10] += 1.0
    y2 = armodels.armodel_sim(phi, e, 1., 0.)
    close(y2, ref_sim(list(phi), list(e), 1., 0.), 1e-10 * scale_of(y2), "in place edit of innov seen")
    if np.array_equal(y1, y2):
        fail("in place change of innov ignored")
    phi[2] = -phi[2] + 0.01
    y3 = armodels.armodel_sim(phi, e, 1., 0.)
    close(y3, ref_sim(list(phi), list(e), 1., 0.), 1e-10 * scale_of(y3), "in place edit of params seen")
    # arguments that differ only in mean / ini / sign of a coefficient /
    # function called
    y4 = armodels.armodel_sim(phi, e, 1., 0.5)
    close(y4, ref_sim(list(phi), list(e), 1., 0.5), 1e-10 * scale_of(y4), "ini change seen")
    y5 = armodels.armodel_sim(phi, e, -1., 0.5)
    close(y5, ref_sim(list(phi), list(e), -1., 0.5), 1e-10 * scale_of(y5), "mean change seen")
    r5 = armodels.armodel_residual(phi, e, -1., 0.5)
    close(r5, ref_res(list(phi), list(e), -1., 0.5), 1e-10 * scale_of(r5), "residual on same args")
    # same numbers, shorter / longer order (trailing zero coefficient)
    phi_pad = np.concatenate([phi, [0.0]])
    close(armodels.armodel_sim(phi_pad, e, -1., 0.5), y5, 1e-10 * scale_of(y5), "trailing zero coefficient")
    # prefix property: the first k outputs only depend on the first k inputs
    for k in [0, 1, 2, 5, 49]:
        close(armodels.armodel_sim(phi, e[:k], -1., 0.5), y5[:k], 1e-12 * scale_of(y5), f"prefix {k} sim")
        close(armodels.armodel_residual(phi, e[:k], -1., 0.5), r5[:k], 1e-12 * scale_of(r5), f"prefix {k} res")
    # input given as a strided view / read-only array: same values, same answer
    big = np.zeros(100)
    big[::2] = e
    view = big[::2]
    close(armodels.armodel_sim(phi, view, -1., 0.5), y5, 0., "strided innov")
    ro = e.copy()
    ro.setflags(write=False)
    close(armodels.armodel_residual(phi, ro, -1., 0.5), r5, 0., "read-only inputs")
    pro = phi.copy()
    pro.setflags(write=False)
    close(armodels.armodel_residual(pro, ro, -1., 0.5), r5, 0., "read-only params")


# --------------------------------------------------------------------------
# 7. many calls: near-identical argument sets, repeated and interleaved,
#    also from several threads (would expose any stale state kept between
#    calls)
# --------------------------------------------------------------------------
def section_many_calls():
    import threading
    base_phi = coefficients(3, "stable")
    base_e = RNG.normal(size=40)
    variants = []
    for i in range(150):
        phi = base_phi.copy()
        e = base_e.copy()
        m, ini = 1.0, -1.0
        what = i % 6
        if what == 0:
            e[i % 40] = np.nextafter(e[i % 40], 10.)      # one ulp in one value
        elif what == 1:
            e[i % 40] = NAN
        elif what == 2:
            phi[i % 3] = np.nextafter(phi[i % 3], 10.)
        elif what == 3:
            m = 1.0 + i * 2. ** -40
        elif what == 4:
            ini = -1.0 - i * 2. ** -40
        else:
            e = e[:1 + i % 40]
        variants.append((phi, e, m, ini))
    # +0 / -0 in every argument are distinct bit patterns, same maths
    variants.append((np.array([0.0, 0.5]), np.array([0.0, 1.0, -0.0]), 0.0, 0.0))
    variants.append((np.array([-0.0, 0.5]), np.array([-0.0, 1.0, 0.0]), -0.0, -0.0))

    expected = []
    for phi, e, m, ini in variants:
        ys = ref_sim(list(phi), list(e), m, ini)
        rs = ref_res(list(phi), list(e), m, ini)
        expected.append((ys, rs))

    def one_pass(order, errors):
        for j in order:
            phi, e, m, ini = variants[j]
            # new objects with equal contents on each call
            y = armodels.armodel_sim(phi.copy(), e.copy(), m, ini)
            r = armodels.armodel_residual(phi.copy(), e.copy(), m, ini)
            ys, rs = expected[j]
            if y.shape != (len(ys),) or r.shape != (len(rs),) \
                    or np.max(np.abs(y - ys)) > 1e-12 * scale_of(ys) \
                    or np.max(np.abs(r - rs)) > 1e-12 * scale_of(rs, e):
                errors.append(j)
            y += 1.0
            r[:] = NAN

    errors = []
    for rep in range(3):
        one_pass(RNG.permutation(len(variants)), errors)
    if errors:
        fail(f"many calls: wrong answers for variants {sorted(set(errors))[:10]}")
    else:
        ok()

    errors = []
    orders = [RNG.permutation(len(variants)) for _ in range(4)]
    threads = [threading.Thread(target=one_pass, args=(o, errors)) for o in orders]
    for t in threads:
        t.start()
    for t in threads:
        t.join()
    if errors:
        fail(f"threads: wrong answers for variants {sorted(set(errors))[:10]}")
    else:
        ok()

    # a long series (beyond the stated range, still expected to work)
    phi = coefficients(4, "stable")
    e = RNG.normal(size=60000)
    e[::977] = NAN
    for rep in range(2):
        y = armodels.armodel_sim(phi, e, 2., 3.)
        close(y, ref_sim(list(phi), list(e), 2., 3.), 1e-10 * scale_of(y), "long sim")
        ez = np.where(np.isnan(e), 0., e)
        close(armodels.armodel_residual(phi, y, 2., 3.), ez, 1e-10 * scale_of(y), "long round trip")
        y[:] = 0.


def main():
    section_recursion()
    section_defaults()
    section_rejections()
    section_call_independence()
    section_many_calls()
    print(f"{NCHECK} checks passed, {len(FAILURES)} failed")
    return 1 if FAILURES else 0


if __name__ == "__main__":
    sys.exit(main())
