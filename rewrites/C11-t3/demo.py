#!/usr/bin/env python
"""Demo / self-check for property C11 (flow accumulation equals the sum over
everything upstream).

Run as:  PYTHONPATH=<tree>/src /venv/bin/python demo.py

The checks are written against the PROPERTY only (an independent pure Python
model of "who drains through whom"), never against the implementation, so
the program exits 0 on the unmodified and on the rewritten tree.

Checked, for every acyclic flow direction grid generated below and for the
fields {default unit field, uniform, random positive, zeros and negatives}:

 (P1) a cell that drains into another cell carries the sum of the field over
      itself and every cell draining through it (= the count of such cells
      for the default unit field);
 (P2) the same cell carries its own contribution plus the accumulated values
      of its direct upstream neighbours;
 (P3) cells draining nowhere (sinks, off-grid exits, invalid codes) carry
      the no-data value of the accumulated field (NaN no-data included);
 (P4) the cell values of the input grids are not altered.

Grids with cycles and calls with a reduced max_accumulated_cells are only
run to completion (no exception, finite run time).
"""
import itertools
import math
import os
import sys

import numpy as np

from hydrodiy.gis.grid import Grid, accumulate, FLOWDIRCODE

# ---------------------------------------------------------------------------
# Independent model of the drainage network
# ---------------------------------------------------------------------------
CODE2MOVE = {}
for _r in range(3):
    for _c in range(3):
        if not (_r == 1 and _c == 1):
            CODE2MOVE[int(FLOWDIRCODE[_r, _c])] = (_r-1, _c-1)

VALID = sorted(CODE2MOVE)          # 1, 2, 4, ..., 128
INVALID = [3, 7, -5, 255, 1000]    # codes that are not a direction
ALPHABET = [0] + VALID + [3]       # sink, 8 directions, one invalid code


def downstream_table(fd):
    """ Returns, for every flat cell index, the flat index of the cell it
    drains into, or -1 if it drains nowhere """
    nr, nc = fd.shape
    down = np.full(nr*nc, -1, dtype=np.int64)
    for r in range(nr):
        for c in range(nc):
            mv = CODE2MOVE.get(int(fd[r, c]))
            if mv is None:
                continue
            r2, c2 = r+mv[0], c+mv[1]
            if 0 <= r2 < nr and 0 <= c2 < nc:
                down[r*nc+c] = r2*nc+c2
    return down


def has_cycle(down):
    n = len(down)
    state = np.zeros(n, dtype=np.int8)   # 0 new, 1 on path, 2 done
    for s in range(n):
        path = []
        k = s
        while k >= 0 and state[k] == 0:
            state[k] = 1
            path.append(k)
            k = down[k]
        if k >= 0 and state[k] == 1:
            return True
        for p in path:
            state[p] = 2
    return False


def draining_through(down):
    """ For every cell, the list of cells draining through it
    (itself excluded) """
    n = len(down)
    ups = [[] for _ in range(n)]
    for i in range(n):
        k = down[i]
        while k >= 0:
            ups[k].append(i)
            k = down[k]
    return ups


# ---------------------------------------------------------------------------
# Silence the progress log the C kernel writes on the C-level stdout
# ---------------------------------------------------------------------------
class quiet(object):
    def __enter__(self):
        sys.stdout.flush()
        self.saved = os.dup(1)
        self.null = os.open(os.devnull, os.O_WRONLY)
        os.dup2(self.null, 1)

    def __exit__(self, *args):
        os.dup2(self.saved, 1)
        os.close(self.null)
        os.close(self.saved)


# ---------------------------------------------------------------------------
# Property check
# ---------------------------------------------------------------------------
NCHECKED = 0
NRUNONLY = 0


def make_flowdir(fd, dtype=np.int64, nodata=-1):
    nr, nc = fd.shape
    g = Grid("fd", nc, nr, dtype=dtype, nodata=nodata)
    g.data = fd
    return g


def make_field(flowdir, values, nodata):
    g = Grid("field", flowdir.ncols, flowdir.nrows, dtype=np.float64,
             nodata=nodata)
    g.data = values
    return g


def same_nodata(x, nodata):
    if np.isnan(nodata):
        return bool(np.isnan(x))
    return x == nodata


def check_call(flowdir, field, nprint=100, label=""):
    """ Calls accumulate(flowdir, field) on EXISTING grid objects (their
    flow directions have to be acyclic) and checks P1-P4 against their
    content at the time of the call. Returns the accumulated grid. """
    global NCHECKED
    fd = np.array(flowdir.data)
    down = downstream_table(fd)
    assert not has_cycle(down)
    ups = draining_through(down)

    if field is None:
        val = np.ones(fd.size)
        nodata = float(flowdir.nodata)
        with quiet():
            acc = accumulate(flowdir, nprint=nprint)
    else:
        val = np.array(field.data, dtype=np.float64).ravel()
        val_before = field.data.copy()
        nodata = float(field.nodata)
        with quiet():
            acc = accumulate(flowdir, field, nprint=nprint)

    where = f"{label} fd={fd.tolist()} values="\
            f"{None if field is None else val.tolist()} nodata={nodata}"

    # P4: inputs are not altered
    assert np.array_equal(flowdir.data, fd), "P4 flowdir "+where
    if field is not None:
        assert np.array_equal(field.data, val_before, equal_nan=True),\
            "P4 field "+where
        assert float(field.nodata) == nodata or np.isnan(nodata)
        assert acc is not field
        assert not np.shares_memory(acc.data, field.data)
    assert acc is not flowdir
    assert not np.shares_memory(acc.data, flowdir.data)

    # Shape of the result
    assert acc.data.shape == fd.shape, "shape "+where
    res = np.asarray(acc.data, dtype=np.float64).ravel()

    integer_valued = bool(np.all(val == np.round(val)))\
        and np.sum(np.abs(val)) < 2**52

    for j in range(fd.size):
        if down[j] < 0:
            # P3
            assert same_nodata(res[j], nodata), \
                f"P3 cell {j}: {res[j]} != nodata {nodata} "+where
            continue

        # P1
        members = [j]+ups[j]
        expected = math.fsum(val[k] for k in members)
        scale = math.fsum(abs(val[k]) for k in members)
        tol = 0. if integer_valued else 1e-12*scale*max(1, len(members))
        assert abs(res[j]-expected) <= tol, \
            f"P1 cell {j}: {res[j]} != {expected} "+where

        if field is None:
            assert res[j] == len(members), "P1 count "+where

        # P2
        direct = [k for k in ups[j] if down[k] == j]
        expected2 = math.fsum([val[j]]+[res[k] for k in direct])
        assert abs(res[j]-expected2) <= 2*tol, \
            f"P2 cell {j}: {res[j]} != {expected2} "+where

    NCHECKED += 1
    return acc


def check_property(fd, values=None, nodata=-9999., fd_dtype=np.int64,
                   fd_nodata=-1, nprint=100, label=""):
    """ fd: 2d int array of codes WITHOUT cycles. values: None (default unit
    field) or a 2d float array. Builds new grids and checks the call. """
    fd = np.asarray(fd)
    flowdir = make_flowdir(fd, fd_dtype, fd_nodata)
    field = None if values is None else make_field(flowdir, values, nodata)
    acc = check_call(flowdir, field, nprint, label)
    assert np.array_equal(flowdir.data, fd)
    if values is None:
        # terminal cells of the default unit field carry flowdir's nodata
        down = downstream_table(fd)
        assert np.all(acc.data.ravel()[down < 0] == fd_nodata)
    return acc


def stateful_checks(rng):
    """ The SAME grid objects are used for a long series of calls and are
    modified in place between calls (one flow direction, one value, the
    no-data value, a 0. turned into -0., ...), sometimes not at all, and
    previous results are scribbled over. Each call has to be right for the
    content of the grids at the time of the call. """
    for shape in [(1, 1), (1, 2), (4, 5), (9, 3)]:
        n = shape[0]*shape[1]
        flowdir = make_flowdir(random_acyclic(rng, *shape), np.int32)
        field = make_field(flowdir, rng.uniform(1, 2, size=shape), -1.)
        other = make_flowdir(random_acyclic(rng, shape[1], shape[0]))
        previous = []
        for it in range(120):
            action = it % 12
            if action == 0:
                pass
            elif action == 1:
                # new flow directions written in place, a few cells differ
                new = random_acyclic(rng, *shape)
                flowdir.data[...] = new
            elif action == 2:
                r, c = rng.integers(shape[0]), rng.integers(shape[1])
                field.data[r, c] += 1.
            elif action == 3:
                field.nodata = [-1., np.nan, 1e30, 0., -2.][(it//12) % 5]
            elif action == 4:
                r, c = rng.integers(shape[0]), rng.integers(shape[1])
                field.data[r, c] = 0.
            elif action == 5:
                field.data[field.data == 0.] *= -1.
            elif action == 6:
                for p in previous:
                    p.data[...] = 777.
                    p.nodata = 555.
            elif action == 7:
                # a cell turned into a sink / an off-grid exit / invalid
                r, c = rng.integers(shape[0]), rng.integers(shape[1])
                flowdir.data[r, c] = [0, 64 if r == 0 else 0, 3][it % 3]
            elif action == 8:
                # same content, new objects
                flowdir = flowdir.clone()
                field = field.clone()
            elif action == 9:
                # grid of another shape in between
                check_call(other, None, label="stateful/other")
            elif action == 10:
                field.data[...] = -field.data
            elif action == 11:
                flowdir[rng.integers(n)] = 0

            acc = check_call(flowdir, field, label="stateful")
            acc1 = check_call(flowdir, None, label="stateful/unit")
            acc2 = check_call(flowdir, field, label="stateful/again")
            assert np.array_equal(acc.data, acc2.data, equal_nan=True)
            assert not np.shares_memory(acc.data, acc2.data)
            assert acc.data.flags.writeable and acc.data.flags.c_contiguous
            assert acc.data.dtype == np.float64
            previous = [acc, acc1, acc2]


def run_only(fd, values=None, nodata=-9999., max_acc=-1, fd_dtype=np.int64):
    """ Outside the property: cycles and/or reduced limit. The call has to
    return normally """
    global NRUNONLY
    fd = np.asarray(fd)
    flowdir = make_flowdir(fd, fd_dtype)
    field = None if values is None else make_field(flowdir, values, nodata)
    with quiet():
        acc = accumulate(flowdir, field, nprint=7,
                         max_accumulated_cells=max_acc)
    assert acc.data.shape == fd.shape
    assert np.array_equal(flowdir.data, fd)
    NRUNONLY += 1


def fields_for(rng, shape):
    """ The families of accumulated fields of the property """
    n = shape[0]*shape[1]
    out = [(None, None)]
    out.append((np.full(shape, 2.5), -1.))
    out.append((rng.uniform(0.01, 100., size=shape), -9999.))
    v = rng.integers(-3, 4, size=shape).astype(np.float64)
    v.flat[rng.integers(0, n)] = 0.
    out.append((v, np.nan))
    w = rng.normal(size=shape)*10**rng.uniform(-3, 6)
    w.flat[rng.integers(0, n)] = 0.
    w.flat[rng.integers(0, n)] = -0.
    out.append((w, 1e30))
    return out


def random_acyclic(rng, nr, nc, psink=0.1, pout=0.5, pinvalid=0.02):
    """ Random acyclic grid: every cell points to a strictly lower
    neighbour of a random elevation field (or off-grid, or is a sink) """
    z = rng.permutation(nr*nc).reshape(nr, nc).astype(float)
    fd = np.zeros((nr, nc), dtype=np.int64)
    for r in range(nr):
        for c in range(nc):
            u = rng.uniform()
            if u < psink:
                continue
            if u < psink+pinvalid:
                fd[r, c] = INVALID[rng.integers(len(INVALID))]
                continue
            cands = []
            for code, (dr, dc) in CODE2MOVE.items():
                r2, c2 = r+dr, c+dc
                if 0 <= r2 < nr and 0 <= c2 < nc:
                    if z[r2, c2] < z[r, c]:
                        cands.append(code)
                elif rng.uniform() < pout:
                    cands.append(code)
            if cands:
                fd[r, c] = cands[rng.integers(len(cands))]
    return fd


def main():
    rng = np.random.default_rng(5446)

    # --- 1. exhaustive over small sizes -----------------------------------
    # every grid over {sink, 8 directions, 1 invalid code}
    for shape in [(1, 1), (1, 2), (2, 1), (1, 3), (3, 1), (2, 2)]:
        n = shape[0]*shape[1]
        for k, codes in enumerate(itertools.product(ALPHABET, repeat=n)):
            fd = np.array(codes, dtype=np.int64).reshape(shape)
            if has_cycle(downstream_table(fd)):
                if k % 5 == 0:
                    run_only(fd)
                continue
            flds = fields_for(rng, shape)
            if n <= 3:
                for values, nodata in flds:
                    check_property(fd, values, nodata, label="exhaustive")
            else:
                # 2x2: unit field always, one other family in turn
                check_property(fd, label="exhaustive")
                values, nodata = flds[1+k % 4]
                check_property(fd, values, nodata, label="exhaustive")

    # every grid over the 8 directions + sink for 2x3 / 3x2 is 5e5 grids:
    # take a random sample of them (plus 1x4 .. 1x6 lines)
    for shape in [(2, 3), (3, 2), (1, 4), (4, 1), (1, 6), (3, 3)]:
        n = shape[0]*shape[1]
        ndone = 0
        while ndone < 300:
            fd = rng.choice(ALPHABET, size=shape)
            if has_cycle(downstream_table(fd)):
                run_only(fd)
                continue
            values, nodata = fields_for(rng, shape)[ndone % 5]
            check_property(fd, values, nodata, label="sampled")
            ndone += 1

    # --- 2. awkward hand-made networks ------------------------------------
    # a single long line (length 1, 2 and 40), both directions
    for n in [1, 2, 40]:
        for code in [1, 16]:
            fd = np.full((1, n), code)
            for values, nodata in fields_for(rng, fd.shape):
                check_property(fd, values, nodata, label="line")
        for code in [4, 64]:
            fd = np.full((n, 1), code)
            for values, nodata in fields_for(rng, fd.shape):
                check_property(fd, values, nodata, label="column")

    # snake visiting every cell: longest possible path (ntot-1 steps)
    nr, nc = 5, 6
    fd = np.zeros((nr, nc), dtype=np.int64)
    for r in range(nr):
        fd[r, :] = 1 if r % 2 == 0 else 16
        fd[r, -1 if r % 2 == 0 else 0] = 4
    fd[-1, 0 if nr % 2 == 0 else -1] = 0
    for values, nodata in fields_for(rng, fd.shape):
        check_property(fd, values, nodata, label="snake")

    # 8 neighbours all draining into the centre, centre leaves the grid
    # through each possible route (sink, invalid, neighbour then off-grid)
    star = np.array([[2, 4, 8], [1, 0, 16], [128, 64, 32]])
    for centre in [0, 3, -1]:
        fd = star.copy()
        fd[1, 1] = centre
        for values, nodata in fields_for(rng, fd.shape):
            check_property(fd, values, nodata, label="star")
    big = np.zeros((5, 5), dtype=np.int64)
    big[1:4, 1:4] = star
    big[2, 2] = 4
    big[3, 2] = 4
    big[4, 2] = 4  # leaves the grid at the bottom
    for values, nodata in fields_for(rng, big.shape):
        check_property(big, values, nodata, label="star+outlet")

    # everything drains off-grid at once / everything is a sink
    for code in [0]+VALID:
        fd = np.full((3, 4), code)
        for values, nodata in fields_for(rng, fd.shape)[:3]:
            check_property(fd, values, nodata, label="uniform code")

    # ties: equal contributions, cancelling contributions
    fd = np.array([[2, 4, 8], [1, 4, 16], [1, 4, 16], [0, 4, 0]])
    check_property(fd, np.full(fd.shape, 0.1), -0.1, label="ties")
    v = np.array([[1e16, 1., -1e16], [1., 1., 1.], [0., -0., 0.],
                  [5., 3., 5.]])
    check_property(fd, v, -1., label="cancel")
    check_property(fd, np.zeros(fd.shape), -1., label="zeros")
    check_property(fd, -np.ones(fd.shape), 1., label="negative")
    # no-data value that also occurs as a regular accumulated value
    check_property(fd, np.ones(fd.shape), 2., label="nodata clash")

    # flow direction grids stored with another integer type, other nodata
    for dt in [np.int32, np.int64, np.int16, np.uint8]:
        for fdn in [-1, 0, 99]:
            if dt == np.uint8 and fdn < 0:
                continue
            check_property(fd, None, fd_dtype=dt, fd_nodata=fdn,
                           label="dtype")
            check_property(fd, v, -7., fd_dtype=dt, fd_nodata=fdn,
                           label="dtype")

    # progress log settings do not matter
    for nprint in [1, 3, 100, 10**6, 0, -4]:
        check_property(fd, v, -7., nprint=nprint, label="nprint")

    # --- 3. random acyclic grids beyond the exhaustive sizes ---------------
    for it in range(400):
        nr = int(rng.integers(1, 13))
        nc = int(rng.integers(1, 13))
        fd = random_acyclic(rng, nr, nc, psink=rng.uniform(0, 0.3),
                            pout=rng.uniform(0, 1))
        values, nodata = fields_for(rng, fd.shape)[it % 5]
        check_property(fd, values, nodata, label="random")

    for shape in [(30, 40), (64, 17), (1, 300), (120, 2)]:
        fd = random_acyclic(rng, *shape, psink=0.01, pout=0.2)
        for values, nodata in fields_for(rng, fd.shape):
            check_property(fd, values, nodata, label="large")

    # Same call repeated, alternating with other grids and shapes: every
    # call has to be answered on its own inputs (no stale state)
    a = random_acyclic(rng, 6, 7)
    b = random_acyclic(rng, 6, 7)
    c = random_acyclic(rng, 7, 6)
    va = rng.uniform(1, 2, size=a.shape)
    vb = va.copy()
    vb[3, 3] += 1.
    for fd, values, nodata in [(a, va, -1.), (a, va, -1.), (b, va, -1.),
                               (a, vb, -1.), (a, va, -2.), (c, va.T, -1.),
                               (a, va, -1.), (a, None, None),
                               (b, None, None), (a, None, None)]:
        check_property(fd, values, nodata, label="repeat")

    # A returned grid is the caller's: writing into it does not change
    # the answer to the next identical call
    flowdir = make_flowdir(a)
    field = make_field(flowdir, va, -1.)
    with quiet():
        r1 = accumulate(flowdir, field)
    keep = r1.data.copy()
    r1.data[:] = 12345.
    with quiet():
        r2 = accumulate(flowdir, field)
    assert np.array_equal(r2.data, keep)
    assert r1 is not r2 and not np.shares_memory(r1.data, r2.data)

    # Long series of calls on the same objects modified in place
    stateful_checks(rng)

    # --- 4. outside the property: has to terminate without error ----------
    cyc2 = np.array([[1, 16, 16, 16]])
    cyc4 = np.array([[1, 4, 16], [64, 16, 16], [64, 1, 64]])
    for fd in [cyc2, cyc4, np.array([[4], [64]])]:
        run_only(fd)
        run_only(fd, rng.uniform(size=fd.shape), -1.)
        for m in [1, 2, 3, 1000]:
            run_only(fd, max_acc=m)
    for it in range(200):
        shape = (int(rng.integers(1, 8)), int(rng.integers(1, 8)))
        fd = rng.choice(VALID+[0], size=shape)
        run_only(fd, max_acc=int(rng.choice([-1, 1, 2, 5, 100])))
    for it in range(50):
        fd = random_acyclic(rng, 8, 9)
        run_only(fd, rng.uniform(size=fd.shape), -1.,
                 max_acc=int(rng.integers(1, 6)))

    print(f"C11 demo: {NCHECKED} acyclic cases checked against the "
          f"property, {NRUNONLY} cyclic / reduced-limit calls completed.")
    print("OK")
    return 0


if __name__ == "__main__":
    sys.exit(main())
