#!/usr/bin/env python
""" Property C07 demo: grid cell numbers, rows/columns and coordinates are
mutually consistent.

Run as   PYTHONPATH=<tree>/src /venv/bin/python demo.py
Exits 0 when every check passes (on the unmodified and on the rewritten tree).

Only the documented property is checked, on inputs inside its quantifier:
  * nrows, ncols >= 1 (including 1 and 2, single row, single column, large)
  * cell size over eight orders of magnitude (1e-4 .. 1e4)
  * finite origins up to 1e4 cell sizes from zero (both signs, both axes)
  * every valid cell (sampled on the big grids) and invalid cell numbers
  * points inside each footprint, at least 1e-9 cell away from the edges
  * points outside the extent on the 4 sides and 4 diagonals, from 1e-9 cell
    outside to far away (and infinitely far away)
The accuracy asked of cell2coord is 1e-9 cell (the same margin as above).
Different call histories are exercised as well: repeated calls, interleaved
grids, geometry attributes changed in place between calls, and results
modified by the caller between calls.
"""
import sys
import itertools
import numpy as np

from hydrodiy.gis.grid import Grid

NFAIL = 0
NCHECK = 0
EDGE = 1e-9   # relative (to cell size) distance kept from cell edges
CTOL = 1e-9   # accuracy asked from cell2coord, in cell sizes


def check(cond, what):
    global NFAIL, NCHECK
    NCHECK += 1
    if not bool(cond):
        NFAIL += 1
        if NFAIL < 40:
            print("FAIL:", what)


def flagged_rowcol(gr, cells):
    """ invalid cells: -1 or an error, never a cell """
    try:
        rc = gr.cell2rowcol(cells)
    except Exception:
        return True
    rc = np.asarray(rc)
    return rc.shape == (len(np.atleast_1d(cells)), 2) and np.all(rc == -1)


def flagged_coord(gr, cells):
    """ invalid cells: NaN or an error, never a coordinate """
    try:
        xy = gr.cell2coord(cells)
    except Exception:
        return True
    xy = np.asarray(xy)
    return xy.shape == (len(np.atleast_1d(cells)), 2) and np.all(np.isnan(xy))


def flagged_neighbours(gr, cell):
    """ invalid cell: an error, or nothing but -1 """
    try:
        nb = gr.neighbours(cell)
    except Exception:
        return True
    return np.all(np.asarray(nb) == -1)


def expected_neighbours(c, nrows, ncols):
    """ 0 1 2 / 3 X 5 / 6 7 8 numbering, -1 off the grid. Slot 4 is the
    cell itself and is not constrained by the property. """
    row, col = divmod(int(c), int(ncols))
    out = []
    for k in range(9):
        dr, dc = k//3-1, k % 3-1
        r, cc = row+dr, col+dc
        if 0 <= r < nrows and 0 <= cc < ncols:
            out.append(r*ncols+cc)
        else:
            out.append(-1)
    return out


def select_cells(nrows, ncols, rng, nmax=400):
    ncells = nrows*ncols
    if ncells <= nmax:
        return np.arange(ncells, dtype=np.int64)
    # corners, borders, first/last of rows + random
    special = [0, 1, ncols-1, ncols, ncols+1, 2*ncols-1,
               ncells-1, ncells-2, ncells-ncols, ncells-ncols-1,
               ncells-ncols+1, ncells//2, (nrows//2)*ncols,
               (nrows//2)*ncols+ncols-1]
    special = [c for c in special if 0 <= c < ncells]
    rnd = rng.integers(0, ncells, size=nmax-len(special))
    return np.unique(np.concatenate([special, rnd]).astype(np.int64))


def check_geometry(nrows, ncols, csz, xll, yll, rng, label):
    if nrows*ncols <= 2000000:
        gr = Grid("demo", ncols=ncols, nrows=nrows, cellsize=csz,
                  xllcorner=xll, yllcorner=yll)
    else:
        # do not allocate gigabytes of data: the geometry methods only use
        # the geometry attributes
        gr = Grid("demo", ncols=1, nrows=1, cellsize=csz,
                  xllcorner=xll, yllcorner=yll, dtype=np.int8)
        gr.nrows = np.int64(nrows)
        gr.ncols = np.int64(ncols)
    check_grid(gr, rng, label)
    return gr


def check_grid(gr, rng, label):
    nrows, ncols = int(gr.nrows), int(gr.ncols)
    csz, xll, yll = float(gr.cellsize), float(gr.xllcorner), \
        float(gr.yllcorner)
    ncells = nrows*ncols
    # margins are 1e-9 cell, unless the grid is so wide (millions of cells)
    # that this is not 16 times the spacing of floating point coordinates
    maxabs = max(abs(xll), abs(xll+ncols*csz), abs(yll), abs(yll+nrows*csz))
    EDGE = max(globals()["EDGE"], 16*np.spacing(maxabs)/csz)
    CTOL = max(globals()["CTOL"], 16*np.spacing(maxabs)/csz)
    cells = select_cells(nrows, ncols, rng)
    rows = cells//ncols
    cols = cells % ncols

    # --- numbering: row by row from the top-left corner -----------------
    rc = gr.cell2rowcol(cells)
    check(rc.shape == (len(cells), 2), f"{label}: rowcol shape")
    check(np.array_equal(rc[:, 0], rows) and np.array_equal(rc[:, 1], cols),
          f"{label}: cell2rowcol agrees with row-major numbering")

    # --- cell2coord is the centre of the cell ---------------------------
    xy = gr.cell2coord(cells)
    check(xy.shape == (len(cells), 2), f"{label}: coord shape")
    xc = xll+(cols+0.5)*csz
    yc = yll+(nrows-1-rows+0.5)*csz
    err = max(np.abs(xy[:, 0]-xc).max(), np.abs(xy[:, 1]-yc).max())
    check(err <= CTOL*csz, f"{label}: cell2coord is the centre (err={err})")

    # top-left cell is 0, its centre is the top-left most centre
    xy0 = gr.cell2coord(0)[0]
    check(abs(xy0[0]-(xll+0.5*csz)) <= CTOL*csz
          and abs(xy0[1]-(yll+(nrows-0.5)*csz)) <= CTOL*csz,
          f"{label}: cell 0 is the top left corner")

    # --- round trip -------------------------------------------------------
    back = gr.coord2cell(xy)
    check(np.array_equal(back, cells), f"{label}: coord2cell(cell2coord(c))=c")

    # --- every point of the footprint (away from the edges) -------------
    us = np.array([EDGE, 1e-6, 0.25, 0.5, 0.75, 1-1e-6, 1-EDGE])
    for u, v in itertools.product(us, us):
        pts = np.column_stack([xll+(cols+u)*csz,
                               yll+(nrows-1-rows+v)*csz])
        got = gr.coord2cell(pts)
        check(np.array_equal(got, cells),
              f"{label}: footprint point u={u} v={v}")
    for _ in range(3):
        u = rng.uniform(EDGE, 1-EDGE, size=len(cells))
        v = rng.uniform(EDGE, 1-EDGE, size=len(cells))
        pts = np.column_stack([xll+(cols+u)*csz,
                               yll+(nrows-1-rows+v)*csz])
        check(np.array_equal(gr.coord2cell(pts), cells),
              f"{label}: random footprint points")
    # the same relative to the centre returned by cell2coord
    for du, dv in itertools.product([-0.5+2*EDGE, 0, 0.5-2*EDGE], repeat=2):
        pts = xy+np.array([du, dv])[None, :]*csz
        check(np.array_equal(gr.coord2cell(pts), cells),
              f"{label}: centre + ({du},{dv}) cell")

    # --- points outside the extent: -1 ------------------------------------
    width, height = ncols*csz, nrows*csz
    dists = [EDGE, 1e-6, 1e-3, 0.5, 1., 1.5, 10., 1e4, 1e9, 1e18, 1e300/csz,
             np.inf]
    along = [EDGE, 0.5, 1-EDGE]
    outside = []
    for d in dists:
        d = d*csz
        for a in along:
            outside.append([xll-d, yll+a*height])          # west
            outside.append([xll+width+d, yll+a*height])    # east
            outside.append([xll+a*width, yll-d])           # south
            outside.append([xll+a*width, yll+height+d])    # north
        outside.append([xll-d, yll-d])                     # diagonals
        outside.append([xll-d, yll+height+d])
        outside.append([xll+width+d, yll-d])
        outside.append([xll+width+d, yll+height+d])
        # mixed distances on the diagonals
        outside.append([xll-d, yll+height+EDGE*csz])
        outside.append([xll+width+EDGE*csz, yll-d])
    outside = np.array(outside)
    got = gr.coord2cell(outside)
    check(got.shape == (len(outside),) and np.all(got == -1),
          f"{label}: points outside the extent give -1 "
          f"(bad: {outside[got != -1][:3]})")

    # inside and outside points mixed in one call
    mixed = np.concatenate([outside[:7], xy[:5], outside[7:11], xy[5:9]])
    expm = np.concatenate([-np.ones(7), cells[:5], -np.ones(4), cells[5:9]])
    check(np.array_equal(gr.coord2cell(mixed), expm),
          f"{label}: mixed inside/outside points")

    # --- neighbours ---------------------------------------------------------
    ncheck = cells if len(cells) <= 150 else \
        np.unique(np.concatenate([cells[:40], cells[-40:],
                                  rng.choice(cells, 40)]))
    for c in ncheck:
        nb = np.asarray(gr.neighbours(c))
        check(nb.shape == (9,), f"{label}: neighbours length")
        exp = expected_neighbours(c, nrows, ncols)
        ok = all(nb[k] == exp[k] for k in range(9) if k != 4)
        check(ok, f"{label}: neighbours of {c}: {nb} vs {exp}")
        # symmetry, mirrored positions
        for k in range(9):
            if k == 4 or nb[k] < 0:
                continue
            nb2 = np.asarray(gr.neighbours(nb[k]))
            check(nb2[8-k] == c,
                  f"{label}: neighbour relation symmetric ({c},{nb[k]})")
        # agreement with rowcol
        valid = [k for k in range(9) if k != 4 and nb[k] >= 0]
        if valid:
            rcn = gr.cell2rowcol(nb[valid])
            rc0 = gr.cell2rowcol(c)[0]
            drc = np.array([[k//3-1, k % 3-1] for k in valid])
            check(np.array_equal(rcn-rc0[None, :], drc),
                  f"{label}: neighbours agree with cell2rowcol ({c})")

    # --- invalid cell numbers are flagged -----------------------------------
    invalid = [-1, -2, -ncols, -ncells, ncells, ncells+1, ncells+ncols,
               2*ncells, 10*ncells+3, 2**31, -2**31, 2**40, -2**40,
               2**62, -2**62, np.iinfo(np.int64).max, np.iinfo(np.int64).min]
    invalid = [c for c in invalid if c < 0 or c >= ncells]
    for c in invalid:
        check(flagged_rowcol(gr, c), f"{label}: cell2rowcol flags {c}")
        check(flagged_coord(gr, c), f"{label}: cell2coord flags {c}")
        check(flagged_neighbours(gr, c), f"{label}: neighbours flags {c}")
    check(flagged_rowcol(gr, invalid), f"{label}: cell2rowcol flags all")
    check(flagged_coord(gr, invalid), f"{label}: cell2coord flags all")

    # valid and invalid mixed: either an error, or each one treated on its own
    mixc = np.array([cells[0], -1, cells[-1], ncells, cells[len(cells)//2]])
    isval = np.array([True, False, True, False, True])
    try:
        rcm = gr.cell2rowcol(mixc)
    except Exception:
        rcm = None
    if rcm is not None:
        check(np.all(rcm[~isval] == -1)
              and np.array_equal(rcm[isval, 0], mixc[isval]//ncols)
              and np.array_equal(rcm[isval, 1], mixc[isval] % ncols),
              f"{label}: cell2rowcol mixed valid/invalid")
    try:
        xym = gr.cell2coord(mixc)
    except Exception:
        xym = None
    if xym is not None:
        check(np.all(np.isnan(xym[~isval]))
              and np.array_equal(gr.coord2cell(xym[isval]), mixc[isval]),
              f"{label}: cell2coord mixed valid/invalid")


def check_input_forms(rng):
    """ The same answers whatever the container (still inside the quantifier)
    """
    gr = Grid("forms", ncols=5, nrows=7, cellsize=0.25,
              xllcorner=-3.5, yllcorner=12.25)
    cells = np.arange(35)
    ref_xy = gr.cell2coord(cells)
    ref_rc = gr.cell2rowcol(cells)
    for form in [list(range(35)), tuple(range(35)), cells.astype(np.int32),
                 cells.astype(np.int16), cells.astype(np.uint8),
                 np.arange(70)[::2]//2*1,
                 np.arange(35, dtype=np.int64)[::-1][::-1]]:
        check(np.array_equal(gr.cell2coord(form), ref_xy), "forms: cell2coord")
        check(np.array_equal(gr.cell2rowcol(form), ref_rc),
              "forms: cell2rowcol")
    # reversed / strided views
    rev = cells[::-1]
    check(np.array_equal(gr.cell2coord(rev), ref_xy[::-1]), "forms: reversed")
    check(np.array_equal(gr.cell2rowcol(cells[::3]), ref_rc[::3]),
          "forms: strided")
    # scalars
    for c in [0, 4, 5, 17, 34, np.int64(12), np.int32(33)]:
        check(np.array_equal(gr.cell2coord(c), ref_xy[[c]]), "forms: scalar")
        check(np.array_equal(gr.cell2rowcol(c), ref_rc[[c]]), "forms: scalar")
        check(np.array_equal(gr.neighbours(c)[[0, 1, 2, 3, 5, 6, 7, 8]],
                             np.array(expected_neighbours(c, 7, 5))[
                                 [0, 1, 2, 3, 5, 6, 7, 8]]), "forms: nb")
    # points: list of pairs, one pair, fortran order, strided, transposed
    pts = ref_xy+rng.uniform(-0.49, 0.49, size=ref_xy.shape)*0.25
    for form in [pts.tolist(), np.asfortranarray(pts),
                 np.repeat(pts, 2, axis=0)[::2],
                 np.ascontiguousarray(pts.T).T]:
        check(np.array_equal(gr.coord2cell(form), cells), "forms: points")
    check(np.array_equal(gr.coord2cell(pts[3]), [3]), "forms: one point")
    check(np.array_equal(gr.coord2cell(list(pts[20])), [20]),
          "forms: one point as list")
    # empty inputs give empty outputs
    check(len(gr.cell2coord(np.zeros(0, dtype=np.int64))) == 0, "empty c2c")
    check(len(gr.cell2rowcol(np.zeros(0, dtype=np.int64))) == 0, "empty c2rc")
    check(len(gr.coord2cell(np.zeros((0, 2)))) == 0, "empty coord2cell")


def check_histories(rng):
    """ The property holds for every call history """
    g1 = Grid("h1", ncols=4, nrows=3, cellsize=10., xllcorner=100.,
              yllcorner=-50.)
    g2 = Grid("h2", ncols=3, nrows=4, cellsize=0.5, xllcorner=-1.,
              yllcorner=2.)
    g3 = Grid("h3", ncols=4, nrows=3, cellsize=10., xllcorner=100.,
              yllcorner=-50.)   # same geometry as g1, other object

    for it in range(4):
        for gr in [g1, g2, g3, g2, g1]:
            check_grid(gr, rng, f"history[{it}] {gr.name}")

    # results handed to the caller can be modified freely
    a = g1.cell2coord(np.arange(12))
    keep = a.copy()
    a[:] = -777.
    check(np.array_equal(g1.cell2coord(np.arange(12)), keep),
          "history: caller modified coords")
    check(np.array_equal(g3.cell2coord(np.arange(12)), keep),
          "history: caller modified coords (twin grid)")
    b = g1.cell2rowcol(np.arange(12))
    keepb = b.copy()
    b[:] = 99
    check(np.array_equal(g1.cell2rowcol(np.arange(12)), keepb),
          "history: caller modified rowcols")
    n5 = g1.neighbours(5)
    keepn = n5.copy()
    n5[:] = 1234
    check(np.array_equal(g1.neighbours(5), keepn),
          "history: caller modified neighbours")
    check(np.array_equal(g3.neighbours(5), keepn),
          "history: caller modified neighbours (twin grid)")
    i = g1.coord2cell(keep)
    i[:] = 55
    check(np.array_equal(g1.coord2cell(keep), np.arange(12)),
          "history: caller modified cells")
    # inputs are not modified
    inp = np.arange(12, dtype=np.int64)
    pts = keep.copy()
    g1.cell2coord(inp), g1.cell2rowcol(inp), g1.coord2cell(pts)
    check(np.array_equal(inp, np.arange(12)) and np.array_equal(pts, keep),
          "history: inputs untouched")

    # geometry attributes changed in place: answers follow the new geometry
    gr = Grid("mut", ncols=4, nrows=3, cellsize=10., xllcorner=100.,
              yllcorner=-50.)
    check_grid(gr, rng, "mutated: initial")
    gr.neighbours(5), gr.cell2coord(5), gr.cell2rowcol(5)
    gr.xllcorner = np.float64(-20.)
    check_grid(gr, rng, "mutated: xllcorner")
    gr.yllcorner = np.float64(3.)
    check_grid(gr, rng, "mutated: yllcorner")
    gr.cellsize = np.float64(0.125)
    check_grid(gr, rng, "mutated: cellsize")
    gr.ncols = np.int64(7)
    gr.nrows = np.int64(2)
    gr._data = np.zeros((2, 7))
    check_grid(gr, rng, "mutated: shape")
    gr.ncols = np.int64(2)
    gr.nrows = np.int64(7)
    gr._data = np.zeros((7, 2))
    check_grid(gr, rng, "mutated: shape transposed (same cell count)")
    gr.ncols = np.int64(1)
    gr.nrows = np.int64(1)
    gr._data = np.zeros((1, 1))
    check_grid(gr, rng, "mutated: one cell")

    # derived grids
    big = Grid("big", ncols=20, nrows=15, cellsize=2., xllcorner=-7.,
               yllcorner=11.)
    check_grid(big, rng, "derived: parent before")
    sub = big.clip(1., 15., 21., 31.)
    check_grid(sub, rng, "derived: clipped")
    check_grid(big.clone(), rng, "derived: clone")
    check_grid(big, rng, "derived: parent after")
    xv, yv = big.xvalues, big.yvalues
    check_grid(big, rng, "derived: after xvalues/yvalues")
    check(np.allclose(xv, -7.+2.*(np.arange(20)+0.5), rtol=0, atol=1e-9)
          and np.allclose(yv, 11.+2.*(15-np.arange(15)-0.5), rtol=0,
                          atol=1e-9), "derived: xvalues/yvalues")


def check_many_calls(rng):
    """ Many calls of varying sizes on the same objects """
    nrows, ncols = 90, 70
    gr = Grid("many", ncols=ncols, nrows=nrows, cellsize=0.2,
              xllcorner=-1234.5, yllcorner=777.1)
    twin = Grid("twin", ncols=nrows, nrows=ncols, cellsize=0.2,
                xllcorner=-1234.5, yllcorner=777.1)
    ncells = nrows*ncols

    # neighbours of every cell (6300 cells), twice, interleaved with the
    # transposed grid
    for it in range(2):
        for c in range(ncells):
            nb = gr.neighbours(c)
            exp = expected_neighbours(c, nrows, ncols)
            check(all(nb[k] == exp[k] for k in range(9) if k != 4),
                  f"many: neighbours of {c} (pass {it})")
            if c % 7 == 0:
                nbt = twin.neighbours(c)
                expt = expected_neighbours(c, ncols, nrows)
                check(all(nbt[k] == expt[k] for k in range(9) if k != 4),
                      f"many: neighbours of {c} in twin (pass {it})")
            if it == 0:
                nb[:] = -5   # caller scribbles on what it received

    # calls of very different lengths, valid and invalid cells mixed
    allcells = np.arange(ncells)
    for n in [1, 2, 3, 1000, 5, 0, 256, 257, ncells, 2, 2**20+5, 7, 3000]:
        cells = rng.integers(-3, ncells+3, size=n)
        cells[::5] = rng.integers(0, ncells, size=len(cells[::5]))
        isval = (cells >= 0) & (cells < ncells)
        previous = gr.cell2coord(allcells[:10])
        xy = gr.cell2coord(cells)
        rc = gr.cell2rowcol(cells)
        check(np.all(np.isnan(xy[~isval])) and np.all(rc[~isval] == -1),
              f"many: n={n} invalid cells flagged")
        rows, cols = cells[isval]//ncols, cells[isval] % ncols
        check(np.array_equal(rc[isval, 0], rows)
              and np.array_equal(rc[isval, 1], cols), f"many: n={n} rowcol")
        xc = -1234.5+(cols+0.5)*0.2
        yc = 777.1+(nrows-1-rows+0.5)*0.2
        check(np.all(np.abs(xy[isval, 0]-xc) <= CTOL*0.2)
              and np.all(np.abs(xy[isval, 1]-yc) <= CTOL*0.2),
              f"many: n={n} centres")
        check(np.array_equal(gr.coord2cell(xy[isval]), cells[isval]),
              f"many: n={n} round trip")
        # what was returned before is not touched by later calls
        check(np.array_equal(previous, gr.cell2coord(allcells[:10])),
              f"many: n={n} earlier result intact")

    # grids too wide / too high to keep anything per column / per row
    for shape in [(3, 3000000), (3000000, 3), (2500000, 2500000)]:
        check_geometry(shape[0], shape[1], 0.01, 55., -66., rng,
                       f"huge grid {shape}")


def main():
    rng = np.random.default_rng(7007)

    shapes = [(1, 1), (1, 2), (2, 1), (2, 2), (1, 7), (7, 1), (2, 3), (3, 2),
              (3, 3), (7, 5), (5, 7), (11, 13)]
    cellsizes = [1e-4, 1e-3, 1e-2, 0.025, 0.1, 0.5, 1., 3., 10., 100.,
                 1234.5, 1e3, 1e4]
    # origins in cell sizes
    origins = [(0., 0.), (0.3, -0.7), (-1., 1.), (-12.5, 7.25),
               (1e4, 1e4), (-1e4, -1e4), (1e4, -1e4), (-9999.9, 1234.567),
               (0.1, 9999.99), (-3., 0.)]

    ngeom = 0
    for (nrows, ncols), csz, (ox, oy) in itertools.product(shapes, cellsizes,
                                                           origins):
        # thin the product out, deterministic
        if (ngeom*7+3) % 4 != 0 and not (nrows*ncols <= 2 and ox == 0.):
            ngeom += 1
            continue
        ngeom += 1
        label = f"grid {nrows}x{ncols} csz={csz} origin=({ox},{oy})csz"
        check_geometry(nrows, ncols, csz, ox*csz, oy*csz, rng, label)

    # large grids (cells are sampled)
    for (nrows, ncols), csz, (ox, oy) in [
            ((1000, 1500), 0.05, (2240., -880.)),
            ((1500, 1000), 1e-4, (-1e4, 1e4)),
            ((1, 100000), 1e4, (1e4, -1e4)),
            ((100000, 1), 0.01, (-1e4, 3.3)),
            ((3, 200000), 1., (0., 0.)),
            ((46341, 46341), 0.001, (-5000., 5000.)),
            ((100000, 70000), 250., (9999., -9999.))]:
        label = f"large grid {nrows}x{ncols} csz={csz} origin=({ox},{oy})csz"
        check_geometry(nrows, ncols, csz, ox*csz, oy*csz, rng, label)

    # random geometries
    for _ in range(150):
        nrows = int(rng.integers(1, 40))
        ncols = int(rng.integers(1, 40))
        csz = float(10**rng.uniform(-4, 4))
        ox, oy = rng.uniform(-1e4, 1e4, size=2)
        label = f"random grid {nrows}x{ncols} csz={csz} origin=({ox},{oy})csz"
        check_geometry(nrows, ncols, csz, ox*csz, oy*csz, rng, label)

    check_input_forms(rng)
    check_histories(rng)
    check_many_calls(rng)

    print(f"{NCHECK} checks, {NFAIL} failures")
    return 1 if NFAIL else 0


if __name__ == "__main__":
    sys.exit(main())
