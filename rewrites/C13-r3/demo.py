#!/usr/bin/env python
""" C13 demo: grids and catchments survive save/load, dictionary export,
cloning and clipping.

Run as:  PYTHONPATH=<tree>/src /venv/bin/python demo.py
Exits 0 when every check passes, 1 otherwise.

Only the public API is used (Grid, Catchment and their documented methods)
and only the facts stated by the property are checked:
  * save -> from_header / from_stream / from_zip : same shape, georeferencing,
    dtype, nodata; bit-identical cell values
  * to_dict -> from_dict : same shape, georeferencing, dtype, nodata
  * clone : same as save/load + independence of the two objects
  * clip : the clipped grid holds the parent's values at coinciding centres
  * Catchment.to_dict -> from_dict : same outlet, inlets, areas
"""
import sys
import io
import math
import shutil
import tempfile
import warnings
import zipfile
from pathlib import Path

import numpy as np

from hydrodiy.gis.grid import Grid, Catchment

NCHECKS = 0
FAILURES = []


def check(cond, label):
    global NCHECKS
    NCHECKS += 1
    if not bool(cond):
        FAILURES.append(label)
        if len(FAILURES) <= 30:
            print("FAIL:", label)


INT_TYPES = [np.int8, np.int16, np.int32, np.int64,
             np.uint8, np.uint16, np.uint32, np.uint64]
FLOAT_TYPES = [np.float16, np.float32, np.float64]
ALL_TYPES = INT_TYPES + FLOAT_TYPES

SHAPES = [(1, 1), (1, 2), (2, 1), (2, 2), (3, 5), (7, 4)]

# (cellsize, xll, yll): every one a finite float64 the header has
# to reproduce exactly
GEOREFS = [
    (1., 0., 0.),
    (2., 130., -39.),
    (0.1, 0.3, -0.7),
    (1./3, -1./7, math.pi),
    (0.0025, 112.90125, -43.74375),
    (5e-324, -5e-324, 2.2250738585072014e-308),       # subnormals
    (1.7976931348623157e308, -1.7976931348623157e308,
     1.7976931348623157e308),                          # largest doubles
    (1e-17, 1e22, -1e23),
    (123456789.12345679, 0.1+0.2, -(0.1+0.2)),
    (2.**-40, -0., 4503599627370497.),                 # -0.0, 2**52+1
]


def bits(x):
    """ Exact byte content of a numpy scalar or array """
    return np.ascontiguousarray(x).tobytes()


def same_float_bits(a, b):
    return bits(np.float64(a)) == bits(np.float64(b))


def nodata_candidates(dtype):
    if np.issubdtype(dtype, np.integer):
        info = np.iinfo(dtype)
        vals = [info.min, info.max, 0, 1, info.max//2+1, info.max-1]
        if info.min < 0:
            vals += [-1, info.min+1]
        return [dtype(v) for v in vals]

    info = np.finfo(dtype)
    vals = [0., -0., -9999., 0.1, 1./3, np.nan, np.inf, -np.inf,
            info.max, info.min, info.tiny, info.smallest_subnormal,
            -info.smallest_subnormal, info.eps]
    with np.errstate(over="ignore"):
        return [dtype(v) for v in vals]


def same_nodata(a, b):
    """ nodata scalars equal as values of the same type (nan == nan).
    The sign of a zero no-data value is not tracked (-0.0 == 0.0). """
    if np.dtype(type(a)) != np.dtype(type(b)):
        return False
    if np.issubdtype(type(a), np.floating) and np.isnan(a):
        return bool(np.isnan(b))
    return bool(a == b)


def full_range_data(dtype, nrows, ncols, rng):
    """ Values over the full range of the type: random bit patterns
    (hence NaN with payloads, inf, subnormals for floats) plus
    the named extremes. """
    n = nrows*ncols
    raw = rng.integers(0, 256, size=n*np.dtype(dtype).itemsize,
                       dtype=np.uint8)
    data = raw.view(dtype).copy()
    if np.issubdtype(dtype, np.integer):
        info = np.iinfo(dtype)
        special = [info.min, info.max, 0, 1, info.max-1, info.min+1]
        special = np.array(special, dtype=dtype)
    else:
        info = np.finfo(dtype)
        special = np.array([np.nan, np.inf, -np.inf, 0., -0., info.max,
                            info.min, info.tiny, info.smallest_subnormal,
                            -info.smallest_subnormal, 1.], dtype=dtype)
    # put as many special values as fit, at random places
    k = min(n, len(special))
    pos = rng.permutation(n)[:k]
    data[pos] = rng.permutation(special)[:k]
    return data.reshape((nrows, ncols))


def make_grid(dtype, nrows, ncols, georef, nodata, rng, name="g"):
    csz, xll, yll = georef
    gr = Grid(name, ncols, nrows, cellsize=csz, xllcorner=xll,
              yllcorner=yll, dtype=dtype, nodata=nodata,
              comment="demo grid")
    data = full_range_data(dtype, nrows, ncols, rng)
    gr.data = data
    # the setter must not have altered anything
    assert bits(gr.data) == bits(data), "setter altered data"
    return gr, data


def check_meta(ga, gb, label, with_bits=True):
    check(tuple(gb.shape) == tuple(ga.shape), label+": shape")
    check(int(gb.nrows) == int(ga.nrows), label+": nrows")
    check(int(gb.ncols) == int(ga.ncols), label+": ncols")
    check(tuple(gb.data.shape) == (int(ga.nrows), int(ga.ncols)),
          label+": data shape")
    for att in ["cellsize", "xllcorner", "yllcorner"]:
        va, vb = getattr(ga, att), getattr(gb, att)
        check(va == vb, label+": "+att+" value")
        check(same_float_bits(va, vb), label+": "+att+" bits")
    check(np.dtype(gb.dtype) == np.dtype(ga.dtype), label+": dtype")
    check(gb.data.dtype == ga.data.dtype, label+": data dtype")
    check(gb.data.dtype.isnative, label+": native data")
    check(same_nodata(ga.nodata, gb.nodata), label+": nodata")


def check_values(data, gb, label):
    check(bits(gb.data) == bits(data), label+": bit-identical values")


# ---------------------------------------------------------------------
def test_save_load(tmp, rng):
    n = 0
    for dtype in ALL_TYPES:
        nodatas = nodata_candidates(dtype)
        for ishape, (nrows, ncols) in enumerate(SHAPES):
            for igeo, georef in enumerate(GEOREFS):
                # cycle through the no-data candidates
                nodata = nodatas[(ishape*len(GEOREFS)+igeo) % len(nodatas)]
                gr, data = make_grid(dtype, nrows, ncols, georef,
                                     nodata, rng)
                label = f"save/load {dtype.__name__} {nrows}x{ncols}"\
                        + f" geo{igeo} nodata={nodata!r}"
                fbil = tmp / f"g{n}.bil"
                n += 1
                # alternate str / Path arguments
                gr.save(str(fbil) if n % 2 else fbil)
                fhdr = fbil.with_suffix(".hdr")
                check(fbil.exists() and fhdr.exists(), label+": files")
                check(fbil.stat().st_size
                      == nrows*ncols*np.dtype(dtype).itemsize,
                      label+": bil size")

                # saving leaves the grid alone
                check_values(data, gr, label+" (original after save)")

                # .. from_header, given the bil or the hdr file
                g2 = Grid.from_header(fbil if n % 3 else str(fhdr))
                check_meta(gr, g2, label)
                check_values(data, g2, label)

                # .. from_stream
                if igeo % 3 == 0:
                    with fhdr.open("r") as fh, fbil.open("rb") as fd:
                        g3 = Grid.from_stream(fh, fd)
                    check_meta(gr, g3, label+" [stream]")
                    check_values(data, g3, label+" [stream]")

                    # header alone: metadata still there
                    with fhdr.open("r") as fh:
                        g4 = Grid.from_stream(fh)
                    check_meta(gr, g4, label+" [header only]")

                # .. second generation
                if igeo % 4 == 1:
                    fbil2 = tmp / f"g{n}_again.bil"
                    g2.save(fbil2)
                    g5 = Grid.from_header(fbil2)
                    check_meta(gr, g5, label+" [2nd generation]")
                    check_values(data, g5, label+" [2nd generation]")
                    check(fbil2.read_bytes() == fbil.read_bytes(),
                          label+" [2nd generation] same bil")

                # .. load() on an existing grid, path and stream
                if igeo % 5 == 2:
                    g6 = Grid.from_dict(gr.to_dict())
                    g6.load(str(fbil))
                    check_values(data, g6, label+" [load path]")
                    g7 = Grid.from_dict(gr.to_dict())
                    with fbil.open("rb") as fd:
                        g7.load(fd)
                    check_values(data, g7, label+" [load stream]")

    # every no-data candidate, on small grids
    for dtype in ALL_TYPES:
        for i, nodata in enumerate(nodata_candidates(dtype)):
            gr, data = make_grid(dtype, 2, 3, GEOREFS[i % len(GEOREFS)],
                                 nodata, rng)
            fbil = tmp / f"nd_{dtype.__name__}_{i}.bil"
            gr.save(fbil)
            g2 = Grid.from_header(fbil)
            label = f"save/load nodata {dtype.__name__} {nodata!r}"
            check_meta(gr, g2, label)
            check_values(data, g2, label)


def test_zip(tmp, rng):
    for dtype in [np.int16, np.uint64, np.float32, np.float64]:
        gr, data = make_grid(dtype, 3, 4, GEOREFS[3],
                             nodata_candidates(dtype)[1], rng)
        fbil = tmp / f"z_{dtype.__name__}.bil"
        gr.save(fbil)
        fzip = tmp / f"z_{dtype.__name__}.zip"
        with zipfile.ZipFile(fzip, "w") as zf:
            zf.write(fbil, "sub/"+fbil.name)
            zf.write(fbil.with_suffix(".hdr"), "sub/"+fbil.stem+".hdr")
        g2 = Grid.from_zip(fzip, "sub/"+fbil.stem+".hdr")
        label = f"zip {dtype.__name__}"
        check_meta(gr, g2, label)
        check_values(data, g2, label)


def write_raster(fbil, data, order, georef, nodata, swap_case=False):
    """ Raster written by 'another program': header of the documented
    layout, cell values in the byte order the header announces. """
    nrows, ncols = data.shape
    csz, xll, yll = georef
    dt = np.dtype(data.dtype)
    pixeltype = {"i": "SIGNEDINT", "u": "UNSIGNEDINT", "f": "FLOAT"}[dt.kind]
    lines = [("NROWS", nrows), ("NCOLS", ncols),
             ("XLLCORNER", repr(float(xll))),
             ("YLLCORNER", repr(float(yll))),
             ("CELLSIZE", repr(float(csz))),
             ("NBITS", dt.itemsize*8),
             ("PIXELTYPE", pixeltype),
             ("BYTEORDER", order),
             ("NODATA_VALUE", str(nodata))]
    with fbil.with_suffix(".hdr").open("w") as fh:
        for key, value in lines:
            if swap_case:
                key = key.lower()
            fh.write("{0:<14} {1}\n".format(key, value))
    code = {"I": "<", "M": ">"}[order]
    data.astype(dt.newbyteorder(code)).tofile(str(fbil))


def test_byteorder(tmp, rng):
    n = 0
    for dtype in ALL_TYPES:
        nodatas = nodata_candidates(dtype)
        for ishape, (nrows, ncols) in enumerate(SHAPES):
            for order in ["I", "M"]:
                georef = GEOREFS[(n*3+1) % len(GEOREFS)]
                nodata = nodatas[n % len(nodatas)]
                data = full_range_data(dtype, nrows, ncols, rng)
                fbil = tmp / f"bo{n}.bil"
                n += 1
                write_raster(fbil, data, order, georef, nodata,
                             swap_case=(n % 2 == 0))
                label = f"byteorder {order} {dtype.__name__}"\
                        + f" {nrows}x{ncols}"
                # the file really is in the announced order
                raw = fbil.read_bytes()
                if order == "M" and np.dtype(dtype).itemsize > 1 \
                   and sys.byteorder == "little":
                    expected = data.byteswap().tobytes()
                    check(raw == expected, label+": test file is swapped")

                ref = Grid("ref", ncols, nrows, cellsize=georef[0],
                           xllcorner=georef[1], yllcorner=georef[2],
                           dtype=dtype, nodata=nodata)
                g2 = Grid.from_header(fbil)
                check_meta(ref, g2, label)
                check_values(data, g2, label)

                with fbil.with_suffix(".hdr").open("r") as fh, \
                        fbil.open("rb") as fd:
                    g3 = Grid.from_stream(fh, fd)
                check_meta(ref, g3, label+" [stream]")
                check_values(data, g3, label+" [stream]")

                # save again (any order) and reload
                fbil2 = tmp / f"bo{n}_resaved.bil"
                g2.save(fbil2)
                g4 = Grid.from_header(fbil2)
                check_meta(ref, g4, label+" [resaved]")
                check_values(data, g4, label+" [resaved]")

                # explicit byteorder argument of load
                g5 = Grid.from_dict(ref.to_dict())
                g5.load(str(fbil), {"I": "<", "M": ">"}[order])
                check_values(data, g5, label+" [load(byteorder)]")


def test_dict(rng):
    for dtype in ALL_TYPES:
        for i, nodata in enumerate(nodata_candidates(dtype)):
            nrows, ncols = SHAPES[i % len(SHAPES)]
            georef = GEOREFS[i % len(GEOREFS)]
            gr, data = make_grid(dtype, nrows, ncols, georef, nodata, rng)
            dic = gr.to_dict()
            check(isinstance(dic, dict), "to_dict returns a dict")
            g2 = Grid.from_dict(dic)
            label = f"dict {dtype.__name__} {nrows}x{ncols} {nodata!r}"
            check_meta(gr, g2, label)
            # exporting does not touch the grid
            check_values(data, gr, label+" (original)")
            # a dictionary of a rebuilt grid rebuilds the same grid
            g3 = Grid.from_dict(g2.to_dict())
            check_meta(gr, g3, label+" [twice]")
            # altering the dictionary leaves the grid alone
            dic["ncols"] = 1000
            dic["nodata"] = "1"
            check(int(gr.ncols) == ncols and same_nodata(gr.nodata, nodata),
                  label+": grid independent from its dict")


def test_clone(rng):
    for dtype in ALL_TYPES:
        nodatas = nodata_candidates(dtype)
        for i, (nrows, ncols) in enumerate(SHAPES):
            georef = GEOREFS[(2*i+1) % len(GEOREFS)]
            nodata = nodatas[i % len(nodatas)]
            gr, data = make_grid(dtype, nrows, ncols, georef, nodata, rng)
            cl = gr.clone()
            label = f"clone {dtype.__name__} {nrows}x{ncols}"
            check(cl is not gr, label+": new object")
            check(isinstance(cl, Grid), label+": a Grid")
            check_meta(gr, cl, label)
            check_values(data, cl, label)
            check(cl.name == gr.name and cl.comment == gr.comment,
                  label+": name/comment")

            # independence, clone -> original
            check(not np.shares_memory(cl.data, gr.data),
                  label+": no shared memory")
            other = full_range_data(dtype, nrows, ncols, rng)
            cl.data[...] = other          # in place
            check_values(data, gr, label+": original after in-place"
                         + " change of the clone")
            cl[0] = dtype(1)
            cl.fill(dtype(3))
            cl.data = np.zeros((nrows, ncols), dtype=dtype)
            cl.nodata = dtype(1)
            cl.name = "other"
            cl.cellsize = 1234.
            cl.xllcorner = -1.
            check_values(data, gr, label+": original after changes"
                         + " to the clone")
            check(same_nodata(gr.nodata, nodata) and gr.name == "g"
                  and gr.cellsize == georef[0]
                  and gr.xllcorner == georef[1],
                  label+": original attributes after changes")

            # independence, original -> clone
            cl2 = gr.clone()
            gr.data[...] = other
            gr[0] = dtype(1)
            gr.nodata = dtype(1)
            gr.yllcorner = 77.
            check_values(data, cl2, label+": clone after changes"
                         + " to the original")
            check(same_nodata(cl2.nodata, nodata)
                  and same_float_bits(cl2.yllcorner, georef[2]),
                  label+": clone attributes after changes")

            # clone of a clone, clone(dtype=same type)
            cl3 = cl2.clone().clone(dtype)
            check_values(data, cl3, label+": clone of clone")
            check(np.dtype(cl3.dtype) == np.dtype(dtype),
                  label+": clone of clone dtype")


def test_clip(rng):
    # cellsize and corner : exactly representable and not
    geos = [(1., 0., 0.), (2., 130., -39.), (0.25, -3.5, 10.75),
            (0.1, 0.3, -0.7), (1./3, -1./7, math.pi),
            (0.0025, 112.90125, -43.74375), (1e-9, 1e-3, -1e-3),
            (1e6, -3e7, 1e5)]
    shapes = [(1, 1), (1, 2), (2, 1), (2, 2), (3, 5), (7, 4), (6, 6)]
    nclip = 0
    for idt, dtype in enumerate(ALL_TYPES):
        nodatas = nodata_candidates(dtype)
        for ish, (nrows, ncols) in enumerate(shapes):
            georef = geos[(idt+ish) % len(geos)]
            csz, xll, yll = georef
            nodata = nodatas[(idt+ish) % len(nodatas)]
            gr, data = make_grid(dtype, nrows, ncols, georef, nodata, rng,
                                 name="parent")
            ncells = nrows*ncols
            centres = gr.cell2coord(np.arange(ncells))

            # candidate corners, all inside the extent [xll, xur[x[yll, yur[
            # .. cell centres, lower-left corners of cells (a boundary
            #    that belongs to the cell), points near the upper
            #    cell edges, random points
            cand = [centres,
                    centres-csz/2 + 0.,
                    centres+csz*0.49,
                    centres+csz*rng.uniform(-0.5, 0.49, size=centres.shape)]
            cand = np.concatenate(cand, axis=0)
            # keep points that really are in a cell
            cells = gr.coord2cell(cand)
            cand, cells = cand[cells >= 0], cells[cells >= 0]
            # the very lower left corner of the grid is in the extent
            ll = gr.coord2cell([[xll, yll]])[0]
            if ll >= 0:
                cand = np.concatenate([cand, [[xll, yll]]])
                cells = np.append(cells, ll)

            npairs = 40 if ncells > 1 else 6
            for _ in range(npairs):
                i0, i1 = rng.integers(0, len(cand), size=2)
                xa, ya = cand[i0]
                xb, yb = cand[i1]
                x0, x1 = min(xa, xb), max(xa, xb)
                y0, y1 = min(ya, yb), max(ya, yb)
                # both corners inside the extent
                c0, c1 = gr.coord2cell([[x0, y0], [x1, y1]])
                if c0 < 0 or c1 < 0:
                    continue
                nclip += 1
                cl = gr.clip(x0, y0, x1, y1)
                label = f"clip {dtype.__name__} {nrows}x{ncols}"\
                        + f" box=({x0!r},{y0!r},{x1!r},{y1!r})"

                (r0, k0), (r1, k1) = gr.cell2rowcol([c0, c1])
                # .. expected size: rows r1..r0, cols k0..k1
                check(tuple(cl.shape) == (r0-r1+1, k1-k0+1),
                      label+": shape")
                check(cl.data.dtype == gr.data.dtype
                      and np.dtype(cl.dtype) == np.dtype(gr.dtype),
                      label+": dtype")
                check(same_nodata(cl.nodata, gr.nodata), label+": nodata")
                check(same_float_bits(cl.cellsize, gr.cellsize),
                      label+": cellsize")

                # .. clipped values at coinciding cell centres
                nc = int(cl.nrows)*int(cl.ncols)
                xyc = cl.cell2coord(np.arange(nc))
                pcells = gr.coord2cell(xyc)
                check(np.all(pcells >= 0), label+": centres in parent")
                # centres coincide (up to rounding of the coordinates)
                check(np.allclose(centres[pcells], xyc, rtol=1e-9,
                                  atol=abs(csz)*1e-6),
                      label+": centres coincide")
                check(len(np.unique(pcells)) == nc,
                      label+": one parent cell per clipped cell")
                check(bits(cl.data.ravel())
                      == bits(data.ravel()[pcells]),
                      label+": values at coinciding centres")
                check(bits(cl[np.arange(nc)]) == bits(gr[pcells]),
                      label+": values via getitem")
                # .. and it is the contiguous block
                check(bits(cl.data) == bits(data[r1:r0+1, k0:k1+1]),
                      label+": block of the parent")

                # .. parent untouched
                check_values(data, gr, label+" (parent)")

            # whole grid: ll corner of the extent to the centre of
            # the upper right cell
            xur, yur = centres[ncols-1]
            cl = gr.clip(xll, yll, xur, yur)
            label = f"clip whole {dtype.__name__} {nrows}x{ncols}"
            if gr.coord2cell([[xll, yll]])[0] >= 0:
                check(tuple(cl.shape) == (nrows, ncols), label+": shape")
                check(bits(cl.data) == bits(data), label+": values")

            # a single cell : both corners at the same place
            for icell in sorted(set([0, ncells-1, ncells//2])):
                x, y = centres[icell]
                cl = gr.clip(x, y, x, y)
                label = f"clip 1 cell {dtype.__name__} {nrows}x{ncols}"\
                        + f" cell {icell}"
                check(tuple(cl.shape) == (1, 1), label+": shape")
                check(bits(cl.data) == bits(data.ravel()[icell]),
                      label+": value")
    return nclip


# Flow direction grid of the test-suite
FLOWDIR = [[0, 4, 4, 4, 0, 0],
           [0, 4, 4, 8, 0, 0],
           [0, 2, 4, 8, 0, 0],
           [0, 0, 2, 0, 0, 0],
           [0, 0, 0, 4, 0, 0],
           [0, 0, 0, 0, 0, 0]]


def same_cells(a, b):
    if a is None or b is None:
        return a is None and b is None
    a = np.asarray(a)
    b = np.asarray(b)
    return a.shape == b.shape and bool(np.all(a == b))


def test_catchment(rng):
    cases = [(27, None), (14, None), (12, None),      # 12: empty area
             (27, 14), (27, [14]), (27, [14, 13]), (27, [13, 14]),
             (20, [2]), (27, [])]
    for dtype in [np.int32, np.int64, np.uint8, np.int16]:
        for georef in [(1., 0., 0.), (0.0025, 112.90125, -43.74375),
                       (1./3, -1./7, math.pi)]:
            csz, xll, yll = georef
            fd = Grid("fd", 6, 6, cellsize=csz, xllcorner=xll,
                      yllcorner=yll, dtype=dtype, nodata=dtype(255))
            fd.data = FLOWDIR
            for outlet, inlets in cases:
                ca = Catchment("ca", fd)
                if inlets is None:
                    ca.delineate_area(outlet)
                else:
                    ca.delineate_area(outlet, inlets)
                label = f"catchment {dtype.__name__} outlet={outlet}"\
                        + f" inlets={inlets}"
                area = np.array(ca.idxcells_area).copy()
                filled = np.array(ca.idxcells_area_filled).copy()
                inl = None if ca.idxinlets is None \
                    else np.array(ca.idxinlets).copy()
                if inlets is None:
                    check(inl is None, label+": no inlets")
                else:
                    check(same_cells(inl, np.atleast_1d(inlets)),
                          label+": inlets as given")

                dic = ca.to_dict()
                check(isinstance(dic, dict), label+": dict")
                c2 = Catchment.from_dict(dic)

                check(c2.name == ca.name, label+": name")
                check(c2.idxcell_outlet == outlet
                      and c2.idxcell_outlet == ca.idxcell_outlet,
                      label+": outlet")
                check(same_cells(c2.idxinlets, inl), label+": inlets")
                check(same_cells(c2.idxcells_area, area), label+": area")
                check(same_cells(c2.idxcells_area_filled, filled),
                      label+": filled area")
                check(np.asarray(c2.idxcells_area).dtype.kind in "iu",
                      label+": integer area cells")
                for cell in [outlet, 0, 13, 14, 35]:
                    check(c2.isin(cell) == ca.isin(cell)
                          and c2.isin(cell, True) == ca.isin(cell, True),
                          label+f": isin({cell})")
                # flow direction grid geometry
                f1, f2 = ca.flowdir, c2.flowdir
                check(tuple(f1.shape) == tuple(f2.shape),
                      label+": flowdir shape")
                for att in ["cellsize", "xllcorner", "yllcorner"]:
                    check(same_float_bits(getattr(f1, att),
                                          getattr(f2, att)),
                          label+": flowdir "+att)
                check(np.dtype(f1.dtype) == np.dtype(f2.dtype),
                      label+": flowdir dtype")

                # the export did not alter the catchment
                check(same_cells(ca.idxcells_area, area)
                      and same_cells(ca.idxcells_area_filled, filled)
                      and same_cells(ca.idxinlets, inl),
                      label+": original untouched")

                # second generation
                c3 = Catchment.from_dict(c2.to_dict())
                check(c3.idxcell_outlet == outlet
                      and same_cells(c3.idxinlets, inl)
                      and same_cells(c3.idxcells_area, area)
                      and same_cells(c3.idxcells_area_filled, filled),
                      label+": second generation")

                # catchment clone : independent copies
                c4 = ca.clone()
                check(c4.idxcell_outlet == outlet
                      and same_cells(c4.idxinlets, inl)
                      and same_cells(c4.idxcells_area, area),
                      label+": catchment clone")
                if len(area) > 0:
                    c4.idxcells_area[0] = 99
                    check(same_cells(ca.idxcells_area, area),
                          label+": catchment clone independent")


def main():
    warnings.simplefilter("error")    # no warning expected in the domain
    seed = int(sys.argv[1]) if len(sys.argv) > 1 else 5446
    rng = np.random.default_rng(seed)
    tmp = Path(tempfile.mkdtemp(prefix="c13demo_",
                                dir=str(Path(__file__).resolve().parent)))
    try:
        test_save_load(tmp, rng)
        test_zip(tmp, rng)
        test_byteorder(tmp, rng)
        test_dict(rng)
        test_clone(rng)
        nclip = test_clip(rng)
        test_catchment(rng)
    finally:
        shutil.rmtree(tmp, ignore_errors=True)

    print(f"{NCHECKS} checks ({nclip} random clips),"
          + f" {len(FAILURES)} failures")
    if FAILURES:
        sys.exit(1)
    print("C13 demo OK")
    sys.exit(0)


if __name__ == "__main__":
    main()
