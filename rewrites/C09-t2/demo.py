""" Demo for property C09 : csv files with comment headers round-trip
through write_csv / read_csv.

Run as
    PYTHONPATH=<tree>/src /venv/bin/python demo.py

Exits 0 when every check passes (on the unmodified tree and on the
rewritten trees), 1 otherwise.
"""
import os
import sys
import math
import shutil
import tempfile
import zipfile
import warnings
from pathlib import Path

import numpy as np
import pandas as pd

from hydrodiy.io import csv

warnings.simplefilter("error")

NCHECK = [0]
FAILED = []


def check(cond, what):
    NCHECK[0] += 1
    if not cond:
        FAILED.append(what)
        if len(FAILED) < 30:
            print("FAILED:", what)


# ------------------------------------------------------------------
# Input generators (all inside the quantifier of the property)
# ------------------------------------------------------------------
NAME_CHARS = "abcxyzABCXYZ0123456789 -_"
TEXT_ATOMS = ["a,b", 'say "hi"', "k: v", "# hash", "#", ",", ":", '"',
              "a : b : c", "x,y,\"z\",#1:2", "plain", " lead", "trail ",
              "it's", "http://a.b/c#d", "----------", "-----------:",
              "# nrow : 3", "1,5", "tab\there", "émile", "a;b|c"]
RESERVED = {"nrow", "ncol", "time_generated", "author", "source_file",
            "work_dir", "python_environment", "python_version",
            "pandas_version", "numpy_version", "python_inc", "python_lib"}
KEY_CHARS = "abcdefghijklmnopqrstuvwxyz0123456789_"
VALUE_ATOMS = ["simple", "a:b", "a : b : c", "http://x.y/z?q=1#frag",
               "12:30:05", "with, comma", 'with "quotes"', "# hash",
               "x -------------------- y", "--------------------",
               "----------:", "value    with   blanks", ":", "::",
               ": starts with colon", "ends with colon :", "#", "0",
               "3.14", "nrow : 5", "a" * 200, "é è ü", "key : val # c"]
FLOAT_FORMATS = ["%0.5f", "%0.2f", "%0.0f", "%0.12f", "%0.10e", "%0.3e",
                 "%.17g", "%0.20f", None]


def make_names(rng, ncol):
    fixed = ["a", "A", "0", "123", "a b", " a", "b ", "a-b", "a_b",
             "-", "_", "  x  ", "Column 1", "col-2_x", "007",
             "nrow", "x" * 40]
    names = []
    while len(names) < ncol:
        if rng.uniform() < 0.5:
            nm = fixed[rng.integers(len(fixed))]
        else:
            ln = int(rng.integers(1, 12))
            nm = "".join(NAME_CHARS[i] for i in
                         rng.integers(0, len(NAME_CHARS), ln))
        # a name made of blanks only or empty is kept out : not a name
        if nm.strip() == "" or nm in names:
            continue
        names.append(nm)
    return names


def make_column(rng, kind, nrow):
    if kind == "float":
        scale = 10.**rng.integers(-3, 9)
        x = rng.normal(size=nrow)*scale
        # awkward values
        specials = [0., -0., 0.5, 1.5, 2.5, 0.000005, 0.000015, 1e-7,
                    -1e-7, 123456.789012345, 1./3, -2./3, 1e12, 0.1]
        for i in range(nrow):
            if rng.uniform() < 0.3:
                x[i] = specials[rng.integers(len(specials))]
        # nan allowed in float columns (but keep one number, so
        # that the column is a column of numbers)
        for i in range(1, nrow):
            if rng.uniform() < 0.15:
                x[i] = np.nan
        return x
    elif kind == "int":
        specials = [0, 1, -1, 2**31-1, -2**31, 2**31, 2**53, 2**53+1,
                    2**63-1, -2**63, 10, -10]
        x = rng.integers(-1000, 1000, nrow).astype(np.int64)
        for i in range(nrow):
            if rng.uniform() < 0.3:
                x[i] = specials[rng.integers(len(specials))]
        return x
    elif kind == "int32":
        return rng.integers(-2**31, 2**31-1, nrow).astype(np.int32)
    else:
        out = []
        for i in range(nrow):
            n = int(rng.integers(1, 4))
            txt = "".join(TEXT_ATOMS[j] for j in
                          rng.integers(0, len(TEXT_ATOMS), n))
            out.append(txt)
        return out


def make_frame(rng, nrow, ncol, kinds=None):
    names = make_names(rng, ncol)
    data = {}
    allkinds = ["float", "int", "text", "int32"]
    for i, nm in enumerate(names):
        kind = kinds[i % len(kinds)] if kinds is not None \
            else allkinds[rng.integers(len(allkinds))]
        data[nm] = make_column(rng, kind, nrow)
    return pd.DataFrame(data)


def make_comment(rng, nkeys):
    com = {}
    lengths = [1, 2, 3, 10, 24, 25]
    while len(com) < nkeys:
        ln = lengths[rng.integers(len(lengths))]
        key = "".join(KEY_CHARS[i] for i in
                      rng.integers(0, len(KEY_CHARS), ln))
        if key in RESERVED or key.startswith("comment"):
            continue
        n = int(rng.integers(1, 3))
        val = " ".join(VALUE_ATOMS[j] for j in
                       rng.integers(0, len(VALUE_ATOMS), n))
        com[key] = val.strip()
    return com


# ------------------------------------------------------------------
# The property
# ------------------------------------------------------------------
def same_float(x, y, float_format):
    """ y is x written with float_format and read again """
    if math.isnan(x):
        return math.isnan(y)
    if math.isnan(y):
        return False
    if float_format is None:
        written = float(repr(float(x)))
    else:
        written = float(float_format % x)
    # the number read is the number written (the fast float parser
    # of pandas keeps about 15 significant digits, on every tree)
    ok = abs(y-written) <= 1e-12*abs(written)
    # .. and the number written is x to the precision of the format
    if float_format is None or float_format == "%.17g":
        ok = ok and abs(y-x) <= 1e-12*abs(x)
    elif float_format.endswith("f"):
        ndec = int(float_format[3:-1])
        ok = ok and abs(y-x) <= 0.5*10.**(-ndec)*(1+1e-9)+1e-12*abs(x)
    elif float_format.endswith("e"):
        ndec = int(float_format[3:-1])
        ok = ok and abs(y-x) <= 0.5*10.**(-ndec)*abs(x)*10*(1+1e-9)
    return ok


def check_frames(df, df2, float_format, label):
    check(isinstance(df2, pd.DataFrame), f"{label}: not a data frame")
    check(list(df2.columns) == list(df.columns),
          f"{label}: column names {list(df2.columns)} "
          + f"!= {list(df.columns)}")
    check(all(isinstance(cn, str) for cn in df2.columns),
          f"{label}: column names are not str")
    check(df2.shape[0] == df.shape[0], f"{label}: number of rows")
    check(df2.shape[1] == df.shape[1], f"{label}: number of columns")
    if list(df2.columns) != list(df.columns) \
            or df2.shape != df.shape:
        return

    for icol, cn in enumerate(df.columns):
        s1 = df.iloc[:, icol]
        s2 = df2.iloc[:, icol]
        if s1.dtype.kind == "f":
            ok = all(same_float(float(a), float(b), float_format)
                     for a, b in zip(s1.values, s2.values))
            check(ok, f"{label}: float column [{cn}]")
        elif s1.dtype.kind == "i":
            check(s2.dtype.kind == "i",
                  f"{label}: int column [{cn}] read as {s2.dtype}")
            ok = all(int(a) == int(b)
                     for a, b in zip(s1.values, s2.values))
            check(ok, f"{label}: int column [{cn}]")
        else:
            ok = list(s1) == list(s2)
            check(ok, f"{label}: text column [{cn}] {list(s1)[:3]}"
                  + f" -> {list(s2)[:3]}")


def check_comment(com, com2, df, label, author=None, source=None,
                  write_sys_info=True):
    check(isinstance(com2, dict), f"{label}: comment is not a dict")
    for k, v in com.items():
        check(k in com2, f"{label}: comment key [{k}] lost")
        check(com2.get(k) == v,
              f"{label}: comment [{k}] {v!r} -> {com2.get(k)!r}")
    check(com2.get("nrow") == str(df.shape[0]), f"{label}: nrow")
    check(com2.get("ncol") == str(df.shape[1]), f"{label}: ncol")
    check(int(com2["nrow"]) == df.shape[0], f"{label}: int(nrow)")
    check(int(com2["ncol"]) == df.shape[1], f"{label}: int(ncol)")
    check(all(isinstance(k, str) and isinstance(v, str)
              for k, v in com2.items()), f"{label}: comment types")
    if author is not None:
        check(com2.get("author") == author, f"{label}: author")
    if source is not None:
        expected = str(source) if write_sys_info else Path(source).name
        check(com2.get("source_file") == expected,
              f"{label}: source file")
    # nothing invented : the keys are the keys of the caller plus
    # the keys of the system
    extra = set(com2) - set(com) - RESERVED
    check(not extra, f"{label}: unexpected keys {extra}")


def roundtrip(folder, source, df, com, mode, float_format, tag,
              write_sys_info=True, author=None):
    """ One write + all the accepted ways of reading it again """
    label = f"{tag}/{mode}/{float_format}"
    kw = dict(float_format=float_format, write_sys_info=write_sys_info,
              author=author)
    reads = []
    if mode == "plain":
        f = folder / f"{tag}.csv"
        csv.write_csv(df, f, com, source, compress=False, **kw)
        check(f.exists(), f"{label}: file not written")
        reads = [lambda: csv.read_csv(f), lambda: csv.read_csv(str(f))]
        # the file starts with the header
        with open(f, "r") as fo:
            lines = fo.read().split("\n")
        check(lines[0].startswith("#"), f"{label}: first line")
        nhead = [ln.startswith("#") for ln in lines].index(False)
        # nothing but the header, the names and one line per row
        check(len(lines) == nhead + 1 + df.shape[0] + 1
              and lines[-1] == "", f"{label}: number of lines")
        check(lines[nhead] == ",".join(df.columns),
              f"{label}: column line {lines[nhead]!r}")
        for k, v in com.items():
            check(f"# {k} : {v}" in lines[:nhead],
                  f"{label}: header line of {k}")

    elif mode in ["zcsv", "zzip", "znoext"]:
        ext = {"zcsv": ".csv", "zzip": ".zip", "znoext": ""}[mode]
        f = folder / f"{tag}{ext}"
        fz = folder / f"{tag}.zip"
        csv.write_csv(df, f, com, source, compress=True, **kw)
        check(fz.exists(), f"{label}: zip file not written")
        check(zipfile.is_zipfile(fz), f"{label}: not a zip file")
        with zipfile.ZipFile(fz, "r") as arc:
            check(arc.namelist() == [f"{tag}.csv"],
                  f"{label}: members {arc.namelist()}")
            check(arc.testzip() is None, f"{label}: zip test")
        if mode != "zzip":
            check(not f.exists(), f"{label}: uncompressed file written")
        reads = [lambda: csv.read_csv(f), lambda: csv.read_csv(fz),
                 lambda: csv.read_csv(str(f)),
                 lambda: csv.read_csv(folder / tag)]

    elif mode == "zdefault":
        # compress is the default
        f = folder / f"{tag}.csv"
        fz = folder / f"{tag}.zip"
        csv.write_csv(df, f, com, source, **kw)
        check(fz.exists(), f"{label}: zip file not written")
        reads = [lambda: csv.read_csv(f)]

    elif mode == "member":
        farc = folder / f"{tag}_archive.zip"
        member = f"sub_{tag}/deep/{tag}.csv"
        other = f"sub_{tag}/other.csv"
        with zipfile.ZipFile(farc, "w") as arc:
            csv.write_csv(df, member, com, source, archive=arc, **kw)
            # a second member, different
            csv.write_csv(df.iloc[:1], other, {"which": "other"},
                          source, archive=arc, **kw)
        check(not Path(member).exists(), f"{label}: member on disk")

        def read_member():
            with zipfile.ZipFile(farc, "r") as arc:
                check(sorted(arc.namelist()) == sorted([member, other]),
                      f"{label}: members {arc.namelist()}")
                out = csv.read_csv(member, archive=arc)
                o2, c2 = csv.read_csv(other, archive=arc)
                check(o2.shape[0] == 1 and c2.get("which") == "other"
                      and c2.get("nrow") == "1",
                      f"{label}: second member")
            return out
        reads = [read_member, read_member]

    for iread, read in enumerate(reads):
        df2, com2 = read()
        check_frames(df, df2, float_format, f"{label}/read{iread}")
        check_comment(com, com2, df, f"{label}/read{iread}",
                      author=author, source=source,
                      write_sys_info=write_sys_info)
        # The caller owns what is returned
        com2.clear()
        com2["nrow"] = "-1"
        if df2.shape[0] > 0:
            df2.iloc[:, 0] = df2.iloc[::-1, 0].values
            df2.columns = [f"z{i}" for i in range(df2.shape[1])]


def main():
    rng = np.random.default_rng(5446)
    folder = Path(tempfile.mkdtemp(prefix="demo_c09_"))
    cwd = os.getcwd()
    try:
        source = folder / "the script.py"
        source.write_text("# nothing\n")
        modes = ["plain", "zcsv", "zzip", "znoext", "zdefault", "member"]

        # 1. Systematic : sizes x modes x formats
        n = 0
        for nrow in [1, 2, 3, 17]:
            for ncol in [1, 2, 5]:
                for mode in modes:
                    for ff in FLOAT_FORMATS:
                        n += 1
                        df = make_frame(rng, nrow, ncol)
                        com = make_comment(rng, int(rng.integers(0, 5)))
                        roundtrip(folder, source, df, com, mode, ff,
                                  f"t{n}",
                                  write_sys_info=bool(n % 2),
                                  author=[None, "me", "A. B: c"][n % 3])

        # 2. One kind of column only, incl. 1 x 1 frames
        for kinds in [["float"], ["int"], ["text"], ["int32"],
                      ["text", "float"], ["int", "text"]]:
            for nrow in [1, 2]:
                for mode in modes:
                    n += 1
                    df = make_frame(rng, nrow, len(kinds), kinds)
                    com = make_comment(rng, 2)
                    roundtrip(folder, source, df, com, mode, "%0.5f",
                              f"t{n}")

        # 3. Awkward comments : all atoms, keys of length 1, 2, 25
        df = make_frame(rng, 2, 3, ["float", "text", "int"])
        for mode in modes:
            n += 1
            com = {}
            for i, v in enumerate(VALUE_ATOMS):
                key = ["k", "kk", "k"*25, "key_%d" % i,
                       "z"*24 + "9"][i % 5] + ""
                if key in com:
                    key = (key[:-2] + "%02d" % i)[-25:]
                com[key] = v
            check(len(com) == len(VALUE_ATOMS), "comment keys unique")
            check(max(len(k) for k in com) == 25, "key length 25")
            roundtrip(folder, source, df, com, mode, "%0.5f", f"t{n}")
            n += 1
            roundtrip(folder, source, df, {}, mode, "%0.5f", f"t{n}")

        # 4. Same path written again with other contents, same
        #    content written under two names, reading twice
        for mode, compress in [("plain", False), ("zip", True)]:
            f = folder / f"again_{mode}.csv"
            dfa = pd.DataFrame({"a": [1.5, 2.5], "b": ["x", "y"]})
            dfb = pd.DataFrame({"a": [2.5, 1.5], "b": ["y", "x"]})
            for it in range(3):
                for d, c in [(dfa, {"id": "A:1"}), (dfb, {"id": "B:1"})]:
                    csv.write_csv(d, f, c, source, compress=compress,
                                  author="me", write_sys_info=False)
                    for _ in range(2):
                        d2, c2 = csv.read_csv(f)
                        check_frames(d, d2, "%0.5f", f"again/{mode}")
                        check_comment(c, c2, d, f"again/{mode}")
                        d2.iloc[0, 0] = -99.
                        c2["id"] = "poisoned"

            # different arguments on the same file
            d2, c2 = csv.read_csv(f)
            d3, c3 = csv.read_csv(f, names=["u", "v"])
            check(list(d2.columns) == ["a", "b"]
                  and list(d3.columns) == ["u", "v"],
                  f"again/{mode}: names argument")
            d4, c4 = csv.read_csv(f, dtype={"a": str})
            check(list(d4["a"]) == ["2.50000", "1.50000"],
                  f"again/{mode}: dtype argument")
            d5, c5 = csv.read_csv(f)
            check_frames(dfb, d5, "%0.5f", f"again/{mode}/last")
            # arguments that are not plain values
            d6, _ = csv.read_csv(f, converters={"b": lambda v: v+"!"})
            d7, _ = csv.read_csv(f, converters={"b": lambda v: v+"?"})
            check(list(d6["b"]) == ["y!", "x!"]
                  and list(d7["b"]) == ["y?", "x?"],
                  f"again/{mode}: converters argument")
            d8, _ = csv.read_csv(f, index_col=0)
            d9, _ = csv.read_csv(f, index_col=1)
            check(list(d8.columns) == ["b"] and list(d9.columns) == ["a"]
                  and list(d9.index) == ["y", "x"],
                  f"again/{mode}: index_col argument")
            d10, c10 = csv.read_csv(f)
            check_frames(dfb, d10, "%0.5f", f"again/{mode}/last2")
            check_comment({"id": "B:1"}, c10, dfb, f"again/{mode}/last2")

            # no left over
            left = [p.name for p in folder.iterdir()
                    if p.name.startswith("again_"+mode)
                    or p.name.startswith(".again_"+mode)]
            expected = ["again_zip.zip"] if compress \
                else ["again_plain.csv"]
            check(left == expected, f"again/{mode}: files {left}")

        # 5. Rejected calls : an error (a ValueError on every tree) and
        #    nothing on disk, accepted calls unaffected afterwards
        sub = folder / "rejected"
        sub.mkdir()
        dfr = pd.DataFrame({"a": [0.5], "t": ["x:y"]})
        for compress in [False, True]:
            try:
                csv.write_csv(dfr, sub / "nosource.csv", {"k": "v"},
                              sub / "no_such_script.py",
                              compress=compress)
                check(False, "missing source file accepted")
            except ValueError:
                check(True, "")
        check(list(sub.iterdir()) == [], "file written by rejected call")
        try:
            csv.read_csv(sub / "no_such_file.csv")
            check(False, "missing file read")
        except ValueError:
            check(True, "")

        farc = sub / "arc.zip"
        with zipfile.ZipFile(farc, "w") as arc:
            csv.write_csv(dfr, "d/m.csv", {"k": "first:1"}, source,
                          archive=arc)
            try:
                csv.write_csv(dfr.iloc[::-1], "d/m.csv",
                              {"k": "second"}, source, archive=arc)
                check(False, "member written twice")
            except ValueError:
                check(True, "")
            csv.write_csv(dfr, "d/m2.csv", {"k": "third"}, source,
                          archive=arc)

        with zipfile.ZipFile(farc, "r") as arc:
            check(arc.namelist() == ["d/m.csv", "d/m2.csv"],
                  f"rejected: members {arc.namelist()}")
            for member, val in [("d/m.csv", "first:1"),
                                ("d/m2.csv", "third")]:
                d2, c2 = csv.read_csv(member, archive=arc)
                check_frames(dfr, d2, "%0.5f", "rejected/" + member)
                check_comment({"k": val}, c2, dfr, "rejected/" + member)

        # Target exists already (as a file of another kind)
        (sub / "exists.zip").write_text("not a zip file")
        (sub / "exists2.csv").write_text("# k : old\nq\n1\n2\n3\n")
        csv.write_csv(dfr, sub / "exists.csv", {"k": "new"}, source)
        csv.write_csv(dfr, sub / "exists2.csv", {"k": "new"}, source,
                      compress=False)
        for f in ["exists.zip", "exists2.csv"]:
            d2, c2 = csv.read_csv(sub / f)
            check_frames(dfr, d2, "%0.5f", "exists/" + f)
            check_comment({"k": "new"}, c2, dfr, "exists/" + f)
        check(sorted(p.name for p in sub.iterdir())
              == ["arc.zip", "exists.zip", "exists2.csv"],
              "exists: files " + str(sorted(sub.iterdir())))

        # 6. Relative file names, from another working directory
        os.chdir(folder)
        df = make_frame(rng, 3, 3, ["float", "int", "text"])
        com = make_comment(rng, 3)
        for mode in modes:
            n += 1
            roundtrip(Path("."), Path("the script.py"), df, com, mode,
                      "%0.5f", f"t{n}")
        os.chdir(cwd)

    finally:
        os.chdir(cwd)
        shutil.rmtree(folder, ignore_errors=True)

    print(f"{NCHECK[0]} checks, {len(FAILED)} failed")
    return 1 if FAILED else 0


if __name__ == "__main__":
    sys.exit(main())
