""" Property check for C19 (hydrodiy.io.hyruns): batches partition the work,
option grids enumerate every combination exactly once.

Run as:  PYTHONPATH=<tree>/src /venv/bin/python demo.py
Exits 0 when every check passes, 1 otherwise.
"""
import sys
import json
import random
import itertools
from pathlib import Path

import numpy as np

from hydrodiy.io import hyruns

FAILURES = []
NCHECKS = [0]


def check(cond, msg):
    NCHECKS[0] += 1
    if not cond:
        FAILURES.append(msg)
        if len(FAILURES) <= 20:
            print("FAIL:", msg)


def raises(fun, *args, **kwargs):
    try:
        fun(*args, **kwargs)
    except Exception:
        return True
    return False


def aslist(batch):
    """ container agnostic view of a batch as a list of python ints """
    arr = np.asarray(batch)
    out = arr.tolist()
    assert all(float(v) == int(v) for v in out)
    return [int(v) for v in out]


# ---------------------------------------------------------------------------
# 1. get_batch
# ---------------------------------------------------------------------------
def check_partition(nelements, nbatch, tag=""):
    batches = [aslist(hyruns.get_batch(nelements, nbatch, ib))
               for ib in range(nbatch)]
    where = f"get_batch({nelements},{nbatch}){tag}"
    sizes = [len(b) for b in batches]
    check(min(sizes) >= 1, f"{where}: empty batch")
    check(max(sizes) - min(sizes) <= 1, f"{where}: sizes {sizes}")
    flat = [i for b in batches for i in b]
    # contiguous + ordered + disjoint + cover exactly once, all at once
    check(flat == list(range(nelements)), f"{where}: not a partition")
    for ib, b in enumerate(batches):
        check(b == list(range(b[0], b[0] + len(b))),
              f"{where}: batch {ib} not contiguous")


def test_get_batch():
    # exhaustive to a bound
    for nelements in range(1, 41):
        for nbatch in range(1, nelements + 1):
            check_partition(nelements, nbatch)

    # random beyond the bound
    rng = random.Random(5446)
    for _ in range(60):
        nelements = rng.randint(41, 3000)
        nbatch = rng.choice([1, 2, 3, nelements, nelements - 1,
                             rng.randint(1, min(nelements, 70)),
                             rng.randint(1, min(nelements, 70))])
        if nbatch > 80:
            # only sample neighbouring batches, full check is quadratic
            prev_end = None
            starts = sorted(set([0, nbatch - 3] +
                                [rng.randint(0, nbatch - 3)
                                 for _ in range(5)]))
            for s in starts:
                trio = [aslist(hyruns.get_batch(nelements, nbatch, ib))
                        for ib in (s, s + 1, s + 2)]
                for a, b in zip(trio[:-1], trio[1:]):
                    check(b[0] == a[-1] + 1, "random: adjacent batches")
                for b in trio:
                    check(b == list(range(b[0], b[0] + len(b))),
                          "random: contiguous")
                    check(len(b) in (nelements // nbatch,
                                     -(-nelements // nbatch)),
                          "random: size")
            first = aslist(hyruns.get_batch(nelements, nbatch, 0))
            last = aslist(hyruns.get_batch(nelements, nbatch, nbatch - 1))
            check(first[0] == 0, "random: first element")
            check(last[-1] == nelements - 1, "random: last element")
        else:
            check_partition(nelements, nbatch, " random")

    # numpy integers as arguments
    for nelements, nbatch in [(1, 1), (2, 1), (2, 2), (7, 3), (26, 5)]:
        batches = [aslist(hyruns.get_batch(np.int64(nelements),
                                           np.int64(nbatch), np.int64(ib)))
                   for ib in range(nbatch)]
        check([i for b in batches for i in b] == list(range(nelements)),
              "numpy int arguments")

    # rejected calls
    for nelements in range(1, 12):
        for nbatch in range(nelements + 1, nelements + 4):
            for ib in (0, 1, nelements - 1, nbatch - 1):
                check(raises(hyruns.get_batch, nelements, nbatch, ib),
                      f"get_batch({nelements},{nbatch},{ib}) not rejected")
        for nbatch in range(1, nelements + 1):
            for ib in (-1, -2, -nbatch, nbatch, nbatch + 1, nbatch + 10):
                check(raises(hyruns.get_batch, nelements, nbatch, ib),
                      f"get_batch({nelements},{nbatch},{ib}) not rejected")
    check(raises(hyruns.get_batch, 0, 1, 0), "nelements=0 not rejected")

    # rejected calls leave nothing behind
    check_partition(26, 5, " after rejections")
    check_partition(502, 6, " after rejections")


# ---------------------------------------------------------------------------
# 2. SiteBatch
# ---------------------------------------------------------------------------
def test_sitebatch():
    rng = random.Random(33)
    for nsites in range(1, 14):
        pools = [
            [f"s{i:03d}" for i in range(nsites)],
            list(range(100, 100 + nsites)),
            [f"id_{(i * 7) % 97}" for i in range(nsites)],
            ]
        for siteids in pools:
            siteids = list(siteids)
            rng.shuffle(siteids)
            for nbatch in range(1, nsites + 1):
                sb = hyruns.SiteBatch(siteids, nbatch)
                batches = [sb[ib] for ib in range(nbatch)]
                flat = [s for b in batches for s in b]
                check(flat == siteids,
                      f"SiteBatch({nsites},{nbatch}) not a partition")
                sizes = [len(b) for b in batches]
                check(max(sizes) - min(sizes) <= 1, "SiteBatch sizes")
                # search in arbitrary order, twice, interleaved with getitem
                order = list(siteids) + list(siteids)
                rng.shuffle(order)
                for sid in order:
                    ib = sb.search(sid)
                    check(ib is not None and 0 <= ib < nbatch
                          and sid in batches[ib],
                          f"SiteBatch.search({sid}) -> {ib}")
                    check(sb[ib] == batches[ib], "SiteBatch getitem stable")
                check(sb.search("not_a_site") is None,
                      "search of an unknown site")
                check(raises(sb.__getitem__, nbatch), "SiteBatch[nbatch]")
                check(raises(sb.__getitem__, -1), "SiteBatch[-1]")

    # several objects alive together do not interfere
    sb1 = hyruns.SiteBatch(["a", "b", "c", "d", "e", "f"], 2)
    sb2 = hyruns.SiteBatch(["f", "e", "d", "c", "b", "a"], 3)
    sb3 = hyruns.SiteBatch(["a", "b", "c", "d", "e", "f"], 3)
    for _ in range(2):
        check(sb1.search("d") == 1 and sb1.search("c") == 0, "sb1")
        check(sb2.search("d") == 1 and sb2.search("a") == 2, "sb2")
        check(sb3.search("d") == 1 and sb3.search("e") == 2, "sb3")
        check(sb1[1] == ["d", "e", "f"], "sb1[1]")
        check(sb2[0] == ["f", "e"], "sb2[0]")
    check(raises(hyruns.SiteBatch, ["a", "a", "b"], 2), "non unique ids")


# ---------------------------------------------------------------------------
# 3. OptionManager
# ---------------------------------------------------------------------------
INT_POOL = [1, 2, 3, 11, -4]
STR_POOL = ["a", "ab", "b_1", "A", "zz9"]
CONTEXTS = [
    {},
    {"bidule": "test"},
    {"n": 3, "x": 1.5, "flag": True, "none": None},
    {"lst": [1, 2, 3], "nested": {"k": [1, {"z": "y"}]}, "s": "v1"},
    ]


def freeze(v):
    return json.dumps(v, sort_keys=True)


def build_options(shape, kinds, bare):
    """ kwargs given to from_cartesian_product and normalised value lists """
    given, values = {}, {}
    for iopt, (n, kind) in enumerate(zip(shape, kinds)):
        name = f"v{iopt + 1}" if iopt % 2 == 0 else f"opt_{iopt}"
        pool = INT_POOL if kind == "i" else STR_POOL
        vals = pool[:n]
        values[name] = list(vals)
        given[name] = vals[0] if (n == 1 and bare) else list(vals)
    return given, values


def check_manager(given, values, context, full):
    tag = f"opm {given} ctx {list(context)}"
    opm = hyruns.OptionManager(**context) if context else \
        hyruns.OptionManager()
    opm.from_cartesian_product(**given)
    names = list(values)
    expected = [dict(zip(names, t))
                for t in itertools.product(*[values[k] for k in names])]
    ntasks = len(expected)

    # -- every combination exactly once
    check(opm.ntasks == ntasks, f"{tag}: ntasks {opm.ntasks}")
    got = [opm.get_task(i).options for i in range(opm.ntasks)]
    check(all(set(g) == set(names) for g in got), f"{tag}: task keys")
    check(sorted(freeze(g) for g in got)
          == sorted(freeze(e) for e in expected),
          f"{tag}: not every combination exactly once")
    check(len(set(freeze(g) for g in got)) == ntasks, f"{tag}: duplicates")
    check([dict(t) for t in opm.tasks] == got, f"{tag}: tasks vs get_task")
    check(len(opm.tasks) == ntasks, f"{tag}: len(tasks)")
    for i in (0, ntasks - 1, ntasks // 2):
        t = opm.get_task(i)
        check(t.taskid == i, f"{tag}: taskid")
        check(t.context == context, f"{tag}: task context")
        for k in names:
            check(t[k] == got[i][k] and getattr(t, k) == got[i][k],
                  f"{tag}: task access")
    check(raises(opm.get_task, ntasks), f"{tag}: get_task(ntasks)")
    check(raises(opm.get_task, -1), f"{tag}: get_task(-1)")
    check({k: list(v) for k, v in opm.options.items()} == values,
          f"{tag}: options")

    # -- find
    for k in names:
        for v in values[k]:
            want = [i for i, g in enumerate(got) if g[k] == v]
            check(opm.find(**{k: v}) == want, f"{tag}: find({k}={v})")
        absent = 77 if isinstance(values[k][0], int) else "nope"
        check(opm.find(**{k: absent}) == [], f"{tag}: find absent")
    if len(names) >= 2:
        k1, k2 = names[0], names[-1]
        for v1 in values[k1]:
            for v2 in values[k2]:
                want = [i for i, g in enumerate(got)
                        if g[k1] == v1 and g[k2] == v2]
                check(opm.find(**{k1: v1, k2: v2}) == want,
                      f"{tag}: find 2 criteria")
    crit = {k: got[-1][k] for k in names}
    check(opm.find(**crit) == [i for i, g in enumerate(got)
                               if g == got[-1]], f"{tag}: find all criteria")
    # find twice gives the same answer and fresh lists
    k = names[0]
    f1 = opm.find(**{k: values[k][0]})
    f1.append(-1)
    f2 = opm.find(**{k: values[k][0]})
    check(f2 == [i for i, g in enumerate(got) if g[k] == values[k][0]],
          f"{tag}: find repeated")

    # -- round trips
    dd = opm.to_dict()
    dd_again = opm.to_dict()
    check(freeze(dd) == freeze(dd_again), f"{tag}: to_dict repeated")
    js = json.dumps(dd)
    for label, source in [("dict", dd), ("json", json.loads(js)),
                          ("dict again", dd)]:
        back = hyruns.OptionManager.from_dict(source)
        check(opm == back, f"{tag}: {label} opm == back")
        check(back == opm, f"{tag}: {label} back == opm")
        check(not (opm != back) and not (back != opm), f"{tag}: {label} !=")
        check(back.ntasks == ntasks, f"{tag}: {label} ntasks")
        bgot = [back.get_task(i).options for i in range(back.ntasks)]
        check(bgot == got, f"{tag}: {label} tasks")
        check(back.context == context, f"{tag}: {label} context")
        check({k: list(v) for k, v in back.options.items()} == values,
              f"{tag}: {label} options")
        check(freeze(back.to_dict()) == freeze(dd), f"{tag}: {label} dict")
        if full:
            for k in names:
                v = values[k][-1]
                check(back.find(**{k: v}) == opm.find(**{k: v}),
                      f"{tag}: {label} find")
    # the manager is still what it was after having been exported
    check([opm.get_task(i).options for i in range(opm.ntasks)] == got,
          f"{tag}: tasks after export")
    check(opm.ntasks == ntasks, f"{tag}: ntasks after export")

    if full:
        # file round trip
        fout = Path(__file__).resolve().parent / "_demo_c19_opm.json"
        if fout.exists():
            fout.unlink()
        try:
            opm.save(fout)
            back = hyruns.OptionManager.from_file(fout, wait_secs=0)
            check(opm == back and back == opm, f"{tag}: file round trip")
            with fout.open("r") as fo:
                check(freeze(json.load(fo)) == freeze(dd),
                      f"{tag}: file content")
        finally:
            if fout.exists():
                fout.unlink()

        # a different manager is not equal
        other = hyruns.OptionManager(**context) if context else \
            hyruns.OptionManager()
        given2 = dict(given)
        k = names[0]
        given2[k] = (values[k] + [INT_POOL[-1] * 9
                                  if isinstance(values[k][0], int)
                                  else "other"])
        other.from_cartesian_product(**given2)
        check(opm != other and other != opm, f"{tag}: different managers")
        # re-use of the same manager for another grid
        opm.from_cartesian_product(**given2)
        check(opm == other and other == opm, f"{tag}: manager re-used")
        check(opm.ntasks == other.ntasks == ntasks // len(values[k])
              * (len(values[k]) + 1), f"{tag}: manager re-used ntasks")

    return dd


def test_option_manager():
    hyruns.reset_dict_keyname()
    count = 0
    for nopt in range(1, 5):
        for shape in itertools.product(range(1, 6), repeat=nopt):
            count += 1
            kinds = ["i" if (count + j) % 2 == 0 else "s"
                     for j in range(nopt)]
            if count % 3 == 0:
                kinds = kinds[::-1]
            bare = count % 2 == 0
            context = CONTEXTS[count % len(CONTEXTS)]
            given, values = build_options(shape, kinds, bare)
            ntasks = int(np.prod(shape))
            full = ntasks <= 12 or count % 25 == 0
            check_manager(given, values, context, full)

    # bare scalars of each kind, alone
    for given, values in [
            ({"v1": 5}, {"v1": [5]}),
            ({"v1": "abc"}, {"v1": ["abc"]}),
            ({"v1": "abc", "k": 3}, {"v1": ["abc"], "k": [3]}),
            ({"v1": [1, 2], "k": "x", "m": -7},
             {"v1": [1, 2], "k": ["x"], "m": [-7]})]:
        for context in CONTEXTS:
            check_manager(given, values, context, True)


def test_renamed_keys():
    given, values = build_options((2, 3, 1), ["s", "i", "s"], True)
    renames = [
        {"manager_options_name": "items"},
        {"task_options_name": "truc"},
        {"context_name": "config"},
        {"context_name": "cfg", "task_options_name": "opts",
         "manager_options_name": "grid"},
        {"task_options_name": "same", "manager_options_name": "same"},
        {"context_name": "ctx", "manager_options_name": "ctx_1"},
        ]
    try:
        for rn in renames:
            hyruns.reset_dict_keyname()
            for key, name in rn.items():
                hyruns.set_dict_keyname(key, name)
            for context in CONTEXTS:
                dd = check_manager(given, values, context, True)
                cname = rn.get("context_name", "context")
                mname = rn.get("manager_options_name", "options")
                tname = rn.get("task_options_name", "options")
                check(set(dd) == {"name", "tasks", cname, mname},
                      f"renamed keys {rn}: manager keys {list(dd)}")
                check(all(set(t) == {"taskid", cname, tname}
                          for t in dd["tasks"]),
                      f"renamed keys {rn}: task keys")
                check(dd[cname] == context, f"renamed keys {rn}: context")
                check(dd[mname] == values, f"renamed keys {rn}: options")
        check(raises(hyruns.set_dict_keyname, "truc", "truc"),
              "unknown keyname not rejected")
    finally:
        hyruns.reset_dict_keyname()

    # after reset the defaults are back
    dd = check_manager(given, values, CONTEXTS[1], True)
    check(set(dd) == {"name", "tasks", "context", "options"},
          "keys after reset")


def main():
    test_get_batch()
    test_sitebatch()
    test_option_manager()
    test_renamed_keys()
    print(f"{NCHECKS[0]} checks, {len(FAILURES)} failures")
    return 1 if FAILURES else 0


if __name__ == "__main__":
    sys.exit(main())
