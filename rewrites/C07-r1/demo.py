#!/usr/bin/env python
"""Self-contained check of property C07 (grid cell numbers, rows/columns and
coordinates are mutually consistent) through the public Grid API.

Run as:  PYTHONPATH=<tree>/src /venv/bin/python demo.py
Exits 0 when every check passes, 1 otherwise.

Only inputs INSIDE the stated quantifier are asserted:
  * nrows, ncols >= 1 (including 1x1, 1xN, Nx1, 2x2)
  * cell size over eight orders of magnitude (1e-4 .. 1e4)
  * finite origins up to 1e4 cell sizes from zero
  * all valid cells, invalid cells on both sides of the valid range
  * points inside each footprint, >= 1e-9 cell sizes away from the edges
  * points outside the extent on the 4 sides and 4 diagonals, from 1e-9 cell
    sizes outside to 1e9 cell sizes away
"""
import sys
import itertools
import numpy as np

from hydrodiy.gis.grid import Grid

RNG = np.random.default_rng(20240607)
NFAIL = 0
NCHECK = 0


def check(cond, msg):
    global NFAIL, NCHECK
    NCHECK += 1
    if not cond:
        NFAIL += 1
        if NFAIL <= 40:
            print("FAIL:", msg)


def flagged_neighbours(gr, c):
    """ An invalid cell number must be flagged: an error, or no cell at all """
    try:
        nb = gr.neighbours(c)
    except Exception:
        return True
    nb = np.asarray(nb)
    return bool(np.all(nb == -1))


def expected_neighbours(nrows, ncols, c):
    row, col = divmod(int(c), int(ncols))
    out = []
    for dr in (-1, 0, 1):
        for dc in (-1, 0, 1):
            r, k = row+dr, col+dc
            if (dr == 0 and dc == 0) or r < 0 or r >= nrows \
                    or k < 0 or k >= ncols:
                out.append(-1)
            else:
                out.append(r*ncols+k)
    return np.array(out, dtype=np.int64)


def check_grid(nrows, ncols, csz, xll, yll, full_neighbours=True):
    tag = f"[{nrows}x{ncols} csz={csz!r} xll={xll!r} yll={yll!r}]"
    gr = Grid("demo", ncols, nrows, cellsize=csz, xllcorner=xll,
              yllcorner=yll)
    ncell = nrows*ncols
    cells = np.arange(ncell, dtype=np.int64)
    rows_e, cols_e = np.divmod(cells, ncols)

    # --- numbering: row by row from the top-left corner ------------------
    rc = gr.cell2rowcol(cells)
    check(rc.shape == (ncell, 2), tag+" rowcol shape")
    check(np.array_equal(rc[:, 0], rows_e), tag+" rows")
    check(np.array_equal(rc[:, 1], cols_e), tag+" cols")

    # --- cell2coord returns the cell centre ------------------------------
    xy = gr.cell2coord(cells)
    check(xy.shape == (ncell, 2), tag+" xy shape")
    xe = xll+(cols_e+0.5)*csz
    ye = yll+(nrows-1-rows_e+0.5)*csz
    # tolerance: 1e-9 cell sizes (rounding is ~1e-12 cell sizes at most)
    check(np.all(np.abs(xy[:, 0]-xe) <= 1e-9*csz), tag+" x centre")
    check(np.all(np.abs(xy[:, 1]-ye) <= 1e-9*csz), tag+" y centre")
    # top-left cell is cell 0, bottom-right is the last one
    check(abs(xy[0, 0]-(xll+0.5*csz)) <= 1e-9*csz
          and abs(xy[0, 1]-(yll+(nrows-0.5)*csz)) <= 1e-9*csz,
          tag+" cell 0 is top-left")

    # --- round trip ---------------------------------------------------------
    back = gr.coord2cell(xy)
    check(back.shape == (ncell,), tag+" coord2cell shape")
    check(np.array_equal(back, cells), tag+" coord2cell(cell2coord(c))==c")

    # --- points inside every footprint ------------------------------------
    eps = 1e-9
    offs = [eps, 0.25, 0.5, 0.75, 1-eps]
    for u, v in itertools.product(offs, offs):
        pts = np.column_stack([xll+(cols_e+u)*csz,
                               yll+(nrows-1-rows_e+v)*csz])
        got = gr.coord2cell(pts)
        check(np.array_equal(got, cells), tag+f" inside u={u} v={v}")
    for _ in range(3):
        u = RNG.uniform(eps, 1-eps, ncell)
        v = RNG.uniform(eps, 1-eps, ncell)
        pts = np.column_stack([xll+(cols_e+u)*csz,
                               yll+(nrows-1-rows_e+v)*csz])
        got = gr.coord2cell(pts)
        check(np.array_equal(got, cells), tag+" inside random")

    # --- points outside the extent ------------------------------------------
    W, H = ncols*csz, nrows*csz
    dists = [1e-9, 1e-6, 1e-3, 0.5, 1., 1.5, 10., 1e3, 1e6, 1e9]
    along = [eps, 0.3, 0.5, 1-eps]
    pts = []
    for d in dists:
        dd = d*csz
        for a in along:
            pts.append([xll-dd, yll+a*H])          # west
            pts.append([xll+W+dd, yll+a*H])        # east
            pts.append([xll+a*W, yll-dd])          # south
            pts.append([xll+a*W, yll+H+dd])        # north
        for d2 in dists:
            dd2 = d2*csz
            pts.append([xll-dd, yll-dd2])          # SW
            pts.append([xll-dd, yll+H+dd2])        # NW
            pts.append([xll+W+dd, yll-dd2])        # SE
            pts.append([xll+W+dd, yll+H+dd2])      # NE
    pts = np.array(pts)
    got = gr.coord2cell(pts)
    check(got.shape == (len(pts),), tag+" outside shape")
    check(np.all(got == -1), tag+" outside -> -1: "
          + str(pts[got != -1][:3]))

    # mixed inside/outside in one call, interleaved
    mix = np.empty((2*ncell, 2))
    mix[0::2] = xy
    mix[1::2] = xy + np.array([W*2, 0.])[None, :]
    got = gr.coord2cell(mix)
    check(np.array_equal(got[0::2], cells) and np.all(got[1::2] == -1),
          tag+" mixed inside/outside")

    # --- invalid cell numbers -----------------------------------------------
    invalid = np.array([-1, -2, -ncols, -ncell, -ncell-1, ncell, ncell+1,
                        ncell+ncols, 2*ncell, 2**31, 2**40, -2**40,
                        np.iinfo(np.int64).max, np.iinfo(np.int64).min],
                       dtype=np.int64)
    rc = gr.cell2rowcol(invalid)
    check(np.all(rc == -1), tag+" invalid rowcol -> -1")
    xyi = gr.cell2coord(invalid)
    check(np.all(np.isnan(xyi)), tag+" invalid coord -> NaN")
    for c in invalid:
        check(flagged_neighbours(gr, c), tag+f" invalid neighbours({c})")

    # mixed valid / invalid, valid ones must be unaffected
    mixc = np.empty(2*ncell, dtype=np.int64)
    mixc[0::2] = cells
    mixc[1::2] = np.resize(invalid, ncell)
    rc = gr.cell2rowcol(mixc)
    check(np.array_equal(rc[0::2, 0], rows_e)
          and np.array_equal(rc[0::2, 1], cols_e)
          and np.all(rc[1::2] == -1), tag+" mixed rowcol")
    xym = gr.cell2coord(mixc)
    check(np.array_equal(xym[0::2], xy) and np.all(np.isnan(xym[1::2])),
          tag+" mixed coord")

    # --- neighbours ---------------------------------------------------------
    if full_neighbours:
        ncheck = cells
    else:
        # corners, edges and a few inner cells
        ncheck = np.unique(np.concatenate([
            cells[:ncols+2], cells[-ncols-2:],
            cells[::max(1, ncell//37)],
            cells[ncols-1::ncols][:5], cells[::ncols][:5]]))
    allnb = {}
    for c in ncheck:
        nb = np.asarray(gr.neighbours(c))
        allnb[int(c)] = nb
        check(nb.shape == (9,), tag+" nb shape")
        exp = expected_neighbours(nrows, ncols, c)
        check(np.array_equal(nb, exp), tag+f" neighbours({c}) {nb} != {exp}")
        # agreement with rows / columns
        ok = nb >= 0
        if ok.any():
            rcn = gr.cell2rowcol(nb[ok])
            ks = np.arange(9)[ok]
            r0, c0 = divmod(int(c), int(ncols))
            check(np.array_equal(rcn[:, 0]-r0, ks//3-1)
                  and np.array_equal(rcn[:, 1]-c0, ks % 3-1),
                  tag+f" nb rowcol offsets of {c}")
    # symmetric relation, mirrored positions
    for c, nb in allnb.items():
        for k in range(9):
            d = int(nb[k])
            if d < 0:
                continue
            nbd = allnb[d] if d in allnb else np.asarray(gr.neighbours(d))
            check(int(nbd[8-k]) == c, tag+f" mirror {c}<->{d} pos {k}")


def check_input_forms():
    """ Scalars, lists, lengths 1 and 2, odd dtypes and memory layouts """
    gr = Grid("forms", 5, 7, cellsize=0.25, xllcorner=-3.5, yllcorner=12.)
    # scalar cell
    xy = gr.cell2coord(7)
    check(xy.shape == (1, 2) and np.allclose(xy, [[-3.5+2.5*0.25,
          12.+(7-1-1+0.5)*0.25]], rtol=0, atol=1e-12), "scalar cell2coord")
    rc = gr.cell2rowcol(7)
    check(rc.shape == (1, 2) and rc.tolist() == [[1, 2]], "scalar rowcol")
    # single point as 1D
    c = gr.coord2cell([-3.5+2.5*0.25, 12.+5.5*0.25])
    check(c.shape == (1,) and c[0] == 7, "1D point")
    # length 1 and 2 arrays, python lists
    check(gr.cell2rowcol([34]).tolist() == [[6, 4]], "len1 list")
    check(gr.cell2rowcol([0, 34]).tolist() == [[0, 0], [6, 4]], "len2 list")
    check(gr.coord2cell(gr.cell2coord([0, 34])).tolist() == [0, 34],
          "len2 roundtrip")
    check(gr.coord2cell(gr.cell2coord([34])).tolist() == [34],
          "len1 roundtrip")
    # zero-length cell arrays
    check(gr.cell2rowcol(np.zeros(0, dtype=np.int64)).shape == (0, 2),
          "empty rowcol")
    check(gr.cell2coord(np.zeros(0, dtype=np.int64)).shape == (0, 2),
          "empty coord")
    # other integer dtypes / strided views / fortran order
    cells = np.arange(35)
    for dt in [np.int32, np.int16, np.uint8, np.int64]:
        rc = gr.cell2rowcol(cells.astype(dt))
        check(np.array_equal(rc[:, 0]*5+rc[:, 1], cells), f"dtype {dt}")
    big = np.arange(70)
    rc = gr.cell2rowcol(big[::2][:18])
    check(np.array_equal(rc[:, 0]*5+rc[:, 1], big[::2][:18]), "strided")
    xy = gr.cell2coord(cells)
    xyf = np.asfortranarray(xy)
    check(np.array_equal(gr.coord2cell(xyf), cells), "fortran xy")
    wide = np.zeros((35, 4))
    wide[:, 1:3] = xy
    check(np.array_equal(gr.coord2cell(wide[:, 1:3]), cells), "xy view")
    check(np.array_equal(gr.coord2cell(xy.astype(np.float32).astype(float)),
                         cells), "float32-rounded centres")
    check(np.array_equal(gr.coord2cell(xy.tolist()), cells), "xy list")
    # inputs must not be modified
    xy0 = xy.copy()
    gr.coord2cell(xy)
    check(np.array_equal(xy, xy0), "xy input untouched")
    c0 = cells.astype(np.int64)
    c1 = c0.copy()
    gr.cell2coord(c1)
    gr.cell2rowcol(c1)
    check(np.array_equal(c0, c1), "cells input untouched")
    # output dtypes
    check(gr.coord2cell(xy).dtype == np.int64, "coord2cell dtype")
    check(gr.cell2rowcol(cells).dtype == np.int64, "rowcol dtype")
    check(gr.cell2coord(cells).dtype == np.float64, "coord dtype")
    check(np.asarray(gr.neighbours(12)).dtype == np.int64, "nb dtype")
    # neighbours accepts python int and numpy ints
    for c in [12, np.int64(12), np.int32(12)]:
        check(np.array_equal(gr.neighbours(c),
                             expected_neighbours(7, 5, 12)), "nb int kinds")
    # xvalues / yvalues are built on cell2coord
    check(np.allclose(gr.xvalues, -3.5+(np.arange(5)+0.5)*0.25, rtol=0,
                      atol=1e-12), "xvalues")
    check(np.allclose(gr.yvalues, 12.+(np.arange(6, -1, -1)+0.5)*0.25,
                      rtol=0, atol=1e-12), "yvalues")


def main():
    shapes = [(1, 1), (1, 2), (2, 1), (2, 2), (1, 7), (6, 1), (3, 4),
              (7, 5), (2, 9)]
    sizes = [1e-4, 1e-3, 0.025, 0.1, 1./3, 1., 2.5, 30., 250., 1e4]
    ofacs = [(0., 0.), (1., -1.), (-0.5, 0.5), (1234.567, -987.654),
             (1e4, 1e4), (-1e4, -1e4), (-1e4, 1e4), (9999.9, -0.1),
             (1e-3, -1e-3)]
    n = 0
    for (nrows, ncols) in shapes:
        for csz in sizes:
            for fx, fy in ofacs:
                check_grid(nrows, ncols, csz, fx*csz, fy*csz)
                n += 1
    # integer-valued origin given as python int, default cell size
    check_grid(4, 4, 1., 0, 0)
    # random geometries
    for _ in range(150):
        nrows = int(RNG.integers(1, 12))
        ncols = int(RNG.integers(1, 12))
        csz = float(10**RNG.uniform(-4, 4))
        xll = float(RNG.uniform(-1e4, 1e4)*csz)
        yll = float(RNG.uniform(-1e4, 1e4)*csz)
        check_grid(nrows, ncols, csz, xll, yll)
        n += 1
    # a few larger grids
    for (nrows, ncols, csz, fx, fy) in [(60, 45, 0.05, 112/0.05, -44/0.05),
                                        (1, 3000, 1e-4, 1e4, -1e4),
                                        (2500, 1, 1e4, -1e4, 1e4),
                                        (300, 400, 0.01, 3.25, -7.75)]:
        check_grid(nrows, ncols, csz, fx*csz, fy*csz, full_neighbours=False)
        n += 1

    check_input_forms()

    print(f"{n+1} grids, {NCHECK} checks, {NFAIL} failures")
    return 1 if NFAIL else 0


if __name__ == "__main__":
    sys.exit(main())
