"""Demo / self-check for property C17.

AR simulation (armodel_sim) and residual computation (armodel_residual)
are exact inverses, for orders 1..10; orders 0 and 11 and NaN parameters
are rejected with an error.

Run as:  PYTHONPATH=<tree>/src /venv/bin/python demo.py
Exits 0 when every check passes, 1 otherwise.

All numerical comparisons use a tolerance of a few thousand ulps relative
to the magnitude of the series involved: the property is a statement
about the recursion, not about the last bit of the result.
"""
import sys
import warnings
import itertools

import numpy as np

from hydrodiy.stat.armodels import armodel_sim, armodel_residual

RTOL = 1e-9
NCHECKS = 0
FAILURES = []


def check(cond, label):
    global NCHECKS
    NCHECKS += 1
    if not cond:
        FAILURES.append(label)
        if len(FAILURES) <= 20:
            print("FAIL:", label)


def scale_of(*arrays):
    s = 1.0
    for a in arrays:
        a = np.asarray(a, dtype=np.float64)
        a = a[np.isfinite(a)]
        if a.size:
            s = max(s, float(np.abs(a).max()))
    return s


def close(a, b, scale):
    a = np.asarray(a, dtype=np.float64)
    b = np.asarray(b, dtype=np.float64)
    if a.shape != b.shape:
        return False
    if a.size == 0:
        return True
    return bool(np.all(np.abs(a - b) <= RTOL * scale))


# ---------------------------------------------------------------------
# Independent reference: the textbook recursion, written in pure python
# ---------------------------------------------------------------------
def ref_sim(params, innov, mean, ini):
    params = [float(p) for p in np.atleast_1d(params)]
    order = len(params)
    prev = [float(ini) - float(mean)] * order   # prev[k] = y[t-1-k]-m
    out = np.zeros(len(innov))
    for t, e in enumerate(innov):
        e = 0.0 if np.isnan(e) else float(e)
        c = e + sum(p * v for p, v in zip(params, prev))
        prev = [c] + prev[:-1]
        out[t] = c + float(mean)
    return out


def ref_residual(params, inputs, mean, ini):
    """ returns residuals and the gap-filled series """
    params = [float(p) for p in np.atleast_1d(params)]
    order = len(params)
    prev = [float(ini) - float(mean)] * order
    res = np.zeros(len(inputs))
    filled = np.zeros(len(inputs))
    for t, y in enumerate(inputs):
        pred = sum(p * v for p, v in zip(params, prev))
        if np.isnan(y):
            c = pred
            res[t] = 0.0
        else:
            c = float(y) - float(mean)
            res[t] = c - pred
        prev = [c] + prev[:-1]
        filled[t] = c + float(mean)
    return res, filled


# ---------------------------------------------------------------------
# Input generators (inside the quantifier of the property)
# ---------------------------------------------------------------------
def coefficient_sets(order, rng):
    """ coefficient vectors with sum(|phi|) <= 1.5, any sign """
    sets = []
    sets.append(("zeros", np.zeros(order)))
    # stable, random signs
    for j in range(3):
        p = rng.uniform(-1, 1, order)
        p *= rng.uniform(0.2, 0.95) / np.abs(p).sum()
        sets.append((f"stable{j}", p))
    # all positive, summing to exactly 1 (unit root) and to 1.5 (boundary)
    p = rng.uniform(0.1, 1, order)
    sets.append(("unitroot", p / p.sum()))
    sets.append(("boundary+", 1.5 * p / p.sum()))
    # all negative on the boundary
    sets.append(("boundary-", -1.5 * p / p.sum()))
    # alternating sign on the boundary
    q = p * np.where(np.arange(order) % 2 == 0, 1.0, -1.0)
    sets.append(("boundary+-", 1.5 * q / np.abs(q).sum()))
    # everything on the last lag / first lag
    first = np.zeros(order)
    first[0] = -1.5
    sets.append(("firstlag", first))
    last = np.zeros(order)
    last[-1] = 1.5
    sets.append(("lastlag", last))
    # the classic example of the test-suite
    sets.append(("linspace", np.linspace(0.9, 0.2, 10)[:order]
                 / max(1.0, np.linspace(0.9, 0.2, 10)[:order].sum() / 1.5)))
    for _, p in sets:
        assert np.abs(p).sum() <= 1.5 + 1e-12
    return sets


MEAN_INI = [
    (0.0, None), (0.0, 0.0), (5.0, 10.0), (20.0, 10.0), (-3.5, 2.25),
    (-7.0, -7.0), (4.0, -11.0), (1e3, None), (0.0, -1.0), (-2.0, None),
]


def nan_patterns(n, order, rng):
    """ index arrays where NaN is put """
    pats = [np.array([], dtype=int)]
    if n >= 1:
        pats.append(np.array([0]))
        pats.append(np.array([n - 1]))
        pats.append(np.arange(min(n, order + 1)))      # the first steps
        pats.append(np.arange(n))                      # everything
    if n >= 3:
        pats.append(np.array([1]))
        pats.append(np.unique(rng.integers(0, n, max(1, n // 4))))
        pats.append(np.arange(n // 3, min(n, n // 3 + order + 2)))
    return pats


def run_case(order, pname, params, mean, ini, innov, label):
    n = len(innov)
    ini_eff = mean if ini is None else ini
    innov_copy = innov.copy()
    params_copy = params.copy()

    # --- simulation follows the recursion --------------------------
    if ini is None and mean == 0.0:
        y = armodel_sim(params, innov)                 # all defaults
    elif ini is None:
        y = armodel_sim(params, innov, mean)           # default sim_ini
    else:
        y = armodel_sim(params, innov, sim_mean=mean, sim_ini=ini)
    expected = ref_sim(params, innov, mean, ini_eff)
    if not np.all(np.isfinite(expected)):
        return
    sc = scale_of(expected, innov, [mean, ini_eff])
    check(isinstance(y, np.ndarray) and y.shape == innov.shape
          and y.dtype == np.float64, label + " sim shape/dtype")
    check(close(y, expected, sc), label + " sim == recursion")
    check(np.array_equal(innov, innov_copy, equal_nan=True),
          label + " innov untouched")
    check(np.array_equal(params, params_copy), label + " params untouched")

    # NaN innovations behave as zero innovations
    innov0 = np.where(np.isnan(innov), 0.0, innov)
    y0 = armodel_sim(params, innov0, mean, ini_eff)
    check(close(y, y0, sc), label + " nan innov == zero innov")

    # --- residual(sim(e)) = e --------------------------------------
    e2 = armodel_residual(params, y, mean, ini_eff)
    check(e2.shape == innov.shape and e2.dtype == np.float64,
          label + " residual shape/dtype")
    check(close(e2, innov0, sc), label + " residual(sim(e)) == e")
    if ini is None:
        e3 = armodel_residual(params, y, sim_mean=mean)  # default sim_ini
        check(close(e3, innov0, sc), label + " residual default ini")

    # --- sim(residual(y)) = y, for an arbitrary series y ------------
    y2 = armodel_sim(params, e2, mean, ini_eff)
    check(close(y2, y, sc), label + " sim(residual(y)) == y")

    # --- missing inputs give zero residuals -------------------------
    ynan = np.where(np.isnan(innov), np.nan, y)       # same nan pattern
    res_expected, filled = ref_residual(params, ynan, mean, ini_eff)
    if np.all(np.isfinite(filled)):
        scn = scale_of(filled, [mean, ini_eff])
        ynan_copy = ynan.copy()
        r = armodel_residual(params, ynan, mean, ini_eff)
        check(np.array_equal(ynan, ynan_copy, equal_nan=True),
              label + " inputs untouched")
        check(not np.any(np.isnan(r)), label + " residual has no nan")
        check(close(r, res_expected, scn), label + " residual == recursion")
        inan = np.isnan(ynan)
        check(bool(np.all(np.abs(r[inan]) <= RTOL * scn)),
              label + " missing input -> zero residual")
        # simulating back gives the series at the valid points, and the
        # model prediction in the gaps
        yb = armodel_sim(params, r, mean, ini_eff)
        check(close(yb[~inan], ynan[~inan], scn),
              label + " sim(residual(y)) == y on valid points")
        check(close(yb, filled, scn), label + " sim(residual(y)) fills gaps")


def main():
    rng = np.random.default_rng(1717)

    # ==================== main sweep ================================
    for order in range(1, 11):
        lengths = sorted({0, 1, 2, 3, max(order - 1, 0), order,
                          order + 1, 2 * order + 1, 40})
        csets = coefficient_sets(order, rng)
        for (pname, params), n in itertools.product(csets, lengths):
            for ipat, inan in enumerate(nan_patterns(n, order, rng)):
                mean, ini = MEAN_INI[(order + n + ipat) % len(MEAN_INI)]
                innov = rng.normal(size=n) * rng.choice([1e-3, 1.0, 50.0])
                innov[inan] = np.nan
                label = f"order={order} {pname} n={n} nanpat={ipat} " \
                        f"mean={mean} ini={ini}"
                run_case(order, pname, params, mean, ini, innov, label)

    # =========== every (mean, ini) combination, short series =========
    for order in (1, 2, 5, 10):
        csets = coefficient_sets(order, rng)[:4]
        for (pname, params), (mean, ini) in itertools.product(csets,
                                                              MEAN_INI):
            innov = rng.normal(size=17)
            innov[[0, 1, 8]] = np.nan
            label = f"order={order} {pname} n=17 mean={mean} ini={ini}"
            run_case(order, pname, params, mean, ini, innov, label)

    # ================== long series (several thousand) ===============
    for order in range(1, 11):
        for pname, params in coefficient_sets(order, rng)[:5]:
            n = int(rng.integers(2000, 5000))
            innov = rng.normal(size=n)
            innov[rng.integers(0, n, n // 50)] = np.nan
            innov[:order] = np.nan
            run_case(order, pname, params, 3.0, -4.0, innov,
                     f"long order={order} {pname} n={n}")

    # ====== explosive coefficients, kept short enough to stay finite =
    for order in range(1, 11):
        for pname, params in coefficient_sets(order, rng)[5:]:
            innov = rng.normal(size=150)
            innov[[0, 3, 77]] = np.nan
            run_case(order, pname, params, -1.0, 2.0, innov,
                     f"explosive order={order} {pname} n=150")

    # ================= hand-computed values ==========================
    y = armodel_sim(0.5, np.array([1.0, np.nan, 2.0]), 10.0, 14.0)
    check(close(y, [13.0, 11.5, 12.75], 20.0), "hand AR1")
    y = armodel_sim([0.5, -0.25], np.array([1.0, 0.0, -1.0]), 1.0, 5.0)
    # centred: c-1=c-2=4 ; c0=1+2-1=2 ; c1=0+1-1=0 ; c2=-1+0-0.5=-1.5
    check(close(y, [3.0, 1.0, -0.5], 10.0), "hand AR2")
    r = armodel_residual([0.5, -0.25], np.array([3.0, np.nan, -0.5]),
                         1.0, 5.0)
    check(close(r, [1.0, 0.0, -1.0], 10.0), "hand AR2 residual with gap")
    r = armodel_residual(0.5, np.array([np.nan, np.nan]), 0.0, 8.0)
    check(close(r, [0.0, 0.0], 10.0), "hand AR1 residual all nan")

    # scalar / list / integer parameter forms are the same model
    e = rng.normal(size=30)
    ya = armodel_sim(0.7, e, 1.0, 2.0)
    for form in ([0.7], np.array([0.7]), np.float64(0.7)):
        check(close(armodel_sim(form, e, 1.0, 2.0), ya, scale_of(ya)),
              f"param form {type(form).__name__}")
    check(close(armodel_sim(1, e, 1, 2), ref_sim([1.0], e, 1.0, 2.0),
                scale_of(e) * 30), "integer params/mean/ini")

    # non contiguous and integer innovations
    e = rng.normal(size=60)
    check(close(armodel_sim([0.3, 0.2], e[::2], 1.0, 2.0),
                ref_sim([0.3, 0.2], e[::2], 1.0, 2.0), 10.0),
          "strided innov")
    ei = np.arange(-5, 6)
    check(close(armodel_sim([0.3, 0.2], ei, 1.0, 2.0),
                ref_sim([0.3, 0.2], ei.astype(float), 1.0, 2.0), 10.0),
          "integer innov")
    yy = ref_sim([0.3, 0.2], e, 1.0, 2.0)
    check(close(armodel_residual([0.3, 0.2], yy[::3], 1.0, 2.0),
                ref_residual([0.3, 0.2], yy[::3], 1.0, 2.0)[0], 10.0),
          "strided inputs")

    # ========== default sim_mean of armodel_residual =================
    for order in (1, 3, 10):
        params = coefficient_sets(order, rng)[1][1]
        yy = 4.0 + rng.normal(size=50)
        yy[[0, 7, 8]] = np.nan
        m = np.nanmean(yy)
        r_default = armodel_residual(params, yy)
        r_explicit = armodel_residual(params, yy, m, m)
        check(close(r_default, r_explicit, 10.0),
              f"order={order} default sim_mean is nanmean")
        back = armodel_sim(params, r_default, m)
        ok = ~np.isnan(yy)
        check(close(back[ok], yy[ok], 10.0),
              f"order={order} default mean round trip")

    # ===================== rejections ================================
    def rejected(fun, *args, **kwargs):
        with warnings.catch_warnings():
            warnings.simplefilter("ignore")
            try:
                fun(*args, **kwargs)
            except Exception:
                return True
        return False

    e = rng.normal(size=10)
    for fun in (armodel_sim, armodel_residual):
        name = fun.__name__
        check(rejected(fun, np.zeros(0), e, 0.0, 0.0), name + " order 0")
        check(rejected(fun, [], e, 0.0, 0.0), name + " order 0 (list)")
        check(rejected(fun, np.full(11, 0.05), e, 0.0, 0.0),
              name + " order 11")
        check(rejected(fun, np.full(11, 0.05), e[:0], 0.0, 0.0),
              name + " order 11, empty series")
        check(rejected(fun, np.zeros(0), e[:0], 0.0, 0.0),
              name + " order 0, empty series")
        check(not rejected(fun, np.full(10, 0.05), e, 0.0, 0.0),
              name + " order 10 accepted")
        check(not rejected(fun, np.full(1, 0.05), e, 0.0, 0.0),
              name + " order 1 accepted")
        for order in range(1, 11):
            for pos in range(order):
                p = np.full(order, 0.1)
                p[pos] = np.nan
                check(rejected(fun, p, e, 0.0, 0.0),
                      f"{name} nan param order={order} pos={pos}")
        check(rejected(fun, np.nan, e, 0.0, 0.0), name + " nan scalar param")
        check(rejected(fun, [0.5], e, np.nan, 0.0), name + " nan mean")
        check(rejected(fun, [0.5], e, 0.0, np.nan), name + " nan ini")
        check(rejected(fun, [0.5], e, np.nan), name + " nan mean, ini None")
        check(rejected(fun, [np.nan], e[:0], 0.0, 0.0),
              name + " nan param, empty series")

    # ====== focus of rewrite r1: order of summation / lag bookkeeping ==
    # A coefficient vector with a single non-zero lag makes the series
    # a set of interleaved AR1 processes: any mistake in the bookkeeping
    # of lagged values is exposed, and the result does not depend on
    # the order of summation (only one non-zero term), so this check is
    # done to much tighter accuracy.
    for order in range(1, 11):
        for lag in range(order):
            p = np.zeros(order)
            p[lag] = -0.9
            e = rng.normal(size=4 * order + 3)
            y = armodel_sim(p, e, 2.0, -1.0)
            exp = ref_sim(p, e, 2.0, -1.0)
            check(bool(np.all(np.abs(y - exp) <= 1e-13 * scale_of(exp))),
                  f"single lag sim order={order} lag={lag}")
            r = armodel_residual(p, y, 2.0, -1.0)
            check(bool(np.all(np.abs(r - e) <= 1e-13 * scale_of(exp))),
                  f"single lag residual order={order} lag={lag}")

    print(f"{NCHECKS} checks, {len(FAILURES)} failures")
    return 1 if FAILURES else 0


if __name__ == "__main__":
    sys.exit(main())
