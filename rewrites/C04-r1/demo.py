#!/usr/bin/env python
""" Self-contained check of property C04 (deterministic and categorical
skill scores equal their definitions) for hydrodiy.stat.metrics.

Run as:  PYTHONPATH=<tree>/src /venv/bin/python demo.py
Exits 0 if every check passes, 1 otherwise.

Only inputs INSIDE the quantifier of the property are used:
 * float64 series of length >= 2 whose observed (transformed) mean and
   standard deviation are well away from zero,
 * bias types standard/normalised/log, corr types Pearson/Spearman with
   mean/median ensemble statistic,
 * transforms Identity, Log, BoxCox2, Reciprocal, Sinh at admissible
   parameters,
 * excludenull False/True with NaN/inf scattered in either series,
 * integer category series of length >= 1 over 2..6 categories,
 * 2x2 tables with four positive counts.
"""
import os
import sys
import math
import warnings
import itertools
from fractions import Fraction

import numpy as np

from hydrodiy.stat import metrics, transform

warnings.simplefilter("ignore")

RNG = np.random.default_rng(int(os.environ.get("C04_SEED", "20240404")))
NCHECK = 0
FAILURES = []


def check(cond, label):
    global NCHECK
    NCHECK += 1
    if not cond:
        FAILURES.append(label)
        if len(FAILURES) <= 40:
            print("FAIL:", label)


def close(a, b, rtol=1e-9, atol=1e-9):
    if a is None or b is None:
        # reference not defined / ill-conditioned: nothing to compare
        return True
    a = float(a)
    b = float(b)
    if math.isnan(a) or math.isnan(b):
        return math.isnan(a) and math.isnan(b)
    if a == b:
        return True
    if math.isinf(a) or math.isinf(b):
        return False
    return abs(a-b) <= atol + rtol*abs(b)


# ---------------------------------------------------------------------
# Textbook definitions (accurate summation with math.fsum)
# ---------------------------------------------------------------------
def fmean(x):
    return math.fsum(x)/len(x)


def fstd(x):
    m = fmean(x)
    return math.sqrt(math.fsum([(v-m)**2 for v in x])/len(x))


def pearson(x, y):
    mx, my = fmean(x), fmean(y)
    sxy = math.fsum([(a-mx)*(b-my) for a, b in zip(x, y)])
    sxx = math.fsum([(a-mx)**2 for a in x])
    syy = math.fsum([(b-my)**2 for b in y])
    if sxx == 0 or syy == 0:
        return math.nan
    return sxy/math.sqrt(sxx)/math.sqrt(syy)


def midranks(x):
    """ average ranks (1-based), ties share their mid-rank """
    x = list(x)
    order = sorted(range(len(x)), key=lambda i: x[i])
    ranks = [0.]*len(x)
    i = 0
    while i < len(x):
        j = i
        while j+1 < len(x) and x[order[j+1]] == x[order[i]]:
            j += 1
        r = (i+j)/2.+1.
        for k in range(i, j+1):
            ranks[order[k]] = r
        i = j+1
    return ranks


def ref_bias(to, ts, btype):
    mo, ms = fmean(to), fmean(ts)
    if btype == "standard":
        return (ms-mo)/mo
    elif btype == "normalised":
        if abs(ms+mo) <= 1e-6*(abs(ms)+abs(mo)):
            # ill-conditioned (division by ~0): not compared
            return None
        return (ms-mo)/(ms+mo)
    else:
        if ms > 1e-10 and mo > 1e-10:
            return math.log(ms)-math.log(mo)
        return math.nan


def ref_nse(to, ts):
    mo = fmean(to)
    return 1-math.fsum([(s-o)**2 for o, s in zip(to, ts)]) \
        / math.fsum([(o-mo)**2 for o in to])


def ref_kge(to, ts):
    mo, ms = fmean(to), fmean(ts)
    so, ss = fstd(to), fstd(ts)
    if ss < 1e-10:
        return math.nan
    r = pearson(to, ts)
    return 1-math.sqrt((1-ms/mo)**2+(1-ss/so)**2+(1-r)**2)


def ref_corr(to, ts, ctype):
    if ctype == "Pearson":
        return pearson(to, ts)
    return pearson(midranks(to), midranks(ts))


def nondegenerate(to):
    """ quantifier of the property: mean and std of the (transformed)
    observations not close to zero. A safety margin is used. """
    to = np.asarray(to, dtype=float)
    if len(to) < 2 or not np.all(np.isfinite(to)):
        return False
    m, s = np.mean(to), np.std(to)
    scale = np.max(np.abs(to))
    return abs(m) > 1e-3*scale and s > 1e-3*scale and s > 1e-3*abs(m)


# ---------------------------------------------------------------------
# Transforms at admissible parameters
# ---------------------------------------------------------------------
def make_transforms():
    out = []
    out.append(("Identity", transform.Identity(), "any"))

    t = transform.Log()
    out.append(("Log-default", t, "pos"))
    t = transform.Log()
    t.nu = 0.1
    out.append(("Log-nu0.1", t, "pos0"))
    t = transform.Log(base=10)
    t.nu = 1.
    out.append(("Log10-nu1", t, "pos0"))

    for lam in [0., 1e-11, 0.2, 0.5, 1., 2.]:
        t = transform.BoxCox2()
        t.nu = 0.5
        t.lam = lam
        out.append((f"BoxCox2-lam{lam}", t, "pos0"))
    t = transform.BoxCox2(minilam=-1.)
    t.nu = 0.2
    t.lam = -0.5
    out.append(("BoxCox2-lam-0.5", t, "pos0"))

    t = transform.Reciprocal()
    t.nu = 0.3
    out.append(("Reciprocal-nu0.3", t, "pos0"))
    t = transform.Reciprocal()
    t.nu = 2.
    out.append(("Reciprocal-nu2", t, "pos0"))

    t = transform.Sinh()
    out.append(("Sinh-default", t, "any"))
    t = transform.Sinh()
    t.nu = 0.5
    t.scale = 2.
    out.append(("Sinh-nu0.5-sc2", t, "any"))
    return out


TRANSFORMS = make_transforms()


def inf_maps_to_nonfinite(trans):
    with np.errstate(all="ignore"):
        v = trans.forward(np.array([np.inf, -np.inf]))
    return not np.any(np.isfinite(v))


def gen_series(n, domain, kind):
    """ generate obs, sim in the domain of a transform """
    if kind == "smooth":
        obs = RNG.gamma(2., 2., size=n)
        sim = obs*RNG.uniform(0.6, 1.5, size=n)+RNG.uniform(0, 1, size=n)
    elif kind == "ties":
        obs = np.round(RNG.gamma(2., 2., size=n), 0)
        sim = np.round(obs*RNG.uniform(0.6, 1.5, size=n), 0)
    elif kind == "anticorr":
        obs = RNG.gamma(2., 2., size=n)
        sim = np.max(obs)-obs+RNG.uniform(0, 0.5, size=n)
    elif kind == "big":
        obs = 1e6+1e5*RNG.normal(size=n)
        sim = 1e6+1e5*RNG.normal(size=n)
        obs, sim = np.abs(obs), np.abs(sim)
    else:
        raise ValueError(kind)

    if domain == "pos":
        obs = obs+0.05
        sim = sim+0.05
    elif domain == "any" and kind != "big":
        shift = RNG.choice([0., 1.7, 5.])
        obs = obs-shift
        sim = sim-shift*0.8
    return obs.astype(np.float64), sim.astype(np.float64)


def scatter_nulls(obs, sim, allow_inf):
    """ put NaN / inf in either series. Keep at least 3 complete pairs """
    obs, sim = obs.copy(), sim.copy()
    n = len(obs)
    nbad = max(1, n//4) if n > 3 else 0
    bad = [np.nan, np.nan, np.inf, -np.inf] if allow_inf else [np.nan]
    idx = RNG.choice(n, size=nbad, replace=False) if nbad else []
    for i in idx:
        which = RNG.integers(0, 3)
        if which in (0, 2):
            obs[i] = RNG.choice(bad)
        if which in (1, 2):
            sim[i] = RNG.choice(bad)
    return obs, sim


# ---------------------------------------------------------------------
# 1. bias / nse / kge / corr equal their definitions on the transformed
#    series
# ---------------------------------------------------------------------
def check_deterministic():
    lengths = [2, 2, 3, 4, 5, 10, 37, 200]
    for (tname, trans, domain), n, kind in itertools.product(
            TRANSFORMS, lengths, ["smooth", "ties", "anticorr", "big"]):
        obs, sim = gen_series(n, domain, kind)
        if kind == "anticorr" and domain != "any":
            sim = np.abs(sim)
        with np.errstate(all="ignore"):
            to = trans.forward(obs)
            ts = trans.forward(sim)
        if not nondegenerate(to) or not np.all(np.isfinite(ts)):
            continue
        lab = f"{tname}/n{n}/{kind}"
        tol = dict(rtol=1e-8, atol=1e-8) if kind == "big" else {}

        for excl in [False, True]:
            for btype in ["standard", "normalised", "log"]:
                got = metrics.bias(obs, sim, trans, excludenull=excl,
                                   type=btype)
                check(close(got, ref_bias(to, ts, btype), **tol),
                      f"bias-{btype} {lab} excl={excl}")
                # score(obs, sim, trans) == score(T(obs), T(sim))
                got2 = metrics.bias(to, ts, type=btype)
                check(close(got, got2, **tol),
                      f"bias-{btype} vs identity-on-transformed {lab}")

            got = metrics.nse(obs, sim, trans, excludenull=excl)
            check(close(got, ref_nse(to, ts), **tol), f"nse {lab}")
            check(close(got, metrics.nse(to, ts), **tol),
                  f"nse vs identity-on-transformed {lab}")
            check(got <= 1., f"nse<=1 {lab}")

            got = metrics.kge(obs, sim, trans, excludenull=excl)
            check(close(got, ref_kge(to, ts), **tol), f"kge {lab}")
            check(close(got, metrics.kge(to, ts), **tol),
                  f"kge vs identity-on-transformed {lab}")
            check(math.isnan(got) or got <= 1., f"kge<=1 {lab}")

            for ctype in ["Pearson", "Spearman"]:
                for stat in ["mean", "median"]:
                    got = metrics.corr(obs, sim, trans, excludenull=excl,
                                       type=ctype, stat=stat)
                    check(close(got, ref_corr(to, ts, ctype), **tol),
                          f"corr-{ctype}-{stat} {lab}")
                    check(close(got, metrics.corr(to, ts, type=ctype,
                                                  stat=stat), **tol),
                          f"corr-{ctype} vs identity-on-transformed {lab}")
                    # (nan when the simulation is constant)
                    check(math.isnan(got) or -1-1e-12 <= got <= 1+1e-12,
                          f"corr in [-1,1] {lab}")


# ---------------------------------------------------------------------
# 2. corr with a genuine ensemble: statistic = mean / median of members
# ---------------------------------------------------------------------
def check_corr_ensemble():
    for (tname, trans, domain), n, nens in itertools.product(
            TRANSFORMS, [2, 3, 10, 60], [1, 2, 5, 8]):
        obs, _ = gen_series(n, domain, "smooth")
        ens = obs[:, None]*RNG.uniform(0.5, 1.6, size=(n, nens))
        if domain != "any":
            ens = np.abs(ens)+0.05
        with np.errstate(all="ignore"):
            to = trans.forward(obs)
            te = trans.forward(ens)
        if not nondegenerate(to) or not np.all(np.isfinite(te)):
            continue
        for stat, ctype in itertools.product(["mean", "median"],
                                             ["Pearson", "Spearman"]):
            if stat == "mean":
                ts = [fmean(list(r)) for r in te]
            else:
                ts = [float(np.median(r)) for r in te]
            if fstd(ts) < 1e-6:
                continue
            got = metrics.corr(obs, ens, trans, stat=stat, type=ctype)
            check(close(got, ref_corr(list(to), ts, ctype)),
                  f"corr-ens {tname}/n{n}/nens{nens}/{stat}/{ctype}")


# ---------------------------------------------------------------------
# 3. excludenull: score equals score of the series with incomplete pairs
#    removed
# ---------------------------------------------------------------------
def check_excludenull():
    for (tname, trans, domain), n, kind, rep in itertools.product(
            TRANSFORMS, [4, 5, 8, 30, 120], ["smooth", "ties"], range(2)):
        obs, sim = gen_series(n, domain, kind)
        allow_inf = inf_maps_to_nonfinite(trans)
        obsn, simn = scatter_nulls(obs, sim, allow_inf)
        ok = np.isfinite(obsn) & np.isfinite(simn)
        if ok.sum() < 3:
            continue
        obsc, simc = obsn[ok], simn[ok]
        with np.errstate(all="ignore"):
            to = trans.forward(obsc)
            ts = trans.forward(simc)
        if not nondegenerate(to) or not np.all(np.isfinite(ts)):
            continue
        lab = f"{tname}/n{n}/{kind}/nnull{n-ok.sum()}"

        for btype in ["standard", "normalised", "log"]:
            got = metrics.bias(obsn, simn, trans, excludenull=True,
                               type=btype)
            check(close(got, ref_bias(to, ts, btype)),
                  f"bias-{btype} excludenull {lab}")
            check(close(got, metrics.bias(obsc, simc, trans, type=btype)),
                  f"bias-{btype} excludenull vs removed {lab}")

        got = metrics.nse(obsn, simn, trans, excludenull=True)
        check(close(got, ref_nse(to, ts)), f"nse excludenull {lab}")
        check(close(got, metrics.nse(obsc, simc, trans)),
              f"nse excludenull vs removed {lab}")

        got = metrics.kge(obsn, simn, trans, excludenull=True)
        check(close(got, ref_kge(to, ts)), f"kge excludenull {lab}")
        check(close(got, metrics.kge(obsc, simc, trans)),
              f"kge excludenull vs removed {lab}")

        for ctype, stat in itertools.product(["Pearson", "Spearman"],
                                             ["mean", "median"]):
            got = metrics.corr(obsn, simn, trans, excludenull=True,
                               type=ctype, stat=stat)
            check(close(got, ref_corr(to, ts, ctype)),
                  f"corr-{ctype}-{stat} excludenull {lab}")
            check(close(got, metrics.corr(obsc, simc, trans, type=ctype,
                                          stat=stat)),
                  f"corr-{ctype}-{stat} excludenull vs removed {lab}")


# ---------------------------------------------------------------------
# 3b. excludenull=False with NaN/inf present: the definitions evaluated
#     on the transformed series are not finite (nan propagates), no
#     exception is raised. corr always drops the pairs with a NaN, hence
#     it is compared with itself on the transformed series.
# ---------------------------------------------------------------------
def check_nulls_not_excluded():
    for (tname, trans, domain), n, rep in itertools.product(
            TRANSFORMS, [4, 8, 30], range(3)):
        obs, sim = gen_series(n, domain, "smooth")
        allow_inf = inf_maps_to_nonfinite(trans)
        obsn, simn = scatter_nulls(obs, sim, allow_inf)
        ok = np.isfinite(obsn) & np.isfinite(simn)
        if ok.sum() < 3 or ok.sum() == n:
            continue
        with np.errstate(all="ignore"):
            to = trans.forward(obsn)
            ts = trans.forward(simn)
        if not nondegenerate(to[ok]):
            continue
        lab = f"{tname}/n{n}/rep{rep}"
        for btype in ["standard", "normalised", "log"]:
            got = metrics.bias(obsn, simn, trans, type=btype)
            check(not math.isfinite(got), f"bias-{btype} nulls kept {lab}")
        check(not math.isfinite(metrics.nse(obsn, simn, trans)),
              f"nse nulls kept {lab}")
        check(not math.isfinite(metrics.kge(obsn, simn, trans)),
              f"kge nulls kept {lab}")

        # NaN only for corr
        obsn[np.isinf(obsn)] = np.nan
        simn[np.isinf(simn)] = np.nan
        with np.errstate(all="ignore"):
            to = trans.forward(obsn)
            ts = trans.forward(simn)
        for ctype, stat in itertools.product(["Pearson", "Spearman"],
                                             ["mean", "median"]):
            got = metrics.corr(obsn, simn, trans, type=ctype, stat=stat)
            check(close(got, metrics.corr(to, ts, type=ctype, stat=stat)),
                  f"corr-{ctype}-{stat} nulls kept {lab}")
            check(close(got, ref_corr(to[ok], ts[ok], ctype)),
                  f"corr-{ctype}-{stat} nulls kept vs def {lab}")


# ---------------------------------------------------------------------
# 4. consequences: perfect simulation, mean simulation, invariances
# ---------------------------------------------------------------------
def check_consequences():
    for (tname, trans, domain), n, kind in itertools.product(
            TRANSFORMS, [2, 3, 7, 50, 365], ["smooth", "ties", "big"]):
        obs, sim = gen_series(n, domain, kind)
        with np.errstate(all="ignore"):
            to = trans.forward(obs)
        if not nondegenerate(to):
            continue
        lab = f"{tname}/n{n}/{kind}"

        # perfect simulation
        for excl in [False, True]:
            for btype in ["standard", "normalised"]:
                check(metrics.bias(obs, obs.copy(), trans, excl, btype) == 0,
                      f"perfect bias-{btype} {lab}")
            if fmean(list(to)) > 1e-6:
                check(metrics.bias(obs, obs.copy(), trans, excl, "log") == 0,
                      f"perfect bias-log {lab}")
            check(metrics.nse(obs, obs.copy(), trans, excl) == 1,
                  f"perfect nse {lab}")
            check(close(metrics.kge(obs, obs.copy(), trans, excl), 1.,
                        rtol=0, atol=1e-12), f"perfect kge {lab}")
            for ctype, stat in itertools.product(["Pearson", "Spearman"],
                                                 ["mean", "median"]):
                check(close(metrics.corr(obs, obs.copy(), trans, excl,
                                         stat, ctype), 1.,
                            rtol=0, atol=1e-12),
                      f"perfect corr-{ctype}-{stat} {lab}")

    # the remaining consequences are stated in the transformed space:
    # checked with the identity transform on assorted series
    for n, kind, rep in itertools.product([2, 3, 7, 50, 365],
                                          ["smooth", "ties", "big"],
                                          range(3)):
        obs, sim = gen_series(n, "any", kind)
        if not nondegenerate(obs):
            continue
        lab = f"n{n}/{kind}/{rep}"

        # simulating the observed mean scores NSE 0
        msim = np.full(n, np.mean(obs))
        check(close(metrics.nse(obs, msim), 0., rtol=0, atol=1e-10),
              f"nse(mean sim)=0 {lab}")

        # NSE invariant under a common affine map
        base = metrics.nse(obs, sim)
        for a, b in [(2., 0.), (0.5, 3.), (-4., 1.), (3.7, -11.3),
                     (-0.013, 250.), (1., 1e3)]:
            check(close(metrics.nse(a*obs+b, a*sim+b), base,
                        rtol=1e-7, atol=1e-7),
                  f"nse affine a={a} b={b} {lab}")

        # bias and KGE invariant under a common positive scaling
        for c in [2., 0.25, 3.3, 1e-3, 7e4]:
            for btype in ["standard", "normalised", "log"]:
                b0 = metrics.bias(obs, sim, type=btype)
                b1 = metrics.bias(c*obs, c*sim, type=btype)
                # bias-log is nan for non positive means. Scaling does
                # not alter this unless the mean is moved across 1e-10
                if btype == "log" and (math.isnan(b0) or math.isnan(b1)):
                    continue
                if ref_bias(list(obs), list(sim), btype) is None:
                    continue
                check(close(b1, b0), f"bias-{btype} scaling c={c} {lab}")
            check(close(metrics.kge(c*obs, c*sim), metrics.kge(obs, sim)),
                  f"kge scaling c={c} {lab}")

        # bounds
        check(metrics.nse(obs, sim) <= 1, f"nse<=1 {lab}")
        kg = metrics.kge(obs, sim)
        # (kge is nan when the simulation is constant)
        check(math.isnan(kg) or kg <= 1, f"kge<=1 {lab}")


# ---------------------------------------------------------------------
# 5. confusion matrix
# ---------------------------------------------------------------------
def table_values(cm):
    return np.asarray(cm)


def check_confusion():
    for ncat, n, rep in itertools.product(range(2, 7),
                                          [1, 2, 3, 5, 17, 250], range(6)):
        # categories actually used: possibly a strict subset, different
        # for obs and sim
        pool_o = [c for c in range(ncat) if RNG.uniform() < 0.7]
        pool_s = [c for c in range(ncat) if RNG.uniform() < 0.7]
        if rep == 0:
            pool_o = list(range(ncat))
            pool_s = list(range(ncat))
        if rep == 1:
            pool_o = [ncat-1]
            pool_s = [0]
        if not pool_o:
            pool_o = [int(RNG.integers(0, ncat))]
        if not pool_s:
            pool_s = [int(RNG.integers(0, ncat))]
        obs = RNG.choice(pool_o, size=n)
        sim = RNG.choice(pool_s, size=n)
        lab = f"ncat{ncat}/n{n}/rep{rep}"

        expected = np.zeros((ncat, ncat), dtype=np.int64)
        for o, s in zip(obs, sim):
            expected[o, s] += 1

        for variant in ["int64", "int32", "list"]:
            if variant == "list":
                o_in, s_in = [int(v) for v in obs], [int(v) for v in sim]
            else:
                o_in, s_in = obs.astype(variant), sim.astype(variant)

            # ncat given
            cm = metrics.confusion_matrix(o_in, s_in, ncat=ncat)
            val = table_values(cm)
            check(val.shape == (ncat, ncat), f"cm shape {lab} {variant}")
            check(val.shape == (ncat, ncat) and np.all(val == expected),
                  f"cm counts {lab} {variant}")
            check(val.sum() == n, f"cm total {lab} {variant}")
            if hasattr(cm, "index"):
                check(list(cm.index) == list(range(ncat))
                      and list(cm.columns) == list(range(ncat)),
                      f"cm labels {lab} {variant}")

            # ncat inferred: largest category present + 1
            ninf = int(max(obs.max(), sim.max()))+1
            if ninf < 2:
                continue
            cm = metrics.confusion_matrix(o_in, s_in)
            val = table_values(cm)
            check(val.shape == (ninf, ninf), f"cm-inferred shape {lab}")
            check(val.shape == (ninf, ninf)
                  and np.all(val == expected[:ninf, :ninf]),
                  f"cm-inferred counts {lab}")
            check(val.sum() == n, f"cm-inferred total {lab}")
            if hasattr(cm, "index"):
                check(list(cm.index) == list(range(ninf))
                      and list(cm.columns) == list(range(ninf)),
                      f"cm-inferred labels {lab}")

    # every single (obs, sim) category pair, length 1
    for ncat in range(2, 7):
        for o, s in itertools.product(range(ncat), repeat=2):
            val = table_values(metrics.confusion_matrix([o], [s], ncat))
            exp = np.zeros((ncat, ncat))
            exp[o, s] = 1
            check(val.shape == exp.shape and np.all(val == exp),
                  f"cm single pair ncat{ncat} ({o},{s})")


# ---------------------------------------------------------------------
# 6. binary scores
# ---------------------------------------------------------------------
def ref_binary(TN, FP, FN, TP):
    TN, FP, FN, TP = [Fraction(int(v)) for v in (TN, FP, FN, TP)]
    n = TN+FP+FN+TP
    H = TP/(TP+FN)
    F = FP/(FP+TN)
    theta = (TP*TN)/(FP*FN)
    den = (TP+FP)*(TP+FN)*(TN+FP)*(TN+FN)
    out = {
        "truepos": float(TP), "falsepos": float(FP),
        "trueneg": float(TN), "falseneg": float(FN),
        "hitrate": float(H),
        "falsealarm": float(F),
        "precision": float(TP/(TP+FP)),
        "accuracy": float((TP+TN)/n),
        "bias": float((TP+FP)/(TP+FN)),
        "F1": float(2*TP/(2*TP+FP+FN)),
        "MCC": float(TP*TN-FP*FN)/math.sqrt(den),
        "LOR": math.log(theta.numerator)-math.log(theta.denominator),
        "ORSS": float((theta-1)/(theta+1)),
    }
    return out, theta


def check_binary_table(TN, FP, FN, TP, as_type="list"):
    tab = [[TN, FP], [FN, TP]]
    if as_type == "array":
        tab = np.array(tab, dtype=np.int64)
    elif as_type == "float":
        tab = np.array(tab, dtype=np.float64)
    scores, scores_rand = metrics.binary(tab)
    ref, theta = ref_binary(TN, FP, FN, TP)
    lab = f"binary TN={TN} FP={FP} FN={FN} TP={TP} ({as_type})"
    for key, val in ref.items():
        check(key in scores and close(scores[key], val,
                                      rtol=1e-11, atol=1e-11),
              f"{lab}: {key}")
    # odds ratio below / at / above 1
    if theta > 1:
        check(scores["LOR"] > 0 and scores["ORSS"] > 0, f"{lab}: OR>1 sign")
    elif theta < 1:
        check(scores["LOR"] < 0 and scores["ORSS"] < 0, f"{lab}: OR<1 sign")
    else:
        check(abs(scores["LOR"]) < 1e-12 and abs(scores["ORSS"]) < 1e-12,
              f"{lab}: OR=1")
    check(-1 <= scores["ORSS"] <= 1 and -1-1e-12 <= scores["MCC"] <= 1+1e-12,
          f"{lab}: ranges")
    check(isinstance(scores_rand, dict), f"{lab}: scores_rand")


def check_binary():
    # exhaustive small tables
    for TN, FP, FN, TP in itertools.product(range(1, 7), repeat=4):
        check_binary_table(TN, FP, FN, TP)

    # odds ratio exactly one
    for a, b, k in [(2, 3, 2), (1, 1, 1), (5, 7, 3), (10, 1, 10),
                    (123, 456, 7)]:
        # rows proportional: TN=a, FP=b, FN=k*a, TP=k*b
        check_binary_table(a, b, k*a, k*b, "array")
        check_binary_table(a, b, k*a, k*b, "list")

    # random tables, various magnitudes (rare events included)
    for mag in [10, 1000, 10**6, 10**9]:
        for rep in range(60):
            TN, FP, FN, TP = [int(v) for v in RNG.integers(1, mag, size=4)]
            if rep % 3 == 0:
                TP = int(RNG.integers(1, 5))
                FN = int(RNG.integers(1, 20))
            check_binary_table(TN, FP, FN, TP,
                               ["list", "array", "float"][rep % 3])

    # pipeline: binary(confusion_matrix(obs, sim, 2))
    for n, rep in itertools.product([4, 9, 40, 500], range(5)):
        obs = RNG.integers(0, 2, size=n)
        sim = np.where(RNG.uniform(size=n) < 0.7, obs, 1-obs)
        # make sure the four cells are populated
        obs = np.concatenate([obs, [0, 0, 1, 1]])
        sim = np.concatenate([sim, [0, 1, 0, 1]])
        cm = metrics.confusion_matrix(obs, sim, ncat=2)
        scores, _ = metrics.binary(cm)
        TN = int(np.sum((obs == 0) & (sim == 0)))
        FP = int(np.sum((obs == 0) & (sim == 1)))
        FN = int(np.sum((obs == 1) & (sim == 0)))
        TP = int(np.sum((obs == 1) & (sim == 1)))
        ref, _ = ref_binary(TN, FP, FN, TP)
        for key, val in ref.items():
            check(close(scores[key], val, rtol=1e-11, atol=1e-11),
                  f"binary pipeline n{n}/{rep}: {key}")
        scores2, _ = metrics.binary(metrics.confusion_matrix(obs, sim))
        for key, val in ref.items():
            check(close(scores2[key], val, rtol=1e-11, atol=1e-11),
                  f"binary pipeline (ncat inferred) n{n}/{rep}: {key}")


def main():
    check_deterministic()
    check_corr_ensemble()
    check_excludenull()
    check_nulls_not_excluded()
    check_consequences()
    check_confusion()
    check_binary()

    print(f"{NCHECK} checks, {len(FAILURES)} failures")
    if FAILURES:
        sys.exit(1)
    print("C04 DEMO OK")
    sys.exit(0)


if __name__ == "__main__":
    main()
