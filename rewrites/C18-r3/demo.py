#!/usr/bin/env python
""" C18 demo: computations leave their arguments untouched and are repeatable.

Run as:  PYTHONPATH=<tree>/src /venv/bin/python demo.py

For every call listed below the program
 1. takes a byte-level snapshot of every argument (values, dtype, shape, and,
    for non contiguous views, of the whole buffer they are a view of),
 2. seeds numpy, calls the function, checks the snapshot,
 3. seeds numpy again, calls the function a second time with the very same
    argument objects, checks the snapshot again,
 4. checks that both calls returned the same thing (same dtype/shape/values,
    NaN == NaN), or that both raised the same exception type.
An exception is an acceptable outcome (some functions refuse e.g. integer or
non contiguous arrays): the arguments must still be untouched and the second
call must fail in the same way.

Exit status 0 if every check passes, 1 otherwise.
"""
import sys
import os
import time
import warnings
import math
import traceback

import numpy as np
import pandas as pd

import matplotlib
matplotlib.use("Agg")
import matplotlib.pyplot as plt
from matplotlib.figure import Figure

from hydrodiy.stat import metrics, sutils, armodels, transform
from hydrodiy.data import dutils, qualitycontrol, signatures
from hydrodiy.gis import gutils
from hydrodiy.gis.grid import Grid, Catchment
from hydrodiy.gis import grid as gridmod
from hydrodiy.plot import putils, boxplot, violinplot

warnings.filterwarnings("ignore")
np.seterr(all="ignore")

SEED = 5446
FAILS = []
NCHECKS = [0, 0]   # [calls checked, of which raising]
PERFUN = {}         # per function: [calls, raising, exception types]


# --------------------------------------------------------------------------
# snapshots
# --------------------------------------------------------------------------
def _root(a):
    """ Buffer owner of an array """
    while isinstance(getattr(a, "base", None), np.ndarray):
        a = a.base
    return a


def snap(obj):
    """ Immutable description of an argument """
    if isinstance(obj, np.ndarray):
        root = _root(obj)
        rootsnap = None
        if root is not obj:
            rootsnap = (str(root.dtype), root.shape,
                        np.ascontiguousarray(root).tobytes())
        if obj.dtype == object:
            content = repr(obj.tolist())
        else:
            content = np.ascontiguousarray(obj).tobytes()
        return ("nd", str(obj.dtype), obj.shape, obj.strides, content,
                rootsnap)

    if isinstance(obj, pd.Series):
        return ("se", str(obj.dtype), obj.shape, obj.name,
                snap(np.asarray(obj.values)),
                snap(np.asarray(obj.index.values)))

    if isinstance(obj, pd.DataFrame):
        return ("df", tuple(str(d) for d in obj.dtypes), obj.shape,
                tuple(obj.columns),
                tuple(snap(np.asarray(obj[c].values)) for c in obj.columns),
                snap(np.asarray(obj.index.values)))

    if isinstance(obj, pd.Index):
        return ("ix", str(obj.dtype), snap(np.asarray(obj.values)))

    if isinstance(obj, Grid):
        # grid arguments keep their cell values (their dtype may be
        # converted by grid level functions)
        d = obj.data
        return ("grid", d.shape, obj.nrows, obj.ncols, obj.cellsize,
                obj.xllcorner, obj.yllcorner,
                np.ascontiguousarray(d, dtype=np.float64).tobytes())

    if isinstance(obj, Catchment):
        return ("catchment-flowdir", snap(obj.flowdir))

    if isinstance(obj, (list, tuple)):
        return (type(obj).__name__, tuple(snap(o) for o in obj))

    if isinstance(obj, dict):
        return ("dict", tuple((k, snap(v)) for k, v in obj.items()))

    return ("other", repr(obj))


# --------------------------------------------------------------------------
# result comparison
# --------------------------------------------------------------------------
def same(a, b):
    """ Are two results identical (NaN equal to NaN)? """
    if type(a) is not type(b):
        return False

    if isinstance(a, np.ndarray):
        if a.dtype != b.dtype or a.shape != b.shape:
            return False
        if a.dtype.kind in "fc":
            return bool(np.array_equal(a, b, equal_nan=True))
        if a.dtype == object:
            return all(same(u, v) for u, v in zip(a.ravel(), b.ravel()))
        return bool(np.array_equal(a, b))

    if isinstance(a, pd.Series):
        return same(np.asarray(a.values), np.asarray(b.values)) \
            and same(np.asarray(a.index.values), np.asarray(b.index.values))

    if isinstance(a, pd.DataFrame):
        return list(a.columns) == list(b.columns) \
            and a.shape == b.shape \
            and all(same(a.iloc[:, i], b.iloc[:, i])
                    for i in range(a.shape[1]))

    if isinstance(a, pd.Index):
        return same(np.asarray(a.values), np.asarray(b.values))

    if isinstance(a, Grid):
        return same(a.data, b.data) and a.same_geometry(b)

    if isinstance(a, (list, tuple)):
        return len(a) == len(b) and all(same(u, v) for u, v in zip(a, b))

    if isinstance(a, dict):
        return list(a.keys()) == list(b.keys()) \
            and all(same(a[k], b[k]) for k in a)

    if isinstance(a, (float, np.floating)):
        return (a == b) or (a != a and b != b)

    if isinstance(a, matplotlib.lines.Line2D):
        return same(np.asarray(a.get_xydata()), np.asarray(b.get_xydata()))

    if isinstance(a, matplotlib.artist.Artist):
        return True

    try:
        return bool(a == b)
    except Exception:
        return repr(a) == repr(b)


class quiet(object):
    """ Silence the progress messages that some C kernels print """
    def __enter__(self):
        sys.stdout.flush()
        self.saved = os.dup(1)
        self.devnull = os.open(os.devnull, os.O_WRONLY)
        os.dup2(self.devnull, 1)

    def __exit__(self, *args):
        os.dup2(self.saved, 1)
        os.close(self.saved)
        os.close(self.devnull)


def check(label, fun, *args, **kwargs):
    """ Two consecutive calls of fun(*args, **kwargs) on the same objects """
    with quiet():
        return _check(label, fun, *args, **kwargs)


def _check(label, fun, *args, **kwargs):
    watched = (args, kwargs)
    before = snap(watched)
    outs = []
    for icall in range(2):
        np.random.seed(SEED)
        try:
            out = ("ok", fun(*args, **kwargs))
        except Exception as err:
            out = ("raised", type(err).__name__)
        outs.append(out)
        if snap(watched) != before:
            FAILS.append(f"{label}: argument modified by call {icall+1}")
            break

    NCHECKS[0] += 1
    key = label.split("[")[0]
    stat = PERFUN.setdefault(key, [0, 0, set()])
    stat[0] += 1
    if outs[0][0] == "raised":
        NCHECKS[1] += 1
        stat[1] += 1
        stat[2].add(outs[0][1])

    if len(outs) == 2:
        if outs[0][0] != outs[1][0]:
            FAILS.append(f"{label}: call 1 {outs[0][0]}, call 2 {outs[1][0]}")
        elif not same(outs[0][1], outs[1][1]):
            FAILS.append(f"{label}: the two calls returned different results")
    plt.close("all")
    return outs[0]


# --------------------------------------------------------------------------
# input variants
# --------------------------------------------------------------------------
def variants1d(x, with_pandas=True, with_int=True):
    """ Same 1d data given as C contiguous / strided / reversed / float32 /
    integer / pandas """
    x = np.asarray(x, dtype=np.float64)
    n = len(x)
    out = {"c64": x.copy()}

    base = np.full(2*n+3, -777.)
    base[1:2*n+1:2] = x
    out["strided"] = base[1:2*n+1:2]

    rev = x[::-1].copy()
    out["negstride"] = rev[::-1]

    base2 = np.full((n, 3), -555.)
    base2[:, 1] = x
    out["column"] = base2[:, 1]

    out["f32"] = x.astype(np.float32)

    if with_int and np.all(np.isfinite(x)):
        xi = np.round(x).astype(np.int64)
        out["i64"] = xi
        out["i32"] = xi.astype(np.int32)
        basei = np.full(2*n, -9, dtype=np.int64)
        basei[::2] = xi
        out["i64strided"] = basei[::2]

    if with_pandas:
        out["series"] = pd.Series(x.copy(),
                                  index=np.arange(n)+10, name="s")
    return out


def variants2d(x, with_pandas=True, with_int=True):
    x = np.asarray(x, dtype=np.float64)
    out = {"c64": x.copy()}
    out["fortran"] = np.asfortranarray(x)
    out["transposed_view"] = np.ascontiguousarray(x.T).T
    base = np.full((x.shape[0], 2*x.shape[1]+1), -333.)
    base[:, 1::2] = x
    out["colstrided"] = base[:, 1::2]
    base = np.full((2*x.shape[0], x.shape[1]), -333.)
    base[::2] = x
    out["rowstrided"] = base[::2]
    out["f32"] = x.astype(np.float32)
    if with_int and np.all(np.isfinite(x)):
        out["i64"] = np.round(x).astype(np.int64)
        out["i32fortran"] = np.asfortranarray(np.round(x).astype(np.int32))
    if with_pandas:
        cols = [f"c{i}" for i in range(x.shape[1])]
        out["dataframe"] = pd.DataFrame(x.copy(), columns=cols)
    return out


RNG = np.random.RandomState(333)


def samples1d():
    """ Awkward 1d samples: lengths 1, 2, ties, constant, negative, zeros """
    return {
        "n1": [0.5],
        "n2": [0.25, 0.75],
        "n2tie": [0.5, 0.5],
        "ties": [3., 1., 3., 2., 1., 1., 5., 3., 0., 0.],
        "const": [2.]*6,
        "unsorted": RNG.uniform(0, 10, 31),
        "mixedsign": RNG.normal(size=20),
        "zeros": [0.]*5+[1., 2., 0., 4.],
    }


# --------------------------------------------------------------------------
# stat.metrics
# --------------------------------------------------------------------------
def run_metrics():
    # --- Anderson Darling / Cramer von Mises on data in [0, 1]
    unif = {
        "n1": [0.5], "n2": [0.9, 0.1], "n2tie": [0.3, 0.3],
        "bounds": [1., 0., 0.5, 0.25, 1., 0.],
        "ties": [0.3, 0.1, 0.3, 0.9, 0.1, 0.5, 0.5],
        "descending": np.linspace(0.99, 0.01, 25),
        "random": RNG.uniform(0, 1, 40),
        "outside": [0.2, 1.5, 0.1, -0.2],
        "withnan": [0.7, np.nan, 0.2, 0.1],
        "signedzero": [0.5, 0., -0., 0.25],
    }
    for sname, s in unif.items():
        for vname, v in variants1d(s, with_int=False).items():
            check(f"anderson_darling_test[{sname},{vname}]",
                  metrics.anderson_darling_test, v)
            check(f"cramer_von_mises_test[{sname},{vname}]",
                  metrics.cramer_von_mises_test, v)
    for vname, v in variants1d([0, 1, 1, 0, 1]).items():
        check(f"anderson_darling_test[int01,{vname}]",
              metrics.anderson_darling_test, v)
    check("anderson_darling_test[list]",
          metrics.anderson_darling_test, [0.5, 0.2, 0.9])
    check("anderson_darling_test[scalar]",
          metrics.anderson_darling_test, 0.5)
    check("anderson_darling_test[2d]", metrics.anderson_darling_test,
          RNG.uniform(0, 1, (4, 2)))

    # --- ensemble metrics
    for nforc, nens in [(1, 1), (2, 1), (2, 3), (15, 1), (15, 7)]:
        obs0 = np.round(RNG.uniform(0, 5, nforc), 0)
        ens0 = np.round(RNG.uniform(0, 5, (nforc, nens)), 0)  # many ties
        if nforc > 4:
            ens0[3] = obs0[3]
            obs0[4] = 0.
            ens0[4, :] = 0.
        for (vo, o), (ve, e) in zip(variants1d(obs0).items(),
                                    variants2d(ens0).items()):
            lab = f"[{nforc}x{nens},{vo},{ve}]"
            check("crps"+lab, metrics.crps, o, e)
            check("pit"+lab, metrics.pit, o, e)
            check("pit-random"+lab, metrics.pit, o, e, random=True)
            for tp in ["CV", "KS", "AD"]:
                check(f"alpha-{tp}"+lab, metrics.alpha, o, e, type=tp)
            check("dscore"+lab, metrics.dscore, o, e)
            for tp in ["Pearson", "Spearman"]:
                for st in ["mean", "median"]:
                    check(f"corr-{tp}-{st}"+lab, metrics.corr, o, e,
                          type=tp, stat=st)
            check("iqr"+lab, metrics.iqr, e, e+1)

        # nan in obs and ens
        if nforc > 4:
            o = obs0.copy()
            o[1] = np.nan
            e = ens0.copy()
            e[2, :] = np.nan
            e[5, 0] = np.nan
            lab = f"[{nforc}x{nens},nan]"
            check("crps"+lab, metrics.crps, o, e)
            check("pit"+lab, metrics.pit, o, e)
            check("alpha"+lab, metrics.alpha, o, e)
            check("corr"+lab, metrics.corr, o, e, excludenull=True)
            check("iqr"+lab, metrics.iqr, e, e+1)

    # --- deterministic metrics
    transforms = [transform.Identity(), transform.Log(),
                  transform.get_transform("BoxCox2", lam=0.3, nu=0.1)]
    for sname, s in samples1d().items():
        s = np.asarray(s, dtype=float)
        sim0 = s[::-1]*1.1+0.3
        for (vo, o), (vs, si) in zip(variants1d(s).items(),
                                     variants1d(sim0).items()):
            lab = f"[{sname},{vo}]"
            for itr, tr in enumerate(transforms):
                for excl in [False, True]:
                    check(f"nse-t{itr}-{excl}"+lab, metrics.nse, o, si,
                          trans=tr, excludenull=excl)
                    check(f"kge-t{itr}-{excl}"+lab, metrics.kge, o, si,
                          trans=tr, excludenull=excl)
                    for tp in ["standard", "normalised", "log"]:
                        check(f"bias-{tp}-t{itr}-{excl}"+lab, metrics.bias,
                              o, si, trans=tr, excludenull=excl, type=tp)
            sicol = si.to_frame() if hasattr(si, "to_frame") else si[:, None]
            check("dscore-det"+lab, metrics.dscore, o, sicol)
            check("rel_perc_err"+lab, metrics.relative_percentile_error,
                  o, si, [10, 90])
            check("rel_perc_err-mod"+lab, metrics.relative_percentile_error,
                  o, si, [0, 100], modified=True)

    # nan allowed with excludenull
    o = np.array([1., np.nan, 3., 4., np.inf, 2.])
    s = np.array([1.5, 2., np.nan, 3., 2., 2.])
    for vo, ov in variants1d(o, with_int=False).items():
        check(f"nse-nan[{vo}]", metrics.nse, ov, s, excludenull=True)
        check(f"kge-nan[{vo}]", metrics.kge, ov, s, excludenull=True)
        check(f"bias-nan[{vo}]", metrics.bias, ov, s, excludenull=True)
        check(f"rel_perc_err-nan[{vo}]", metrics.relative_percentile_error,
              ov, s, [10, 90])

    # --- peak error
    for n in [1, 2, 50]:
        o0 = np.round(RNG.uniform(-1, 10, n), 0)
        s0 = np.round(RNG.uniform(-1, 10, n), 0)
        for (vo, o), (vs, s) in zip(variants1d(o0).items(),
                                    variants1d(s0).items()):
            check(f"absolute_peak_error[{n},{vo}]",
                  metrics.absolute_peak_error, o, s, winerase=5,
                  winpeakbefore=2, winpeakafter=3)
    o0 = RNG.uniform(0, 10, (30, 1))
    check("absolute_peak_error[column vector]",
          metrics.absolute_peak_error, o0, o0[::-1], winerase=5)

    # --- confusion matrix and binary scores
    for n in [1, 2, 30]:
        o0 = (RNG.uniform(0, 1, n) > 0.5).astype(float)
        s0 = (RNG.uniform(0, 1, n) > 0.5).astype(float)
        for (vo, o), (vs, s) in zip(variants1d(o0).items(),
                                    variants1d(s0).items()):
            check(f"confusion_matrix[{n},{vo}]", metrics.confusion_matrix,
                  o, s)
            check(f"confusion_matrix-ncat3[{n},{vo}]",
                  metrics.confusion_matrix, o, s, ncat=3)
        check(f"confusion_matrix[{n},bool]", metrics.confusion_matrix,
              o0.astype(bool), s0.astype(bool))

    cms = {"regular": [[20, 3], [5, 12]], "zeros": [[0, 0], [0, 0]],
           "nohit": [[5, 2], [3, 0]], "big": [[2**40, 3], [7, 2**41]]}
    for cname, cm in cms.items():
        for vname, v in variants2d(cm).items():
            check(f"binary[{cname},{vname}]", metrics.binary, v)


# --------------------------------------------------------------------------
# stat.sutils, stat.armodels
# --------------------------------------------------------------------------
def run_sutils():
    for sname, s in samples1d().items():
        for vname, v in variants1d(s).items():
            lab = f"[{sname},{vname}]"
            check("acf"+lab, sutils.acf, v, maxlag=min(3, len(v)))
            idx = np.asarray(v) > 1
            check("acf-idx"+lab, sutils.acf, v, maxlag=2, idx=idx)
            check("standard_normal"+lab, sutils.standard_normal, v)
            check("standard_normal-sorted"+lab, sutils.standard_normal, v,
                  sorted=True)
            check("standard_normal-min"+lab, sutils.standard_normal, v,
                  rank_method="min", cst=0.375)
            check("armodel_sim"+lab, armodels.armodel_sim, 0.9, v)
            check("armodel_sim2"+lab, armodels.armodel_sim,
                  np.array([0.5, 0.2]), v, sim_mean=1., sim_ini=2.)
            check("armodel_residual"+lab, armodels.armodel_residual, 0.9, v)
            check("armodel_residual2"+lab, armodels.armodel_residual,
                  np.array([0.5, 0.2]), v, sim_mean=1., sim_ini=2.)

    # nan allowed in ar models and acf
    v = np.array([1., np.nan, 3., 2., np.nan, np.nan, 1.])
    for vname, vv in variants1d(v, with_int=False).items():
        check(f"armodel_sim-nan[{vname}]", armodels.armodel_sim, 0.8, vv)
        check(f"armodel_residual-nan[{vname}]", armodels.armodel_residual,
              0.8, vv)
        check(f"acf-nan[{vname}]", sutils.acf, vv, maxlag=2)
    check("armodel_sim[2d]", armodels.armodel_sim, 0.8,
          RNG.normal(size=(10, 2)))

    # parameters given as arrays
    for vname, p in variants1d([0.5, 0.3, 0.1], with_pandas=False,
                               with_int=False).items():
        check(f"armodel_sim-params[{vname}]", armodels.armodel_sim, p,
              np.arange(10.))
        check(f"yule_walker[{vname}]", armodels.yule_walker, p)
    acfv = np.array([1., 0.6, 0.3])
    for vname, p in variants1d(acfv, with_int=False).items():
        check(f"yule_walker[{vname}]", armodels.yule_walker, p)

    # lhs
    pmin0, pmax0 = [0., -1., 2.], [1., 1., 5.]
    for (v1, pmin), (v2, pmax) in zip(
            variants1d(pmin0, with_pandas=False).items(),
            variants1d(pmax0, with_pandas=False).items()):
        for ns in [1, 2, 10]:
            check(f"lhs[{ns},{v1}]", sutils.lhs, ns, pmin, pmax)
    mean = np.array([0., 1.])
    cov0 = np.array([[1., 0.3], [0.3, 2.]])
    for vname, cov in variants2d(cov0, with_pandas=False).items():
        check(f"lhs_norm[{vname}]", sutils.lhs_norm, 10, mean, cov)

    # semicorr, pareto front, lstsq
    for n in [1, 2, 40]:
        u0 = np.round(RNG.normal(size=(n, 2)), 1)
        for vname, u in variants2d(u0).items():
            check(f"semicorr[{n},{vname}]", sutils.semicorr, u)
            for ori in [1, -1]:
                check(f"pareto_front[{n},{ori},{vname}]",
                      sutils.pareto_front, u, ori)
    u0 = np.round(RNG.normal(size=(12, 3)), 0)
    u0[3, 1] = np.nan
    for vname, u in variants2d(u0, with_int=False).items():
        check(f"pareto_front-nan[{vname}]", sutils.pareto_front, u)

    for n in [3, 4, 30]:
        X0 = np.round(RNG.normal(size=(n, 2)), 1)
        y0 = X0.sum(axis=1)+np.round(RNG.normal(size=n), 1)
        for (vx, X), (vy, y) in zip(variants2d(X0).items(),
                                    variants1d(y0).items()):
            for intercept in [False, True]:
                check(f"lstsq[{n},{intercept},{vx},{vy}]", sutils.lstsq,
                      X, y, add_intercept=intercept)
    X0 = RNG.normal(size=(20, 2))
    X0[2, 0] = np.nan
    y0 = RNG.normal(size=20)
    y0[5] = np.nan
    R = [np.array([[1., 0.], [0., 1.]])]
    r = [np.array([0., 0.5])]
    check("lstsq-nan-Rtest", sutils.lstsq, X0, y0, Rtest=R, rtest=r)
    check("lstsq-nan-df", sutils.lstsq, pd.DataFrame(X0, columns=["a", "b"]),
          pd.Series(y0), add_intercept=True)


# --------------------------------------------------------------------------
# stat.transform
# --------------------------------------------------------------------------
def run_transform():
    trans = []
    for name in transform.__all__:
        if name == "Softmax":
            continue
        tr = transform.get_transform(name)
        if name == "BoxCox1lam":
            tr.nu = 0.1
        elif name == "BoxCox1nu":
            tr.lam = 0.2
        elif name in ["LogSinh", "Manly"]:
            tr.xmax = 5.
        trans.append(tr)
    bc0 = transform.get_transform("BoxCox2", lam=0., nu=0.5)
    yj0 = transform.get_transform("YeoJohnson", lam=0.)
    yj2 = transform.get_transform("YeoJohnson", lam=2.)
    trans += [bc0, yj0, yj2]

    samples = {"n1": [0.3], "n2": [0.2, 0.7],
               "branch": [0., 1e-10, -1e-10, 0.5, 0.5, -0.5, 1., 0.],
               "withnan": [0.2, np.nan, 0.9, np.inf, -np.inf]}
    for itr, tr in enumerate(trans):
        for sname, s in samples.items():
            for vname, v in variants1d(s).items():
                lab = f"[{tr.name}#{itr},{sname},{vname}]"
                check("forward"+lab, tr.forward, v)
                check("backward"+lab, tr.backward, v)
                check("jacobian"+lab, tr.jacobian, v)
                check("backward_censored"+lab, tr.backward_censored, v,
                      censor=0.1)
        for vname, v in variants2d(RNG.uniform(0, 1, (4, 3))).items():
            lab = f"[{tr.name}#{itr},2d,{vname}]"
            check("forward"+lab, tr.forward, v)
            check("backward"+lab, tr.backward, v)
            check("jacobian"+lab, tr.jacobian, v)
        check(f"params_sample[{tr.name}#{itr}]", tr.params_sample, 5)

    sm = transform.Softmax()
    x0 = np.array([[0.1, 0.2, 0.3], [0.3, 0.3, 0.3], [0., 0.5, 0.1]])
    for vname, v in variants2d(x0).items():
        check(f"softmax-forward[{vname}]", sm.forward, v)
        check(f"softmax-backward[{vname}]", sm.backward, v)
        check(f"softmax-jacobian[{vname}]", sm.jacobian, v)
    for vname, v in variants1d([0.1, 0.2, 0.3]).items():
        check(f"softmax-forward1d[{vname}]", sm.forward, v)


# --------------------------------------------------------------------------
# data.dutils, data.qualitycontrol, data.signatures
# --------------------------------------------------------------------------
def run_data():
    for sname, s in samples1d().items():
        s = np.asarray(s, dtype=float)
        n = len(s)
        for vname, v in variants1d(s).items():
            lab = f"[{sname},{vname}]"
            check("sequence_true"+lab, dutils.sequence_true,
                  np.asarray(v) > 1)
            for lg in [0, 1, -1, 2, -2, n, n+3, -n-3]:
                check(f"lag{lg}"+lab, dutils.lag, v, lg)
            check("lag-missing"+lab, dutils.lag, v, 1, missing=-9)
            check("ismisscens"+lab, qualitycontrol.ismisscens, v)
            check("ismisscens-censor"+lab, qualitycontrol.ismisscens, v,
                  censor=1.)
            check("islinear"+lab, qualitycontrol.islinear, v)
            check("islinear-2"+lab, qualitycontrol.islinear, v, npoints=2,
                  thresh=0.5)
            check("eckhardt"+lab, signatures.eckhardt, v)
            check("eckhardt-hourly"+lab, signatures.eckhardt, v,
                  timestep_type=0, tau=100.)
            check("fdcslope"+lab, signatures.fdcslope, v, 10, 90)
            check("fdcslope-log"+lab, signatures.fdcslope, v, 10, 90,
                  trans=transform.Log())

            aggindex = (np.arange(n)//3).astype(np.int64)+200001
            for op in [0, 1, 2, 3]:
                check(f"aggregate-{op}"+lab, dutils.aggregate, aggindex, v,
                      operator=op)
            check("flathomogen"+lab, dutils.flathomogen, aggindex, v)
            check("goue"+lab, signatures.goue, aggindex, v)
            check("cast"+lab, dutils.cast, v, np.asarray(v)*2)

        # boolean input for sequence_true, strided
        b = np.zeros(2*n, dtype=bool)
        b[::2] = s > 1
        check(f"sequence_true-bool[{sname}]", dutils.sequence_true, b[::2])

    # aggregation index given in several forms
    v = np.arange(12.)
    for vname, ai in variants1d(np.repeat([1, 2, 5, 9], 3)).items():
        check(f"aggregate-index[{vname}]", dutils.aggregate, ai, v)
        check(f"flathomogen-index[{vname}]", dutils.flathomogen, ai, v)

    # nan allowed
    s = np.array([1., np.nan, 3., 4., 5., np.nan, np.nan, 2., 1., 0.])
    aggindex = np.arange(len(s))//4
    for vname, v in variants1d(s, with_int=False).items():
        lab = f"[nan,{vname}]"
        check("ismisscens"+lab, qualitycontrol.ismisscens, v)
        check("islinear"+lab, qualitycontrol.islinear, v)
        check("eckhardt"+lab, signatures.eckhardt, v)
        check("fdcslope"+lab, signatures.fdcslope, v, 10, 90)
        check("lag"+lab, dutils.lag, v, 2)
        for mx in [0, 1, 4]:
            check(f"aggregate-maxnan{mx}"+lab, dutils.aggregate, aggindex, v,
                  maxnan=mx)
            check(f"flathomogen-maxnan{mx}"+lab, dutils.flathomogen,
                  aggindex, v, maxnan=mx)

    # 2d
    x0 = np.round(RNG.uniform(-1, 3, (7, 3)), 0)
    x0n = x0.copy()
    x0n[2, 1] = np.nan
    for vname, v in variants2d(x0).items():
        check(f"ismisscens-2d[{vname}]", qualitycontrol.ismisscens, v)
        check(f"lag-2d[{vname}]", dutils.lag, v, 2)
    for vname, v in variants2d(x0n, with_int=False).items():
        check(f"ismisscens-2dnan[{vname}]", qualitycontrol.ismisscens, v)
        check(f"lag-2dnan[{vname}]", dutils.lag, v, -1)

    # time series functions
    days = pd.date_range("2000-01-01", "2004-12-31")
    check("dayofyear", dutils.dayofyear, days)
    for ts in ["D", "MS", "AS", "AS-JUL", "h"]:
        check(f"compute_aggindex-{ts}", dutils.compute_aggindex, days, ts)

    sed = pd.Series(np.round(RNG.uniform(0, 5, len(days)), 0), index=days)
    sed.iloc[10:14] = np.nan
    sei = pd.Series(np.arange(len(days)), index=days)
    for lab, se in [("float", sed), ("int", sei)]:
        for w in [1, 3, 5]:
            check(f"water_year_end-{w}[{lab}]", dutils.water_year_end, se,
                  convolve_window=w)

    for nm in [1, 2, 14]:
        months = pd.date_range("2001-01-01", periods=nm, freq="MS")
        vals = np.round(RNG.uniform(0, 100, nm), 0)
        sem = pd.Series(vals, index=months)
        semn = sem.copy()
        if nm > 2:
            semn.iloc[3] = np.nan
        semi = pd.Series(vals.astype(np.int64), index=months)
        for lab, se in [("float", sem), ("nan", semn), ("int", semi)]:
            for interp in ["flat", "cubic"]:
                check(f"monthly2daily-{interp}[{nm},{lab}]",
                      dutils.monthly2daily, se, interpolation=interp)

    # variable time step series
    for nv in [2, 3, 60]:
        secs = np.cumsum(np.round(RNG.uniform(60, 8000, nv), 0))
        t = pd.to_datetime("2010-03-01 00:10:00") \
            + pd.to_timedelta(secs, unit="s")
        vals = np.round(RNG.uniform(0, 5, nv), 1)
        sev = pd.Series(vals, index=t)
        sevn = sev.copy()
        sevn.iloc[1] = np.nan
        sevi = pd.Series(np.round(vals).astype(np.int64), index=t)
        for lab, se in [("float", sev), ("nan", sevn), ("int", sevi)]:
            for rain in [False, True]:
                for nbsec in [3600, 1800]:
                    check(f"var2h[{nv},{lab},{rain},{nbsec}]", dutils.var2h,
                          se, nbsec_per_period=nbsec, rainfall=rain)


# --------------------------------------------------------------------------
# gis
# --------------------------------------------------------------------------
FLOWDIR = [[0, 4, 4, 4, 0, 0],
           [0, 4, 4, 8, 0, 0],
           [0, 2, 4, 8, 0, 0],
           [0, 0, 2, 0, 0, 0],
           [0, 0, 0, 4, 0, 0],
           [0, 0, 0, 0, 0, 0]]


def flowdir_grid(dtype=np.int64):
    gr = Grid("fd", 6, 6, dtype=dtype, nodata=-1)
    gr.data = FLOWDIR
    return gr


def catchment_state(ca):
    return {k: (None if v is None else
                (v.values.copy() if hasattr(v, "values")
                 else np.array(v, copy=True)))
            for k, v in ca.__dict__.items() if k != "_flowdir"}


def run_gis():
    # ---- Grid methods
    for dtype in [np.float64, np.int32, np.float32, np.int64]:
        gr = Grid("test", 5, 7, cellsize=2., xllcorner=130., yllcorner=-39.,
                  dtype=dtype)
        gr.data = np.arange(35).reshape((7, 5)) % 11
        dn = np.dtype(dtype).name

        xy0 = np.array([[130., -39.], [131.99, -38.], [139.9, -25.1],
                        [134., -30.], [134., -30.], [132., -37.]])
        for vname, xy in variants2d(xy0).items():
            check(f"coord2cell[{dn},{vname}]", gr.coord2cell, xy)
            check(f"slice[{dn},{vname}]", gr.slice, xy)
        check(f"coord2cell[{dn},1point]", gr.coord2cell,
              np.array([131., -38.]))
        check(f"coord2cell[{dn},outside]", gr.coord2cell,
              np.array([[0., 0.]]))

        for vname, ic in variants1d([0, 34, 5, 5, 17, 4]).items():
            check(f"cell2coord[{dn},{vname}]", gr.cell2coord, ic)
            check(f"cell2rowcol[{dn},{vname}]", gr.cell2rowcol, ic)
        check(f"cell2coord[{dn},outside]", gr.cell2coord, np.array([35]))
        for ic in [0, 4, 17, 34]:
            check(f"neighbours[{dn},{ic}]", gr.neighbours, ic)

        check(f"clip[{dn}]", gr.clip, 131., -38., 137., -30.)
        check(f"clone[{dn}]", gr.clone, np.float64)
        check(f"apply[{dn}]", gr.apply, lambda x: x*2+1)

        other = Grid("other", 4, 4, cellsize=3., xllcorner=130.,
                     yllcorner=-39.)
        check(f"interpolate[{dn}]", gr.interpolate, other)
        check(f"interpolate-nearest[{dn}]", gr.interpolate, other,
              method="nearest")
        check(f"same_geometry[{dn}]", gr.same_geometry, other)

        poly0 = np.array([[131., -38.], [137., -38.5], [138., -28.],
                          [133., -30.], [131., -38.]])
        for vname, poly in variants2d(poly0).items():
            check(f"cells_inside_polygon[{dn},{vname}]",
                  gr.cells_inside_polygon, poly)

        # values assigned to a grid stay untouched
        val0 = np.arange(35.).reshape((7, 5))
        for vname, val in variants2d(val0).items():
            def setdata(v):
                g = gr.clone()
                g.data = v
                return g.data.copy()
            check(f"data-setter[{dn},{vname}]", setdata, val)

        def setitem(v):
            g = gr.clone()
            g[[0, 3, 6]] = v
            return g.data.copy()
        for vname, val in variants1d([3., 1., 2.]).items():
            check(f"setitem[{dn},{vname}]", setitem, val)

        # grid level functions
        check(f"gsmooth[{dn}]", gridmod.gsmooth, gr, coastwin=10, sigma=1.)
        mask = gr.clone(np.int32)
        mask.data = (np.arange(35).reshape((7, 5)) % 3 > 0).astype(int)
        check(f"gsmooth-mask[{dn}]", gridmod.gsmooth, gr, mask=mask,
              coastwin=10, sigma=1.)

    # ---- points_inside_polygon
    pts0 = np.round(RNG.uniform(0, 4, (30, 2)), 0)  # many on the border
    poly0 = np.array([[1., 1.], [3., 1.], [3., 3.], [1., 3.]])
    for (vp, pts), (vq, poly) in zip(variants2d(pts0).items(),
                                     variants2d(poly0).items()):
        check(f"points_inside_polygon[{vp}]", gutils.points_inside_polygon,
              pts, poly)
    check("points_inside_polygon[1 point]", gutils.points_inside_polygon,
          pts0[:1], poly0)
    check("points_inside_polygon[2 vertices]", gutils.points_inside_polygon,
          pts0, poly0[:2])

    # ---- Catchment
    for dtype in [np.int64, np.int32, np.float64]:
        dn = np.dtype(dtype).name
        fd = flowdir_grid(dtype)
        alt = Grid("alt", 6, 6, dtype=dtype)
        alt.data = (np.arange(36)[::-1].reshape((6, 6)) % 13)

        check(f"Catchment[{dn}]",
              lambda g: catchment_state(Catchment("c", g)), fd)

        ca = Catchment("test", fd)
        for vname, ic in variants1d([1, 7, 13, 14, 27, 35, 0, 7]).items():
            check(f"upstream[{dn},{vname}]", ca.upstream, ic)
            check(f"downstream[{dn},{vname}]", ca.downstream, ic)
        check(f"upstream[{dn},outside]", ca.upstream, np.array([36]))
        check(f"downstream[{dn},scalar]", ca.downstream, 7)

        def area(c, *args, **kwargs):
            c.delineate_area(*args, **kwargs)
            return catchment_state(c)

        def boundary(c, *args, **kwargs):
            c.delineate_boundary(*args, **kwargs)
            return catchment_state(c)

        def flowpaths(c):
            c.compute_flowpathlengths()
            return catchment_state(c)

        for outlet in [27, 14, 12, 1, 33]:
            check(f"delineate_area[{dn},{outlet}]", area, ca, outlet)
            check(f"delineate_boundary[{dn},{outlet}]", boundary, ca)
            check(f"compute_flowpathlengths[{dn},{outlet}]", flowpaths, ca)
            check(f"extent[{dn},{outlet}]", ca.extent)

        check(f"delineate_area[{dn},small buffer]", area, ca, 27, nval=3)

        for vname, inlets in variants1d([14, 13], with_pandas=False).items():
            check(f"delineate_area-inlets[{dn},{vname}]", area, ca, 27,
                  inlets)
            check(f"delineate_boundary-inlets[{dn},{vname}]", boundary, ca)

        # boundary with a mask supplied by the caller
        ca.delineate_area(27)
        mask0 = np.zeros(36)
        mask0[ca.idxcells_area_filled] = 1
        for vname, mask in variants1d(mask0, with_pandas=False).items():
            check(f"delineate_boundary-mask[{dn},{vname}]", boundary, ca,
                  mask)
        check(f"delineate_boundary-badmask[{dn}]", boundary, ca,
              np.zeros(36, dtype=np.int64))

        # catchment rebuilt from dict with unsorted cells
        dic = ca.to_dict()
        dic["idxcells_area_filled"] = dic["idxcells_area_filled"][::-1]
        check(f"from_dict+boundary[{dn}]",
              lambda d: boundary(Catchment.from_dict(d)), dic)
        try:
            ca3 = Catchment.from_dict(dic)
        except Exception:
            ca3 = None
        if ca3 is not None:
            filled0 = ca3._idxcells_area_filled.copy()
            check(f"boundary-unsorted[{dn}]", boundary, ca3)
            if not np.array_equal(np.sort(filled0),
                                  np.sort(ca3._idxcells_area_filled)):
                FAILS.append("boundary-unsorted: filled area cells changed")

        ca.delineate_area(27)
        ca.delineate_boundary()
        for filled in [False, True]:
            for cell in [0, 1, 27]:
                check(f"isin[{dn},{cell},{filled}]", ca.isin, cell,
                      filled=filled)
            gri = Grid("inter", 3, 3, xllcorner=fd.xllcorner+1,
                       yllcorner=fd.yllcorner+1, cellsize=2, dtype=dtype)
            gri.data = np.arange(9).reshape((3, 3))
            check(f"intersect[{dn},{filled}]", ca.intersect, gri,
                  filled=filled)

        ca2 = Catchment("test2", fd)
        ca2.delineate_area(14)
        check(f"add[{dn}]", lambda a, b: catchment_state(a+b), ca, ca2)
        check(f"sub[{dn}]", lambda a, b: catchment_state(a-b), ca, ca2)
        check(f"to_dict[{dn}]", lambda c: repr(c.to_dict()), ca)
        check(f"compute_area[{dn}]", ca.compute_area,
              lambda x, y: (x*1e3, y*1e3))

        xyp0 = np.array([[1.5, 5.5], [3.5, 2.5], [3.5, 2.5], [0., 0.]])
        for vname, xyp in variants2d(xyp0).items():
            check(f"voronoi[{dn},{vname}]", gridmod.voronoi, ca, xyp)
        check(f"voronoi[{dn},1 point]", gridmod.voronoi, ca, xyp0[:1])

        # grid level functions (fresh grids: they may convert the dtype)
        for start in [1, 3, 0, 33]:
            check(f"delineate_river[{dn},{start}]", gridmod.delineate_river,
                  flowdir_grid(dtype), start)
        check(f"delineate_river[{dn},outside]", gridmod.delineate_river,
              flowdir_grid(dtype), 36)
        check(f"accumulate[{dn}]", gridmod.accumulate, flowdir_grid(dtype))
        toacc = Grid("toacc", 6, 6, dtype=dtype)
        toacc.data = np.arange(36).reshape((6, 6)) % 5
        check(f"accumulate-field[{dn}]", gridmod.accumulate,
              flowdir_grid(dtype), toacc)
        check(f"accumulate-max[{dn}]", gridmod.accumulate,
              flowdir_grid(dtype), toacc, max_accumulated_cells=2)
        check(f"slope[{dn}]", gridmod.slope, flowdir_grid(dtype), alt)


# --------------------------------------------------------------------------
# plot
# --------------------------------------------------------------------------
def newax():
    """ Axes on a figure that is not registered in pyplot (faster) """
    return Figure().subplots()


def run_plot():
    samples = dict(samples1d())
    samples["withnan"] = [1., np.nan, 3., 2., 2., np.inf, 7., 1., 0.]
    samples["n4"] = [4., 1., 1., 3.]
    for sname, s in samples.items():
        isfin = np.all(np.isfinite(np.asarray(s, dtype=float)))
        for vname, v in variants1d(s, with_int=isfin).items():
            lab = f"[{sname},{vname}]"
            check("boxplot_stats"+lab, boxplot.boxplot_stats, v, 50., 90.)
            check("boxplot_stats-80-100"+lab, boxplot.boxplot_stats, v,
                  80., 100.)

            def qq(data, **kwargs):
                ax = newax()
                return putils.qqplot(ax, data, **kwargs), \
                    list(ax.get_lines())
            check("qqplot"+lab, qq, v)
            check("qqplot-line"+lab, qq, v, addline=True)
            check("qqplot-censor"+lab, qq, v, addline=True, censor=1.)

            def bx(data, **kwargs):
                ax = newax()
                bp = boxplot.Boxplot(data, **kwargs)
                bp.draw(ax=ax)
                return bp.stats
            check("Boxplot"+lab, bx, v)
            check("Boxplot-narrow"+lab, bx, v, style="narrow",
                  show_mean=True)

            def vl(data, draw=False, **kwargs):
                vp = violinplot.Violin(data, npoints_kde=20, **kwargs)
                if draw:
                    vp.draw(ax=newax())
                return vp.stats, vp.kde_x, vp.kde_y
            check("Violin"+lab, vl, v, draw=vname in ["c64", "series"])

    for n in [1, 2, 4, 30]:
        x0 = np.round(RNG.normal(size=(n, 3)), 1)   # ties
        x0n = x0.copy()
        x0n[0, 1] = np.nan
        for xx, wint in [(x0, True), (x0n, False)]:
            for vname, v in variants2d(xx, with_int=wint).items():
                lab = f"[{n},{wint},{vname}]"
                check("Boxplot-2d"+lab, bx, v)
                check("Violin-2d"+lab, vl, v, draw=vname == "dataframe")
                by = np.arange(n) % 2
                check("Boxplot-by"+lab, bx, np.asarray(v)[:, 0], by=by)
                check("Boxplot-by-series"+lab, bx, np.asarray(v)[:, 0],
                      by=pd.Series(by, name="cat"))

                def ecdf(df, **kwargs):
                    ax = newax()
                    return putils.ecdfplot(ax, df, **kwargs)
                df = pd.DataFrame(np.array(v), columns=list("abc"))
                check("ecdfplot"+lab, ecdf, df)
                check("ecdfplot-stat"+lab, ecdf, df, label_stat="mean",
                      cst=0.3)

    for n in [3, 4, 50]:
        xy0 = RNG.normal(size=(n, 2))
        xy0[:, 1] += xy0[:, 0]
        xyt = np.round(xy0, 0)     # ties
        for xx in [xy0, xyt]:
            for vname, v in variants2d(xx, with_pandas=False).items():
                check(f"kde[{n},{vname}]", putils.kde, v, ngrid=7)
                check(f"kde-noeps[{n},{vname}]", putils.kde, v, ngrid=7,
                      eps=0.)
            check(f"kde[{n},2xN]", putils.kde, np.ascontiguousarray(xx.T),
                  ngrid=7)


# --------------------------------------------------------------------------
# inputs OUTSIDE the quantifier of the property (lists, empty arrays, wrong
# shapes): the functions may accept or refuse them, but even then they must
# not touch them and must answer twice the same
# --------------------------------------------------------------------------
def run_outside():
    lst = [0.3, 0.1, 0.8, 0.1]
    lst2 = [[0.3, 0.1], [0.8, 0.1], [0.5, 0.5], [0.2, 0.9]]
    check("outside-ad[list]", metrics.anderson_darling_test, lst)
    check("outside-ad[empty]", metrics.anderson_darling_test, np.zeros(0))
    check("outside-ad[empty list]", metrics.anderson_darling_test, [])
    check("outside-cvm[list]", metrics.cramer_von_mises_test, lst)
    check("outside-cvm[empty]", metrics.cramer_von_mises_test, np.zeros(0))
    check("outside-crps[empty]", metrics.crps, np.zeros(0), np.zeros((0, 3)))
    check("outside-crps[allnan]", metrics.crps, np.full(3, np.nan),
          np.ones((3, 2)))
    check("outside-crps[3d obs]", metrics.crps, np.ones((2, 2, 2)),
          np.ones((2, 2)))
    check("outside-binary[3x3]", metrics.binary, np.ones((3, 3)))
    check("outside-confusion_matrix[list]", metrics.confusion_matrix,
          [0, 1, 1], [1, 1, 0])
    check("outside-pareto_front[list]", sutils.pareto_front, lst2)
    check("outside-pareto_front[1d]", sutils.pareto_front, np.array(lst))
    check("outside-lstsq[shape mismatch]", sutils.lstsq, np.ones((5, 2)),
          np.ones(4))
    check("outside-lstsq[bad Rtest]", sutils.lstsq,
          RNG.normal(size=(10, 2)), RNG.normal(size=10),
          Rtest=[np.ones(2)])
    check("outside-lstsq[bad rtest]", sutils.lstsq,
          RNG.normal(size=(10, 2)), RNG.normal(size=10),
          Rtest=[np.ones((1, 2))], rtest=[np.ones((1, 1))])
    check("outside-sequence_true[list]", dutils.sequence_true,
          [True, False, True, True])
    check("outside-sequence_true[int 0/1/2]", dutils.sequence_true,
          np.array([0, 2, 2, 0, 1]))
    check("outside-ismisscens[list]", qualitycontrol.ismisscens, lst)
    check("outside-ismisscens[3d]", qualitycontrol.ismisscens,
          np.ones((2, 2, 2)))
    check("outside-islinear[list]", qualitycontrol.islinear, lst)
    check("outside-islinear[2d]", qualitycontrol.islinear, np.ones((3, 2)))
    check("outside-kde[dataframe]", putils.kde,
          pd.DataFrame(RNG.normal(size=(20, 2))), ngrid=5)
    check("outside-kde[1d]", putils.kde, np.arange(5.))
    check("outside-points_inside_polygon[bad inside]",
          gutils.points_inside_polygon, np.ones((3, 2)), np.ones((3, 2)),
          inside=np.zeros(2, dtype=np.int32))

    fd = flowdir_grid()
    ca = Catchment("test", fd)
    ca.delineate_area(27)

    def boundary(c, mask):
        c.delineate_boundary(mask)
        return catchment_state(c)
    mask = np.zeros(36, dtype=np.int64)
    mask[ca.idxcells_area_filled] = 1
    check("outside-boundary[short mask]", boundary, ca, mask[:20])
    check("outside-boundary[2d mask]", boundary, ca, mask.reshape((6, 6)))
    check("outside-boundary[list mask]", boundary, ca, mask.tolist())
    dic = ca.to_dict()
    dic["idxcells_area_filled"] = [1, 2, 3, 700]
    check("outside-boundary[cell outside grid]",
          lambda d: boundary(Catchment.from_dict(d), None), dic)


def main():
    sections = [run_metrics, run_sutils, run_transform, run_data, run_gis,
                run_plot, run_outside]
    for sec in sections:
        n0 = NCHECKS[0]
        t0 = time.time()
        try:
            sec()
        except Exception:
            FAILS.append(f"{sec.__name__} crashed:\n"+traceback.format_exc())
        print(f"{sec.__name__:15s}: {NCHECKS[0]-n0} calls checked"
              + f" ({time.time()-t0:0.0f} sec)")

    print(f"{NCHECKS[0]} calls checked twice ({NCHECKS[1]} of them raise an "
          + f"exception, twice the same), {len(FAILS)} failures")
    if "-v" in sys.argv:
        for key, (n, nr, exc) in PERFUN.items():
            print(f"   {key:35s} {n:5d} calls, {nr:5d} raising {sorted(exc)}")
    for f in FAILS[:50]:
        print("FAIL:", f)

    return 1 if FAILS else 0


if __name__ == "__main__":
    sys.exit(main())
