""" Demo for property C19 (hydrodiy.io.hyruns).

Batches partition the work and option grids enumerate every combination
once. Run as

    PYTHONPATH=<tree>/src /venv/bin/python demo.py

Exits 0 when every check passes, 1 otherwise. Only inputs inside the
quantifier of the property are used, and only facts stated by the property
are checked (no listing order of equal-size batches, no error message text,
no array flags, no object identity).
"""
import os
import sys
import json
import random
import tempfile
import itertools
from numbers import Integral

import numpy as np

from hydrodiy.io import hyruns

NCHECKS = 0
FAILURES = []


def check(cond, msg):
    global NCHECKS
    NCHECKS += 1
    if not cond:
        FAILURES.append(msg)
        if len(FAILURES) > 20:
            finish()


def finish():
    print(f"{NCHECKS} checks, {len(FAILURES)} failures")
    for f in FAILURES[:20]:
        print("FAIL:", f)
    print("hyruns loaded from", hyruns.__file__)
    sys.exit(1 if FAILURES else 0)


def rejected(fun, *args):
    """ The call is rejected (an error is raised, nothing is returned) """
    try:
        fun(*args)
    except Exception:
        return True
    return False


# ---------------------------------------------------------------------
# 1. get_batch
# ---------------------------------------------------------------------
def check_partition(nelements, nbatch, order=None):
    """ Checks all the batches for one (nelements, nbatch) pair.
    The batches are requested in the order given (call history).
    """
    ibatches = list(range(nbatch)) if order is None else order
    got = {}
    for ib in ibatches:
        idx = hyruns.get_batch(nelements, nbatch, ib)
        idx = np.asarray(idx)
        got[ib] = idx.copy()

    tag = f"get_batch({nelements}, {nbatch}, .)"
    batches = [got[ib] for ib in range(nbatch)]
    for ib, idx in enumerate(batches):
        check(idx.ndim == 1, f"{tag}: batch {ib} not 1d")
        check(np.issubdtype(idx.dtype, np.integer),
              f"{tag}: batch {ib} not integer")
        check(len(idx) >= 1, f"{tag}: batch {ib} empty")
        # contiguous
        check(np.all(np.diff(idx) == 1), f"{tag}: batch {ib} not contiguous")

    # ordered: each batch starts right after the previous one
    check(batches[0][0] == 0, f"{tag}: first batch does not start at 0")
    for ib in range(1, nbatch):
        check(batches[ib][0] == batches[ib-1][-1]+1,
              f"{tag}: batch {ib} does not follow batch {ib-1}")
    check(batches[-1][-1] == nelements-1,
          f"{tag}: last batch does not end at nelements-1")

    # pairwise disjoint + cover every element exactly once
    allidx = np.concatenate(batches)
    check(len(allidx) == nelements, f"{tag}: wrong total size")
    check(np.array_equal(np.sort(allidx), np.arange(nelements)),
          f"{tag}: not an exact cover")
    counts = np.bincount(allidx, minlength=nelements)
    check(np.all(counts == 1), f"{tag}: some element not covered once")

    # size differ by at most one
    sizes = [len(b) for b in batches]
    check(max(sizes) - min(sizes) <= 1, f"{tag}: sizes differ by more than 1")
    return batches


def demo_get_batch():
    rnd = random.Random(5419)

    # exhaustive to a bound
    for nelements in range(1, 61):
        for nbatch in range(1, nelements+1):
            check_partition(nelements, nbatch)

    # same, batches asked in shuffled order and asked twice
    for nelements in range(1, 25):
        for nbatch in range(1, nelements+1):
            order = list(range(nbatch))*2
            rnd.shuffle(order)
            check_partition(nelements, nbatch, order)

    # numpy integers
    for nelements, nbatch in [(1, 1), (2, 1), (2, 2), (7, 3), (26, 5)]:
        check_partition(np.int64(nelements), np.int64(nbatch))

    # random beyond the bound, interleaved sizes
    for _ in range(150):
        nelements = rnd.randint(61, 20000)
        kind = rnd.random()
        if kind < 0.2:
            nbatch = nelements
        elif kind < 0.4:
            nbatch = rnd.randint(max(1, nelements-3), nelements)
        elif kind < 0.6:
            nbatch = rnd.randint(1, 4)
        else:
            nbatch = rnd.randint(1, nelements)
        if nbatch > 400:
            # all batches is too long, take a subset of indexes.
            ibs = sorted(set([0, 1, nbatch-2, nbatch-1]
                             + [rnd.randrange(nbatch) for _ in range(40)]))
            prev = None
            sizes = []
            for ib in ibs:
                idx = np.asarray(hyruns.get_batch(nelements, nbatch, ib))
                check(np.all(np.diff(idx) == 1) and len(idx) >= 1,
                      f"get_batch({nelements},{nbatch},{ib}) not contiguous")
                sizes.append(len(idx))
                if prev is not None:
                    pib, pidx = prev
                    if pib == ib-1:
                        check(idx[0] == pidx[-1]+1, "not following")
                    else:
                        check(idx[0] > pidx[-1], "not ordered")
                prev = (ib, idx)
            check(max(sizes)-min(sizes) <= 1, "sizes differ by more than 1")
            first = np.asarray(hyruns.get_batch(nelements, nbatch, 0))
            last = np.asarray(hyruns.get_batch(nelements, nbatch, nbatch-1))
            check(first[0] == 0 and last[-1] == nelements-1, "not covering")
        else:
            check_partition(nelements, nbatch)

    # one large case
    check_partition(1000003, 7)

    # rejected calls
    for nelements in range(1, 15):
        for nbatch in [nelements+1, nelements+2, 2*nelements+1, 1000]:
            for ib in [0, nbatch-1]:
                check(rejected(hyruns.get_batch, nelements, nbatch, ib),
                      f"get_batch({nelements},{nbatch},{ib}) not rejected")

        for nbatch in range(1, nelements+1):
            for ib in [-1, -2, -nbatch, nbatch, nbatch+1, nbatch+100]:
                check(rejected(hyruns.get_batch, nelements, nbatch, ib),
                      f"get_batch({nelements},{nbatch},{ib}) not rejected")

    # .. rejected calls do not disturb following calls
    check(rejected(hyruns.get_batch, 20, 40, 1), "not rejected")
    check_partition(20, 4)
    check(rejected(hyruns.get_batch, 20, 4, 4), "not rejected")
    check_partition(20, 4)


# ---------------------------------------------------------------------
# 2. SiteBatch
# ---------------------------------------------------------------------
def demo_sitebatch():
    rnd = random.Random(981)

    def sites(kind, n):
        if kind == "str":
            return [f"s{i:03d}" for i in range(n)]
        elif kind == "strmix":
            ss = [f"{'abcdefgh'[i % 8]}{i}" for i in range(n)]
            rnd.shuffle(ss)
            return ss
        elif kind == "int":
            ss = list(range(100, 100+n))
            rnd.shuffle(ss)
            return ss
        elif kind == "intneg":
            return [(-1)**i*(i+1) for i in range(n)]

    for kind in ["str", "strmix", "int", "intneg"]:
        for nsites in list(range(1, 14)) + [30, 101]:
            siteids = sites(kind, nsites)
            nbs = range(1, nsites+1) if nsites < 14 \
                else [1, 2, 7, nsites-1, nsites]
            for nbatch in nbs:
                sb = hyruns.SiteBatch(siteids, nbatch)
                tag = f"SiteBatch({kind},{nsites},{nbatch})"

                # content of batches
                content = []
                for ib in range(nbatch):
                    b = sb[ib]
                    idx = hyruns.get_batch(nsites, nbatch, ib)
                    expected = [siteids[i] for i in idx]
                    check(list(b) == expected, f"{tag}: wrong batch {ib}")
                    content.append(list(b))

                check(sum(content, []) == siteids,
                      f"{tag}: batches do not partition sites")

                # search, in random order, interleaved with __getitem__
                order = list(range(nsites))
                rnd.shuffle(order)
                for k, isite in enumerate(order):
                    sid = siteids[isite]
                    ib = sb.search(sid)
                    ok = isinstance(ib, Integral) and 0 <= ib < nbatch
                    check(ok, f"{tag}: search({sid}) returns {ib}")
                    if ok:
                        check(sid in content[ib],
                              f"{tag}: search({sid}) -> wrong batch {ib}")
                        check(sid in sb[ib],
                              f"{tag}: search({sid}) -> not in sb[{ib}]")
                    if k % 3 == 0:
                        sb[rnd.randrange(nbatch)]

                # second pass gives the same answers
                for isite in order[:5]:
                    sid = siteids[isite]
                    ib = sb.search(sid)
                    check(ib is not None and sid in content[ib],
                          f"{tag}: 2nd search({sid}) -> wrong batch {ib}")

                # rejected batch index
                check(rejected(sb.__getitem__, nbatch), f"{tag}: sb[nbatch]")
                check(rejected(sb.__getitem__, -1), f"{tag}: sb[-1]")

    # Two objects alive at the same time, interleaved
    s1 = sites("str", 11)
    s2 = sites("int", 11)
    sb1 = hyruns.SiteBatch(s1, 3)
    sb2 = hyruns.SiteBatch(s2, 4)
    for i in range(11):
        ib1 = sb1.search(s1[i])
        ib2 = sb2.search(s2[i])
        check(s1[i] in sb1[ib1], "interleaved sb1")
        check(s2[i] in sb2[ib2], "interleaved sb2")

    # numpy array / tuple of sites given
    sb = hyruns.SiteBatch(np.array(s2), 5)
    for sid in s2:
        check(sid in sb[sb.search(sid)], "array of sites")
    sb = hyruns.SiteBatch(tuple(s1), 2)
    for sid in s1:
        check(sid in sb[sb.search(sid)], "tuple of sites")


# ---------------------------------------------------------------------
# 3. OptionManager
# ---------------------------------------------------------------------
INTS = [1, 11, 2, 21, 12, -1, 0, 100, 10]
STRS = ["a", "ab", "ba", "b", "a_b", "A1", "abc", "_x", "Ab"]
CONTEXTS = [
    {},
    {"bidule": "test"},
    {"n": 3, "x": 0.5, "flag": True, "none": None},
    {"lst": [1, 2, 3], "dd": {"u": 1, "v": [1, "a"]}, "s": "a b c"},
    ]
RENAMES = [
    {},
    {"context_name": "config"},
    {"task_options_name": "items"},
    {"manager_options_name": "grid"},
    {"context_name": "ctx", "task_options_name": "opt",
     "manager_options_name": "opt"},
    {"context_name": "CONTEXT", "task_options_name": "task_values",
     "manager_options_name": "manager_values"},
    ]


def as_list(v):
    return v if isinstance(v, list) else [v]


def check_manager(options, context, do_file=False):
    """ options: dict name -> list of values or bare scalar """
    tag = f"options={options} context={context}"
    names = list(options.keys())
    expected = list(itertools.product(*[as_list(options[k]) for k in names]))

    opm = hyruns.OptionManager(**context)
    opm.from_cartesian_product(**options)

    # ... every combination exactly once
    check(opm.ntasks == len(expected), f"{tag}: wrong ntasks")
    got = []
    for taskid in range(opm.ntasks):
        task = opm.get_task(taskid)
        check(set(task.options.keys()) == set(names), f"{tag}: wrong keys")
        check(task.taskid == taskid, f"{tag}: wrong taskid")
        got.append(tuple(task.options[k] for k in names))
        for k in names:
            check(task[k] == task.options[k], f"{tag}: task[{k}]")
        for k, v in context.items():
            check(task.context[k] == v, f"{tag}: task context")

    check(len(set(got)) == len(got), f"{tag}: duplicated combination")
    check(set(got) == set(expected), f"{tag}: missing combination")
    check(sorted(map(repr, got)) == sorted(map(repr, expected)),
          f"{tag}: wrong multiset of combinations")
    check([tuple(t[k] for k in names) for t in opm.tasks] == got,
          f"{tag}: tasks attribute different from get_task")

    # ... round trip via dict
    dd = opm.to_dict()
    opm2 = hyruns.OptionManager.from_dict(dd)
    check(opm == opm2, f"{tag}: dict round trip opm==opm2")
    check(opm2 == opm, f"{tag}: dict round trip opm2==opm")
    check(opm2.ntasks == opm.ntasks, f"{tag}: dict round trip ntasks")

    # ... round trip via json
    txt = json.dumps(dd)
    opm3 = hyruns.OptionManager.from_dict(json.loads(txt))
    check(opm == opm3, f"{tag}: json round trip opm==opm3")
    check(opm3 == opm, f"{tag}: json round trip opm3==opm")
    check(opm2 == opm3 and opm3 == opm2, f"{tag}: opm2 vs opm3")
    got3 = [tuple(opm3.get_task(i).options[k] for k in names)
            for i in range(opm3.ntasks)]
    check(got3 == got, f"{tag}: json round trip changed the tasks")
    check(opm3.context == context, f"{tag}: json round trip context")

    # ... twice
    opm4 = hyruns.OptionManager.from_dict(
        json.loads(json.dumps(opm3.to_dict())))
    check(opm == opm4 and opm4 == opm, f"{tag}: double json round trip")

    if do_file:
        here = os.path.dirname(os.path.abspath(__file__))
        fd, fname = tempfile.mkstemp(suffix=".json", dir=here)
        os.close(fd)
        try:
            opm.save(fname, overwrite=True)
            opm5 = hyruns.OptionManager.from_file(fname, wait_secs=0)
            check(opm == opm5 and opm5 == opm, f"{tag}: file round trip")
        finally:
            os.remove(fname)

    # ... not equal to a different grid (equality is not trivial)
    other = {k: as_list(v) for k, v in options.items()}
    k0 = names[0]
    other[k0] = other[k0] + ["zzz_other"]
    opmo = hyruns.OptionManager(**context)
    opmo.from_cartesian_product(**other)
    check(not (opm == opmo) and not (opmo == opm),
          f"{tag}: equal to a different grid")

    # ... find
    for mgr in [opm, opm3]:
        for k in names:
            for v in as_list(options[k]):
                found = mgr.find(**{k: v})
                exp = [i for i, t in enumerate(expected)
                       if t[names.index(k)] == v]
                check(list(found) == exp, f"{tag}: find({k}={v}) -> {found}")
                check(len(exp) == len(expected)//len(as_list(options[k])),
                      "demo error")

        # two criteria
        if len(names) >= 2:
            k1, k2 = names[0], names[-1]
            for v1 in as_list(options[k1]):
                for v2 in as_list(options[k2]):
                    found = mgr.find(**{k1: v1, k2: v2})
                    exp = [i for i, t in enumerate(expected)
                           if t[0] == v1 and t[-1] == v2]
                    check(list(found) == exp,
                          f"{tag}: find({k1}={v1}, {k2}={v2}) -> {found}")

        # all criteria -> one task
        for i in [0, len(expected)//2, len(expected)-1]:
            crit = dict(zip(names, expected[i]))
            found = mgr.find(**crit)
            check(list(found) == [i], f"{tag}: find({crit}) -> {found}")

        # value not in the grid
        for k in names:
            for v in [987, "zz", "a1", 3]:
                if v in as_list(options[k]):
                    continue
                found = mgr.find(**{k: v})
                check(list(found) == [], f"{tag}: find({k}={v}) -> {found}")

    return opm


def demo_option_manager():
    rnd = random.Random(3307)
    names_all = ["v1", "opt_b", "month", "X"]

    # -- exhaustive over the shape of the grid, values of alternating kinds
    nshapes = 0
    for nopt in range(1, 5):
        for shape in itertools.product(range(1, 6), repeat=nopt):
            if nopt == 4 and rnd.random() > 0.15 \
                    and shape not in [(5, 5, 5, 5), (1, 1, 1, 1),
                                      (1, 5, 1, 5), (2, 2, 2, 2)]:
                continue
            options = {}
            for i, (name, nval) in enumerate(zip(names_all, shape)):
                kind = (i + sum(shape)) % 3
                if kind == 0:
                    vals = INTS[:nval]
                elif kind == 1:
                    vals = STRS[:nval]
                else:
                    vals = rnd.sample(INTS, nval)
                options[name] = list(vals)
            context = CONTEXTS[nshapes % len(CONTEXTS)]
            check_manager(options, context, do_file=(nshapes % 97 == 0))
            nshapes += 1

    # -- random grids with bare scalars, shuffled values
    for _ in range(150):
        nopt = rnd.randint(1, 4)
        options = {}
        for name in rnd.sample(names_all, nopt):
            nval = rnd.randint(1, 5)
            pool = INTS if rnd.random() < 0.5 else STRS
            vals = rnd.sample(pool, nval)
            if nval == 1 and rnd.random() < 0.7:
                vals = vals[0]
            options[name] = vals
        check_manager(options, rnd.choice(CONTEXTS))

    # -- bare scalars of every kind
    check_manager({"v1": "a"}, {})
    check_manager({"v1": 1}, {})
    check_manager({"v1": 0.5}, {"bidule": "test"})
    check_manager({"v1": "a", "v2": 3, "v3": 2.5, "v4": "x_y"}, CONTEXTS[2])
    check_manager({"v1": "a", "v2": [1, 2, 3]}, CONTEXTS[3])
    check_manager({"v1": ["a", "b"], "v2": 7, "v3": ["u", "v"]}, {})

    # -- same manager object re-used (call history)
    opm = hyruns.OptionManager(bidule="test")
    opm.from_cartesian_product(v1=["a", "b"], v2=[1, 2, 3])
    t0 = opm.get_task(0)
    check(opm.ntasks == 6 and t0.v1 == "a" and t0.v2 == 1, "reuse 1")
    check(list(opm.find(v2=3)) == [2, 5], "reuse find 1")
    opm.from_cartesian_product(v3=[5, 6], v1=["c", "d"])
    check(opm.ntasks == 4, "reuse 2 ntasks")
    combos = [(opm.get_task(i).v3, opm.get_task(i).v1) for i in range(4)]
    check(sorted(combos) == [(5, "c"), (5, "d"), (6, "c"), (6, "d")],
          "reuse 2 combos")
    check(list(opm.find(v1="d")) == [i for i in range(4)
                                     if combos[i][1] == "d"], "reuse find 2")
    opm2 = hyruns.OptionManager.from_dict(opm.to_dict())
    check(opm == opm2 and opm2 == opm, "reuse round trip")
    check(opm2.get_task(3).options == opm.get_task(3).options, "reuse task")

    # -- renamed dictionary keys
    try:
        for irename, rename in enumerate(RENAMES):
            hyruns.reset_dict_keyname()
            for key, name in rename.items():
                hyruns.set_dict_keyname(key, name)

            for icase in range(12):
                nopt = rnd.randint(1, 4)
                options = {}
                for name in rnd.sample(names_all, nopt):
                    nval = rnd.randint(1, 5)
                    pool = INTS if rnd.random() < 0.5 else STRS
                    vals = rnd.sample(pool, nval)
                    if nval == 1 and rnd.random() < 0.5:
                        vals = vals[0]
                    options[name] = vals
                context = CONTEXTS[icase % len(CONTEXTS)]
                opm = check_manager(options, context,
                                    do_file=(icase == 0))

                # Names are used in dict
                dd = opm.to_dict()
                cn = rename.get("context_name", "context")
                mn = rename.get("manager_options_name", "options")
                tn = rename.get("task_options_name", "options")
                check(set(dd.keys()) == set(["name", "tasks", cn, mn]),
                      f"rename {rename}: manager keys {list(dd.keys())}")
                for t in dd["tasks"]:
                    check(set(t.keys()) == set(["taskid", cn, tn]),
                          f"rename {rename}: task keys {list(t.keys())}")

        # dict written with a name, then name reset, then name set again
        hyruns.reset_dict_keyname()
        hyruns.set_dict_keyname("context_name", "config")
        opm = hyruns.OptionManager(bidule="test")
        opm.from_cartesian_product(v1=["a", "b"], v2=[1, 2, 3])
        txt = json.dumps(opm.to_dict())
        hyruns.reset_dict_keyname()
        hyruns.set_dict_keyname("context_name", "config")
        opm2 = hyruns.OptionManager.from_dict(json.loads(txt))
        check(opm == opm2 and opm2 == opm, "rename/reset/rename round trip")

    finally:
        hyruns.reset_dict_keyname()

    # back to default names
    opm = check_manager({"v1": ["a", "b"], "v2": [1, 2, 3]},
                        {"bidule": "test"})
    check(set(opm.to_dict().keys())
          == set(["name", "tasks", "context", "options"]),
          "default names not restored")

# ---------------------------------------------------------------------
# 4. Call histories: earlier results stay valid, objects modified between
#    calls are still answered correctly
# ---------------------------------------------------------------------
def demo_histories():
    rnd = random.Random(77)

    # Results of get_batch kept (not copied) while many other calls are made
    # with smaller and larger number of elements.
    kept = []
    for nelements in [1, 2, 3, 10, 500, 1023, 1024, 1025, 3000, 5, 70000, 7,
                      150000, 2, 1]:
        for nbatch in sorted(set([1, min(2, nelements), max(1, nelements//3),
                                  nelements])):
            for ib in sorted(set([0, nbatch//2, nbatch-1])):
                idx = hyruns.get_batch(nelements, nbatch, ib)
                kept.append((nelements, nbatch, ib, idx,
                             np.array(idx, copy=True)))
        check(rejected(hyruns.get_batch, nelements, nelements+1, 0),
              "not rejected")

    for nelements, nbatch, ib, idx, idxcopy in kept:
        tag = f"get_batch({nelements},{nbatch},{ib})"
        check(np.array_equal(np.asarray(idx), idxcopy),
              f"{tag}: result changed after later calls")
        again = np.asarray(hyruns.get_batch(nelements, nbatch, ib))
        check(np.array_equal(again, idxcopy),
              f"{tag}: second call gives a different result")
        check(len(idxcopy) >= 1 and np.all(np.diff(idxcopy) == 1),
              f"{tag}: not contiguous")

    for nelements, nbatch in [(10, 3), (1025, 1025), (70000, 23333)]:
        check_partition(nelements, nbatch)

    # SiteBatch modified between searches
    siteids = [f"id{i}" for i in range(17)]
    sb = hyruns.SiteBatch(siteids, 4)
    for sid in siteids:
        check(sid in sb[sb.search(sid)], "history sb 1")

    for nbatch in [5, 17, 1, 4, 2]:
        sb.nbatch = nbatch
        for sid in rnd.sample(siteids, 9):
            ib = sb.search(sid)
            check(isinstance(ib, Integral) and 0 <= ib < nbatch
                  and sid in sb[ib], f"history sb nbatch={nbatch}")
            idx = hyruns.get_batch(17, nbatch, ib)
            check(siteids.index(sid) in list(idx),
                  f"history sb nbatch={nbatch}, wrong batch")

    # .. sites swapped in place
    sb.nbatch = 4
    check(sb.search("id0") == 0 and sb.search("id16") == 3, "history sb 2")
    sb.siteids[0], sb.siteids[16] = "id16", "id0"
    check("id16" in sb[0] and "id0" in sb[3], "history sb swap")
    check(sb.search("id0") == 3 and sb.search("id16") == 0, "history sb 3")
    for sid in siteids:
        check(sid in sb[sb.search(sid)], "history sb 4")

    # .. new list of sites
    sb.siteids = np.array([f"x{i}" for i in range(17)])
    for sid in sb.siteids.tolist():
        check(sid in sb[sb.search(sid)], "history sb 5")

    # OptionManager modified between calls
    opm = hyruns.OptionManager(bidule="test")
    opm.from_cartesian_product(v1=["a", "b"], v2=[1, 2, 3])
    t1 = opm.get_task(4)
    t2 = opm.get_task(4)
    check(t1.taskid == 4 and t2.taskid == 4, "history opm taskid")
    check(t1.options == {"v1": "b", "v2": 2} and t2.options == t1.options,
          "history opm options")
    check(t1.context == {"bidule": "test"}, "history opm context")

    opm.context = {"bidule": "other", "n": 1}
    t3 = opm.get_task(4)
    check(t3.context == {"bidule": "other", "n": 1} and t3.bidule == "other",
          "history opm new context")
    check(t3.options == {"v1": "b", "v2": 2}, "history opm new context opt")
    opm2 = hyruns.OptionManager.from_dict(
        json.loads(json.dumps(opm.to_dict())))
    check(opm == opm2 and opm2 == opm, "history opm round trip")
    check(opm2.get_task(4).context == {"bidule": "other", "n": 1},
          "history opm round trip context")

    opm.from_cartesian_product(v2=[7, 8], v1=["c", "d", "e"])
    t4 = opm.get_task(4)
    check(t4.options == {"v2": 8, "v1": "d"} or
          (t4.v1, t4.v2) in [(c, n) for c in "cde" for n in [7, 8]],
          "history opm new grid")
    combos = [(opm.get_task(i).v2, opm.get_task(i).v1) for i in range(6)]
    check(sorted(combos) == sorted(itertools.product([7, 8], "cde")),
          "history opm new grid combos")
    for i in range(6):
        v2, v1 = combos[i]
        check(i in opm.find(v1=v1) and i in opm.find(v2=v2)
              and list(opm.find(v1=v1, v2=v2)) == [i], "history opm find")
    check(rejected(opm.get_task, 6) and rejected(opm.get_task, -1),
          "history opm get_task not rejected")

    # find called many times with same / different values
    for _ in range(3):
        for v in [7, 8]:
            check(list(opm.find(v2=v)) == [i for i in range(6)
                                           if combos[i][0] == v],
                  "history repeated find")
        check(list(opm.find(v2=78)) == [], "history find absent")


if __name__ == "__main__":
    demo_get_batch()
    demo_sitebatch()
    demo_option_manager()
    demo_histories()
    finish()
