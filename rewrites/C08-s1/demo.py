#!/usr/bin/env python
""" Check of property C08: temporal aggregation and disaggregation reduce by
group and conserve totals (hydrodiy.data.dutils.aggregate, flathomogen and
monthly2daily).

Usage:  PYTHONPATH=<tree>/src /venv/bin/python demo.py
Exit status 0 if all checks pass, 1 otherwise.

Only inputs inside the quantifier of the property are used:
* aggregate/flathomogen: non-decreasing index vectors (constant, strictly
  increasing, runs of any length, negative values, values at both ends of
  the int32 range), float64 inputs of the same length >= 1 (negative values,
  zeros, ties, NaN leading / trailing / filling whole groups), operators 0..3,
  maxnan from 0 to beyond the group length. A group with no valid value is
  checked for the sum operator only.
* an index that decreases somewhere has to raise (any exception class).
* monthly2daily flat and cubic: complete month-start series of 2 to 480
  months, starting in any month, leap years and century years included,
  non-negative values.

Sums and means are compared with exact rational arithmetic, with a tolerance
of (n+8) ulps of the sum of absolute values of a group of n values, so that
any summation order is accepted. Maxima and last values have to be exact.
Calls are also repeated and interleaved (part "history") so that the result
of a call cannot depend on the calls made before.
"""
import sys
import math
import itertools
import warnings
from fractions import Fraction

import numpy as np
import pandas as pd

from hydrodiy.data import dutils

warnings.filterwarnings("ignore")

EPS = float(np.finfo(np.float64).eps)
IMIN = -2**31
IMAX = 2**31-1
NAN = float("nan")

STATS = {"checks": 0, "failures": 0}


def expect(cond, msg):
    STATS["checks"] += 1
    if not cond:
        STATS["failures"] += 1
        if STATS["failures"] <= 30:
            print("FAILED:", msg)


# ------------------------------------------------------------------------
# Reference
# ------------------------------------------------------------------------
def runs_of(index):
    """ (start, stop) of each run of equal values """
    index = list(index)
    cuts = [0]+[i for i in range(1, len(index)) if index[i] != index[i-1]]
    return list(zip(cuts, cuts[1:]+[len(index)]))


def exact_sum(values):
    """ Exact sum as a Fraction. Returns a float inf if an inf is there """
    if any(math.isinf(v) for v in values):
        tot = sum(values)
        return tot
    return sum((Fraction(v) for v in values), Fraction(0))


def same(got, expected, tol):
    got = float(got)
    if isinstance(expected, float) and math.isnan(expected):
        return math.isnan(got)
    if isinstance(expected, float) and math.isinf(expected):
        return got == expected
    if math.isnan(got) or math.isinf(got):
        return False
    return abs(Fraction(got)-Fraction(expected)) <= Fraction(tol)


def reference(values, op, maxnan):
    """ Expected aggregate of one group: (is_constrained, value, tol) """
    valid = [v for v in values if not math.isnan(v)]
    nmiss = len(values)-len(valid)
    if nmiss > maxnan:
        return True, NAN, 0.
    if not valid:
        return op == 0, Fraction(0), 0.
    if op == 2:
        return True, max(valid), 0.
    if op == 3:
        return True, valid[-1], 0.
    tot = exact_sum(valid)
    if isinstance(tot, float):
        # infinite (or nan if both signs) total
        return True, tot, 0.
    tol = (len(valid)+8)*EPS*float(sum(abs(Fraction(v)) for v in valid))
    tol += 1e-320
    if op == 1:
        return True, tot/len(valid), tol/len(valid)
    return True, tot, tol


def describe(fun, index, inputs, *args):
    index = np.asarray(index).tolist()
    inputs = np.asarray(inputs).tolist()
    return f"{fun}(index={index[:10]}{'..' if len(index) > 10 else ''}, "\
           + f"inputs={inputs[:10]}{'..' if len(inputs) > 10 else ''}, "\
           + ", ".join(str(a) for a in args)+")"


def verify_aggregate(index, inputs, op, maxnan, out=None):
    """ Run aggregate (unless out is given) and compare with reference """
    idx0 = np.array(index, copy=True)
    inp0 = np.array(inputs, copy=True)
    if out is None:
        out = dutils.aggregate(index, inputs, operator=op, maxnan=maxnan)
        expect(np.array_equal(np.asarray(index), idx0)
               and np.array_equal(inputs, inp0, equal_nan=True),
               "arguments modified by aggregate")
    what = describe("aggregate", idx0, inp0, f"op={op}", f"maxnan={maxnan}")
    runs = runs_of(idx0.tolist())
    ok = isinstance(out, np.ndarray) and out.ndim == 1 \
        and out.dtype == np.float64
    expect(ok, what+" does not return a 1d float64 array")
    expect(len(out) == len(runs), what+f" returns {len(out)} values, "
           + f"expected {len(runs)}")
    if not ok or len(out) != len(runs):
        return out
    values = inp0.tolist()
    for k, (i0, i1) in enumerate(runs):
        constrained, ref, tol = reference(values[i0:i1], op, maxnan)
        if constrained:
            expect(same(out[k], ref, tol), what+f": group {k} is {out[k]!r},"
                   + f" expected {float(ref)!r}")
    return out


def verify_flathomogen(index, inputs, maxnan, out=None):
    idx0 = np.array(index, copy=True)
    inp0 = np.array(inputs, copy=True)
    if out is None:
        out = dutils.flathomogen(index, inputs, maxnan)
        expect(np.array_equal(np.asarray(index), idx0)
               and np.array_equal(inputs, inp0, equal_nan=True),
               "arguments modified by flathomogen")
    what = describe("flathomogen", idx0, inp0, f"maxnan={maxnan}")
    ok = isinstance(out, np.ndarray) and out.shape == inp0.shape \
        and out.dtype == np.float64
    expect(ok, what+" does not return a float64 array like inputs")
    if not ok:
        return out
    values = inp0.tolist()
    res = out.tolist()
    for i0, i1 in runs_of(idx0.tolist()):
        grp = values[i0:i1]
        valid = [v for v in grp if not math.isnan(v)]
        nmiss = len(grp)-len(valid)
        # missing stays missing
        expect(all(math.isnan(res[j]) for j in range(i0, i1)
                   if math.isnan(values[j])),
               what+f": missing value not kept missing in [{i0}, {i1}[")
        if not valid:
            continue
        got = [res[j] for j in range(i0, i1) if not math.isnan(values[j])]
        if nmiss > maxnan:
            # too many missing values to compute a mean
            expect(all(math.isnan(g) for g in got),
                   what+f": expected nan in [{i0}, {i1}[")
            continue
        _, mean, tol = reference(grp, 1, len(grp))
        expect(all(same(g, mean, tol) for g in got),
               what+f": [{i0}, {i1}[ is {got[:5]}, expected "
               + f"{float(mean)!r}")
        # flat
        expect(all(g == got[0] or (math.isnan(g) and math.isnan(got[0]))
                   for g in got), what+f": [{i0}, {i1}[ is not flat")
        # total of the group
        _, tot, tol = reference(grp, 0, len(grp))
        if not isinstance(tot, float) \
                and not any(math.isnan(g) or math.isinf(g) for g in got):
            expect(same(float(exact_sum(got)), tot, 2*tol),
                   what+f": total of [{i0}, {i1}[ not preserved")
    return out


def verify_totals(index, inputs):
    """ The aggregated sums add up to the sum of the inputs """
    valid = [v for v in np.asarray(inputs).tolist() if not math.isnan(v)]
    if any(math.isinf(v) for v in valid):
        return
    tot = exact_sum(valid)
    tol = (len(valid)+8)*EPS*float(sum(abs(Fraction(v)) for v in valid))
    out = dutils.aggregate(index, inputs, operator=0, maxnan=len(inputs))
    expect(same(float(exact_sum(out.tolist())), tot, 2*tol+1e-320),
           describe("aggregate", index, inputs)+": total not conserved")
    if len(valid) == len(inputs):
        out = dutils.aggregate(index, inputs)
        expect(same(float(exact_sum(out.tolist())), tot, 2*tol+1e-320),
               describe("aggregate", index, inputs)
               + ": total not conserved (default arguments)")


def verify_all(index, inputs, maxnans):
    for maxnan in maxnans:
        for op in range(4):
            verify_aggregate(index, inputs, op, maxnan)
        verify_flathomogen(index, inputs, maxnan)
    verify_totals(index, inputs)


def verify_error(index, inputs):
    for maxnan in [0, len(inputs)+1]:
        calls = [(dutils.aggregate, (index, inputs, op, maxnan))
                 for op in range(4)]
        calls.append((dutils.flathomogen, (index, inputs, maxnan)))
        for fun, args in calls:
            try:
                out = fun(*args)
            except Exception:
                expect(True, "")
            else:
                expect(False, describe(fun.__name__, index, inputs, *args[2:])
                       + f" returns {out.tolist()[:10]} with a decreasing "
                       + "index, expected an error")


# ------------------------------------------------------------------------
# Index values for a list of run lengths
# ------------------------------------------------------------------------
LAYOUTS = ["from0", "months", "negative", "around0", "bottom", "top",
           "ends", "sparse"]


def make_index(lengths, layout, dtype=np.int64):
    ngr = len(lengths)
    if layout == "from0":
        labels = np.arange(ngr)
    elif layout == "months":
        labels = np.array([(1999+(10+k)//12)*100+(10+k) % 12+1
                           for k in range(ngr)])
    elif layout == "negative":
        labels = -7*ngr+7*np.arange(ngr)-1
    elif layout == "around0":
        labels = np.arange(ngr)-ngr//2
    elif layout == "bottom":
        labels = IMIN+np.arange(ngr)
    elif layout == "top":
        labels = IMAX-(ngr-1)+np.arange(ngr)
    elif layout == "ends":
        labels = np.linspace(IMIN, IMAX, ngr).round() if ngr > 1 \
            else np.array([IMIN])
        labels[0] = IMIN
        labels[-1] = IMAX if ngr > 1 else IMIN
    elif layout == "sparse":
        labels = np.cumsum((np.arange(ngr) % 37)**2*1000+1)-500000
    labels = np.asarray(labels).astype(np.int64)
    assert np.all(np.diff(labels) > 0) and labels[0] >= IMIN \
        and labels[-1] <= IMAX
    return np.repeat(labels, lengths).astype(dtype)


def all_run_lengths(n):
    for cuts in itertools.product([False, True], repeat=n-1):
        lengths = [1]
        for c in cuts:
            if c:
                lengths.append(1)
            else:
                lengths[-1] += 1
        yield lengths


# ------------------------------------------------------------------------
def part_small():
    """ Every run layout and NaN pattern for 1 to 6 values """
    pool = [-2., 0.5, 0.5, -0., 1e-3, -7.25, 3., 0.5]
    count = 0
    for n in range(1, 7):
        for lengths in all_run_lengths(n):
            for nanpos in itertools.product([0, 1], repeat=n):
                count += 1
                inputs = np.array(pool[count % 3:][:n])
                inputs[np.array(nanpos, dtype=bool)] = np.nan
                layout = LAYOUTS[count % len(LAYOUTS)]
                dtype = [np.int64, np.int32][count % 2]
                index = make_index(lengths, layout, dtype)
                verify_all(index, inputs, range(n+2))


def part_special():
    """ Hand picked cases """
    cases = [
        # one and two values
        ([5], [2.]), ([5], [NAN]), ([IMIN], [-1.]), ([IMAX], [0.]),
        ([-3], [-0.]),
        ([1, 1], [1., 2.]), ([1, 2], [1., 2.]), ([1, 1], [NAN, 2.]),
        ([1, 1], [2., NAN]), ([1, 2], [NAN, 2.]), ([1, 2], [2., NAN]),
        ([1, 1], [NAN, NAN]), ([IMIN, IMAX], [3., -3.]),
        ([IMIN, IMIN], [3., -3.]), ([IMAX, IMAX], [NAN, -3.]),
        ([-1, 0], [1., 1.]), ([IMAX-1, IMAX], [1., NAN]),
        # negative values only: max is not 0, mean is not 0
        ([2, 2, 2], [-5., -2., -9.]), ([2, 2, 3], [-5., -2., -9.]),
        # max first, last, repeated, next to nan
        ([0, 0, 0, 0], [8., 1., 2., 3.]), ([0, 0, 0, 0], [1., 2., 3., 8.]),
        ([0, 0, 0, 0], [8., 1., 8., 3.]), ([0, 0, 0, 0], [NAN, 8., NAN, 7.]),
        ([0, 0, 0, 0], [NAN, -8., NAN, -7.]),
        # tail: last valid value, not last value
        ([0, 0, 0, 1], [4., 5., NAN, 6.]), ([0, 0, 0, 0], [4., NAN, NAN, NAN]),
        ([0, 1, 1, 1], [4., NAN, 5., NAN]),
        # group filled with nan at the start, in the middle, at the end
        ([1, 1, 2, 2, 3, 3], [NAN, NAN, 1., 2., 3., 4.]),
        ([1, 1, 2, 2, 3, 3], [1., 2., NAN, NAN, 3., 4.]),
        ([1, 1, 2, 2, 3, 3], [1., 2., 3., 4., NAN, NAN]),
        ([1, 2, 3], [NAN, NAN, NAN]), ([1, 1, 1], [NAN, NAN, NAN]),
        # leading and trailing nan
        ([1, 1, 1, 2, 2, 2], [NAN, 1., 2., 3., 4., NAN]),
        # zeros
        ([1, 1, 1, 2], [0., 0., 0., 0.]), ([1, 1, 2, 2], [-0., -0., 0., -0.]),
        ([1, 1, 1], [0., NAN, -0.]),
        # cancellations, large and small magnitudes
        ([1, 1, 1, 1], [1e16, 1., -1e16, 1.]),
        ([1, 1, 1, 1, 1], [1., 1e100, 1., -1e100, 1e-100]),
        ([1, 1, 2, 2], [1e-310, 2e-310, 5e-324, -5e-324]),
        ([1, 1, 2, 2], [1e307, 1e307, -1e307, -1e307]),
        # infinite values, one sign by group
        ([1, 1, 1, 2, 2], [1., np.inf, NAN, -np.inf, -np.inf]),
    ]
    for index, inputs in cases:
        n = len(index)
        for dtype in [np.int32, np.int64]:
            verify_all(np.array(index, dtype=dtype), np.array(inputs),
                       range(n+2))
        # index given as a list and as a pandas index
        verify_all(index, np.array(inputs), [0, 1, n])
        verify_all(pd.Index(index), np.array(inputs), [0, 1, n])

    # Spelled out results
    index = np.array([200012]*4+[200101]*3+[200102]*2)
    inputs = np.array([1., 5., NAN, 2., -1., -3., -2., NAN, NAN])
    table = {
        (0, 0): [NAN, -6., NAN], (0, 1): [8., -6., NAN], (0, 2): [8., -6., 0.],
        (1, 0): [NAN, -2., NAN], (1, 1): [8./3, -2., NAN],
        (2, 0): [NAN, -1., NAN], (2, 1): [5., -1., NAN],
        (3, 0): [NAN, -2., NAN], (3, 1): [2., -2., NAN],
    }
    for (op, maxnan), ref in table.items():
        out = dutils.aggregate(index, inputs, op, maxnan)
        expect(len(out) == 3 and all(
            (math.isnan(r) and math.isnan(o)) or abs(o-r) <= 2*EPS*abs(r)
            for o, r in zip(out, ref)),
            f"spelled out aggregate op={op} maxnan={maxnan}: {out}")
    out = dutils.flathomogen(index, inputs, 1)
    ref = [8./3, 8./3, NAN, 8./3, -2., -2., -2., NAN, NAN]
    expect(np.allclose(out, ref, rtol=4*EPS, atol=0, equal_nan=True),
           f"spelled out flathomogen maxnan=1: {out}")
    out = dutils.flathomogen(index, inputs)
    ref = [NAN]*4+[-2., -2., -2., NAN, NAN]
    expect(np.array_equal(out, ref, equal_nan=True),
           f"spelled out flathomogen: {out}")

    # Index computed from dates
    days = pd.date_range("2003-12-15", "2004-03-10")
    inputs = np.cos(np.arange(len(days))*0.7)*3-1
    inputs[[0, 1, 20, 77, len(days)-1]] = NAN
    for timestep in ["D", "MS", "AS", "AS-JUL"]:
        index = dutils.compute_aggindex(days, timestep)
        verify_all(index, inputs, [0, 1, 2, 100])

    # Inputs that are views of something else
    big = np.arange(40, dtype=np.float64)-11.5
    big[[3, 9, 10, 39]] = NAN
    index = np.repeat(np.arange(5), 4)
    verify_all(index, big[::2], [0, 1, 4])
    verify_all(index, big[::-2], [0, 1, 4])
    verify_all(index, big[7:27], [0, 1, 4])
    verify_all(index, big.reshape(20, 2)[:, 1], [0, 1, 4])
    idx2 = np.repeat(np.arange(10), 4).astype(np.int32)
    verify_all(idx2[::2], big[7:27], [0, 1, 4])


def part_random():
    rng = np.random.default_rng(808)
    for it in range(360):
        n = int(rng.choice([1, 2, 3, 4, 15, 16, 17, 33, 100, 366, 1200]))
        mode = it % 6
        if mode == 0:
            lengths = [n]
        elif mode == 1:
            lengths = [1]*n
        else:
            lengths = []
            while sum(lengths) < n:
                top = int(rng.choice([1, 2, 4, 31, 366]))
                lengths.append(min(n-sum(lengths),
                                   int(rng.integers(1, top+1))))
        index = make_index(lengths, LAYOUTS[it % len(LAYOUTS)],
                           [np.int64, np.int32][(it//2) % 2])
        kind = it % 5
        if kind == 0:
            inputs = rng.normal(size=n)
        elif kind == 1:
            inputs = rng.integers(-2, 3, size=n).astype(np.float64)
        elif kind == 2:
            inputs = -rng.gamma(0.3, size=n)*1e4
        elif kind == 3:
            inputs = rng.normal(size=n)*10.**rng.integers(-12, 13, size=n)
        else:
            inputs = np.round(rng.normal(size=n), 1)
        frac = float(rng.choice([0., 0.02, 0.3, 0.9, 1.]))
        inputs[rng.uniform(size=n) < frac] = NAN
        if it % 4 == 1:
            inputs[0] = NAN
        if it % 4 == 2:
            inputs[-1] = NAN
        longest = max(lengths)
        verify_all(index, inputs,
                   sorted({0, 1, 2, max(0, longest-1), longest, longest+1,
                           n+10, IMAX}))


def part_decreasing():
    rng = np.random.default_rng(4)
    wrong = [
        [2, 1], [0, -1], [-1, -2], [IMAX, IMIN], [IMIN+1, IMIN],
        [IMAX, IMAX-1], [0, IMIN], [IMAX, 0],
        [3, 2, 1], [3, 3, 2], [3, 2, 2], [2, 3, 2], [2, 1, 3], [1, 3, 2],
        [1, 1, 1, 0], [0, 1, 1, 0], [1, 0, 0, 0], [1, 0, 1, 2],
        [1, 2, 3, 4, 5, 4], [1, 2, 3, 2, 5, 6], [5, 2, 3, 4, 5, 6],
        [1, 2, 3, 1, 2, 3], [-1, -1, -2, -2], [IMIN, IMAX, IMAX, IMIN],
        [200011, 200012, 200101, 200012], [4, 4, 4, 3, 3, 3, 5, 5, 5],
    ]
    for index in wrong:
        n = len(index)
        verify_error(index, rng.normal(size=n))
        verify_error(np.array(index, dtype=np.int32), np.full(n, NAN))
        inputs = rng.normal(size=n)
        inputs[rng.integers(0, n)] = NAN
        verify_error(np.array(index, dtype=np.int64), inputs)

    # one step down in a long index, steps up everywhere else
    for n in [2, 3, 4, 50, 1000]:
        for where in {1, 2, n//2, n-2, n-1}:
            if where < 1 or where >= n:
                continue
            for flat in [False, True]:
                index = np.arange(n)//3 if flat else np.arange(n)*2
                index = index.copy()
                index[where:] -= index[where]-index[where-1]+1
                assert index[where] == index[where-1]-1
                verify_error(index, rng.normal(size=n))

    # not decreasing, even if the steps do not fit in an int32
    for index in [[IMIN, IMAX], [IMIN, 0, IMAX], [IMIN, IMIN, IMAX],
                  [-1, IMAX, IMAX], [IMIN, 2]]:
        verify_all(index, np.arange(len(index))-0.5, [0, 1])


def part_history():
    """ The result of a call does not depend on the calls made before """
    rng = np.random.default_rng(77)
    # (index, inputs) of various lengths
    items = []
    for n in [1, 2, 5, 40, 7, 300, 3, 40]:
        lengths = []
        while sum(lengths) < n:
            lengths.append(min(n-sum(lengths), int(rng.integers(1, 6))))
        index = make_index(lengths, LAYOUTS[n % len(LAYOUTS)], np.int32)
        inputs = rng.normal(size=n)
        inputs[rng.uniform(size=n) < 0.3] = NAN
        items.append((index, inputs))

    kept = []
    for rep in range(3):
        for index, inputs in items:
            for op in range(4):
                out = verify_aggregate(index, inputs, op, 1)
                kept.append((index.copy(), inputs.copy(), op, out))
            # same index, other inputs, then other index, same inputs
            verify_aggregate(index, inputs[::-1].copy(), rep, 2)
            verify_aggregate(np.arange(len(index)), inputs, rep, 2)
            verify_flathomogen(index, inputs, 1)
            verify_flathomogen(np.zeros(len(index), dtype=np.int64),
                               inputs, len(index))
            # a failing call in between
            if len(index) > 1:
                verify_error(index[::-1] if index[0] != index[-1]
                             else np.arange(len(index))[::-1], inputs)

            # modify the arguments in place and call again
            inputs2 = inputs.copy()
            index2 = index.copy()
            out_before = dutils.aggregate(index2, inputs2, 0, len(inputs))
            flat_before = dutils.flathomogen(index2, inputs2, len(inputs))
            snap = out_before.copy(), flat_before.copy()
            inputs2[:] = inputs2+1.
            index2[-1] = IMAX
            verify_aggregate(index2, inputs2, 0, len(inputs))
            verify_flathomogen(index2, inputs2, len(inputs))
            # .. results obtained before are not affected
            expect(np.array_equal(out_before, snap[0], equal_nan=True)
                   and np.array_equal(flat_before, snap[1], equal_nan=True),
                   "earlier results changed by a later call")

            # writing in a result does not affect the next call
            out = dutils.aggregate(index, inputs, 0, len(inputs))
            out[:] = -999.
            flat = dutils.flathomogen(index, inputs, len(inputs))
            flat[:] = -999.
            verify_aggregate(index, inputs, 0, len(inputs))
            verify_flathomogen(index, inputs, len(inputs))

    # a long series between two short ones, results are separate arrays
    index, inputs = items[3]
    first = verify_aggregate(index, inputs, 0, 3)
    nbig = 5000
    big = rng.normal(size=nbig)
    verify_aggregate(np.arange(nbig)//7, big, 1, 0)
    verify_flathomogen(np.arange(nbig)//7, big, 0)
    second = verify_aggregate(index, inputs, 0, 3)
    third = verify_aggregate(index, inputs[::-1].copy(), 0, 3)
    expect(np.array_equal(first, second, equal_nan=True),
           "same call, other result")
    expect(not np.shares_memory(first, second)
           and not np.shares_memory(second, third)
           and not np.shares_memory(second, inputs),
           "results share memory")
    verify_aggregate(index, inputs, 0, 3, out=first)
    verify_aggregate(index, inputs, 0, 3, out=second)
    flat1 = dutils.flathomogen(index, inputs, 3)
    flat2 = dutils.flathomogen(index, inputs, 3)
    expect(not np.shares_memory(flat1, flat2)
           and not np.shares_memory(flat1, inputs), "results share memory")

    # all the results kept are still right
    for index, inputs, op, out in kept:
        verify_aggregate(index, inputs, op, 1, out=out)

    # monthly2daily: same series twice, other series in between
    se1 = pd.Series([31., 29., 62., 0.],
                    index=pd.date_range("2000-01-01", periods=4, freq="MS"))
    se2 = pd.Series([1., 2., 3., 4.],
                    index=pd.date_range("2001-01-01", periods=4, freq="MS"))
    for interp in ["flat", "cubic"]:
        first = dutils.monthly2daily(se1, interp)
        snap = first.copy()
        other = dutils.monthly2daily(se2, interp)
        other.iloc[:] = -1.
        again = dutils.monthly2daily(se1, interp)
        expect(first.equals(snap) and again.equals(snap),
               f"monthly2daily {interp} depends on earlier calls")
        again.iloc[:] = -5
        verify_monthly2daily("2000-01-01", se1.values, interp)
        verify_monthly2daily("2001-01-01", se2.values, interp)
        # many series of the same length, then the first ones again
        for rep in range(2):
            for k in range(45):
                start = f"{1960+k}-{k % 12+1:02d}-01"
                verify_monthly2daily(start, se2.values+k, interp)
                verify_monthly2daily(start, se1.values, interp)


# ------------------------------------------------------------------------
def verify_monthly2daily(start, values, interp):
    values = np.asarray(values, dtype=np.float64)
    nmonths = len(values)
    index = pd.date_range(start, periods=nmonths, freq="MS")
    se = pd.Series(values, index=index)
    se0 = se.copy()
    sed = dutils.monthly2daily(se, interpolation=interp)
    what = f"monthly2daily({interp}, start={start}, {nmonths} months, "\
           + f"values={values.tolist()[:6]})"
    expect(se.equals(se0) and se.index.equals(se0.index),
           what+": argument modified")

    lastday = index[-1]+pd.DateOffset(months=1)-pd.DateOffset(days=1)
    days = pd.date_range(index[0], lastday, freq="D")
    ok = isinstance(sed, pd.Series) and len(sed) == len(days)
    expect(ok, what+f": {len(sed)} values, expected one for each of the "
           + f"{len(days)} days")
    if not ok:
        return
    expect(bool(np.all(pd.DatetimeIndex(sed.index) == days)),
           what+": index is not the list of calendar days")
    daily = sed.values.astype(np.float64)
    expect(not np.any(np.isnan(daily)), what+": nan value")
    top = max(float(values.max()), 1e-300)
    pos = 0
    for k in range(nmonths):
        ndays = int(index[k].days_in_month)
        chunk = daily[pos:pos+ndays].tolist()
        pos += ndays
        if any(math.isnan(c) for c in chunk):
            continue
        tot = float(exact_sum(chunk))
        expect(abs(tot-values[k]) <= 1e-9*top, what+f": month {k} "
               + f"adds up to {tot!r}, expected {values[k]!r}")
        if interp == "flat":
            expect(all(c == chunk[0] for c in chunk)
                   and abs(chunk[0]-values[k]/ndays)
                   <= 2*EPS*values[k]/ndays,
                   what+f": month {k} is not values/ndays")
    expect(pos == len(daily), what+": month lengths")


def part_monthly2daily():
    rng = np.random.default_rng(2)
    count = 0
    for year in [1899, 1900, 1996, 2000, 2019, 2024, 2100]:
        for month in range(1, 13):
            for nmonths in [2, 3, 5, 12, 13, 26]:
                count += 1
                kind = count % 5
                if kind == 0:
                    values = rng.gamma(0.5, size=nmonths)*100
                elif kind == 1:
                    values = rng.integers(0, 3, size=nmonths).astype(float)
                elif kind == 2:
                    values = np.zeros(nmonths)
                    values[count % nmonths] = 1.
                elif kind == 3:
                    values = 10.**rng.uniform(-8, 8, size=nmonths)
                else:
                    values = np.full(nmonths, 30.)
                for interp in ["flat", "cubic"]:
                    verify_monthly2daily(f"{year}-{month:02d}-01", values,
                                         interp)
    for month in range(1, 13):
        for nmonths in [119, 480]:
            values = rng.gamma(0.5, size=nmonths)*100
            values[rng.uniform(size=nmonths) < 0.2] = 0.
            for interp in ["flat", "cubic"]:
                verify_monthly2daily(f"{1950+month}-{month:02d}-01", values,
                                     interp)
    for interp in ["flat", "cubic"]:
        verify_monthly2daily("2000-02-01", [29., 31.], interp)
        verify_monthly2daily("2100-02-01", [28., 31.], interp)
        verify_monthly2daily("2023-12-01", [0., 0.], interp)
        verify_monthly2daily("2023-12-01", [0., 0., 0.], interp)
        verify_monthly2daily("2024-01-01", [0., 1e9, 0.], interp)
        verify_monthly2daily("2024-01-01", [5e-300, 1e-300], interp)


if __name__ == "__main__":
    parts = [part_special, part_decreasing, part_history, part_small,
             part_random, part_monthly2daily]
    for part in parts:
        before = dict(STATS)
        part()
        print(f"{part.__name__}: {STATS['checks']-before['checks']} checks, "
              + f"{STATS['failures']-before['failures']} failures")
    print(f"Total: {STATS['checks']} checks, {STATS['failures']} failures")
    sys.exit(1 if STATS["failures"] > 0 else 0)
