""" Demo for property C15: point-in-polygon answers agree with the even-odd rule.

Run as:  PYTHONPATH=<tree>/src /venv/bin/python demo.py     (exit code 0 and "DEMO OK" expected)

Common part (core_checks): 45 polygons (triangles, squares of both orientations, L, comb,
bow tie, pentagram, spikes, repeated and collinear vertices, sliver, random star-shaped,
random self-intersecting, regular, lattice and rectilinear polygons) x query points farther
than 2e-6 x (diagonal of the polygon extent) from every edge: random inside/outside the
bounding box, level with vertices (same y, same x, both), on the lines carrying the bounding box,
far away. Expected answers come from an independent even-odd oracle (other half-open rule, cross
product side test), itself cross-checked against an exact rational oracle casting the ray the
other way. Checked: the polygon as given, open and closed, every starting vertex, both
orientations, 8 translations/scalings, inside= pre-filled with rubbish, 0/1/2 query points;
Grid.cells_inside_polygon on 6 grids (1x1, 1 column, rectangular, shifted, small/large cells)
against the cells whose centres are inside.

Specific part (mixed_checks): points and polygons OUTSIDE the quantifier (points exactly on the
border, nan/inf points, polygons with 1-2 vertices or nan vertices, odd atol, other memory
layouts, unusable inside= vectors) are allowed to be rejected or answered in any way, but the
points inside the quantifier that share the call - or come in the next call - must keep the
right answer; other layouts, if accepted, must give the right answers.
"""
import sys
from fractions import Fraction

import numpy as np

from hydrodiy.gis import gutils
from hydrodiy.gis.grid import Grid

RNG = np.random.default_rng(1515)

# The property is stated for points farther than 1e-6 x polygon size from
# every edge. The demo keeps a factor 2 of margin and measures the polygon
# size with the diagonal of its bounding box (largest sensible "size").
RELTOL = 2e-6

NCHECK = {"calls": 0, "answers": 0, "polygons": 0, "grids": 0}


# ---------------------------------------------------------------- helpers
def fail(msg):
    print("DEMO FAILED: " + msg)
    sys.exit(1)


def open_ring(poly):
    """ Vertex list without the closing vertex """
    poly = np.asarray(poly, dtype=np.float64)
    if len(poly) > 3 and np.array_equal(poly[0], poly[-1]):
        return poly[:-1]
    return poly


def close_ring(poly):
    poly = open_ring(poly)
    return np.vstack([poly, poly[:1]])


def polygon_size(poly):
    poly = np.asarray(poly, dtype=np.float64)
    return float(np.hypot(*(poly.max(axis=0)-poly.min(axis=0))))


def distance_to_boundary(points, poly):
    """ Distance between each point and the closed polyline """
    poly = open_ring(poly)
    a = poly
    b = np.roll(poly, -1, axis=0)
    dmin = np.full(len(points), np.inf)
    for (ax, ay), (bx, by) in zip(a, b):
        ex, ey = bx-ax, by-ay
        l2 = ex*ex+ey*ey
        px = points[:, 0]-ax
        py = points[:, 1]-ay
        if l2 == 0:
            t = np.zeros(len(points))
        else:
            t = np.clip((px*ex+py*ey)/l2, 0., 1.)
        d = np.hypot(px-t*ex, py-t*ey)
        dmin = np.minimum(dmin, d)
    return dmin


def keep_far_points(points, poly):
    """ Keep the points that are inside the quantifier of the property """
    points = np.ascontiguousarray(points, dtype=np.float64)
    d = distance_to_boundary(points, poly)
    return np.ascontiguousarray(points[d > RELTOL*polygon_size(poly)])


def oracle(points, poly):
    """ Even-odd rule, independent formulation: ray towards +x,
    half-open rule [ymin, ymax[ (the library uses ]ymin, ymax]),
    side test with a cross product instead of an intersection abscissa.
    """
    poly = open_ring(poly)
    x = points[:, 0]
    y = points[:, 1]
    ins = np.zeros(len(points), dtype=bool)
    b = np.roll(poly, -1, axis=0)
    for (ax, ay), (bx, by) in zip(poly, b):
        straddle = (ay > y) != (by > y)
        if not straddle.any():
            continue
        t = (x-ax)*(by-ay)-(bx-ax)*(y-ay)
        left = (t < 0) if by > ay else (t > 0)
        ins ^= straddle & left
    return ins.astype(np.int32)


def oracle_exact(points, poly):
    """ Even-odd rule in rational arithmetic, ray towards -x """
    poly = open_ring(poly)
    V = [(Fraction(float(a)), Fraction(float(b))) for a, b in poly]
    out = []
    for px, py in points:
        px = Fraction(float(px))
        py = Fraction(float(py))
        n = 0
        for i in range(len(V)):
            ax, ay = V[i]
            bx, by = V[(i+1) % len(V)]
            if (ay > py) == (by > py):
                continue
            xi = ax+(py-ay)*(bx-ax)/(by-ay)
            if xi < px:
                n += 1
        out.append(n % 2)
    return np.array(out, dtype=np.int32)


def call(points, poly, **kw):
    res = gutils.points_inside_polygon(points, poly, **kw)
    NCHECK["calls"] += 1
    res = np.asarray(res)
    if res.shape != (len(points),):
        fail(f"result of shape {res.shape} for {len(points)} points")
    if not np.all((res == 0) | (res == 1)):
        fail("answers other than 0/1")
    return res


def same(got, exp, what):
    NCHECK["answers"] += len(exp)
    if not np.array_equal(np.asarray(got).astype(np.int64),
                          np.asarray(exp).astype(np.int64)):
        bad = np.flatnonzero(np.asarray(got) != np.asarray(exp))
        fail(f"{what}: {len(bad)} wrong answers, first at index {bad[0]}")


# ------------------------------------------------------ polygon generators
def q(a):
    """ Coordinates on a 1e-4 mesh: two coordinates are either equal or
    differ by much more than the absolute tolerance 1e-8 """
    return np.round(np.asarray(a, dtype=np.float64)*1e4)/1e4


def poly_star(n):
    th = np.sort(RNG.uniform(0, 2*np.pi, n))
    r = RNG.uniform(0.3, 2., n)
    return q(np.column_stack([r*np.cos(th), r*np.sin(th)])
             + RNG.uniform(-5, 5, 2))


def poly_regular(n):
    th = 2*np.pi*np.arange(n)/n+RNG.uniform(0, 1)
    return q(3*np.column_stack([np.cos(th), np.sin(th)]))


def poly_random(n):
    """ Usually self-intersecting """
    return q(RNG.uniform(-3, 3, (n, 2)))


def poly_lattice(n, size=6):
    """ Integer vertices: many horizontal, vertical, collinear edges,
    repeated vertices, self intersections """
    p = RNG.integers(0, size+1, (n, 2)).astype(np.float64)
    out = []
    for i in range(n):
        out.append(p[i])
        u = RNG.uniform()
        if u < 0.15:
            out.append(p[i].copy())             # repeated vertex
        elif u < 0.35:
            out.append((p[i]+p[(i+1) % n])/2)   # collinear vertex
    p = np.array(out)
    if np.ptp(p[:, 0]) == 0 or np.ptp(p[:, 1]) == 0:
        return poly_lattice(n, size)
    return p


def poly_histogram(nbars):
    """ Rectilinear polygon """
    h = RNG.integers(1, 5, nbars)
    v = [(0., 0.)]
    for i, hi in enumerate(h):
        v.append((float(i), float(hi)))
        v.append((float(i+1), float(hi)))
    v.append((float(nbars), 0.))
    return np.array(v)


FIXED_POLYGONS = [
    # triangle of the test-suite
    np.array([[-1.0, -1.0], [0.0, 1.0], [1.0, 0.0]]),
    # unit square, both orientations
    np.array([[0., 0.], [1., 0.], [1., 1.], [0., 1.]]),
    np.array([[0., 0.], [0., 1.], [1., 1.], [1., 0.]]),
    # L shape
    np.array([[0., 0.], [4., 0.], [4., 2.], [2., 2.], [2., 4.], [0., 4.]]),
    # U shape (comb): points level with many vertices
    np.array([[0., 0.], [5., 0.], [5., 3.], [4., 3.], [4., 1.], [3., 1.],
              [3., 3.], [2., 3.], [2., 1.], [1., 1.], [1., 3.], [0., 3.]]),
    # bow tie (self-intersecting)
    np.array([[0., 0.], [2., 2.], [2., 0.], [0., 2.]]),
    # pentagram (self-intersecting, centre is outside in even-odd)
    q(np.array([[np.cos(a), np.sin(a)] for a in
                np.pi/2+4*np.pi*np.arange(5)/5])*4),
    # diamond with spikes: vertices level with each other
    np.array([[0., 2.], [1., 2.], [2., 4.], [3., 2.], [4., 2.], [3., 2.],
              [2., 0.], [1., 2.]]),
    # square with collinear vertices on each side and a repeated one
    np.array([[0., 0.], [1., 0.], [2., 0.], [2., 0.], [2., 1.], [2., 2.],
              [1., 2.], [0., 2.], [0., 1.]]),
    # thin sliver (still much thicker than the tolerance)
    np.array([[0., 0.], [10., 0.01], [0., 0.02]]),
]


def all_polygons():
    polys = [p.copy() for p in FIXED_POLYGONS]
    for n in [3, 4, 5, 8, 13, 40]:
        polys.append(poly_star(n))
        polys.append(poly_random(n))
    for n in [3, 5, 12, 100]:
        polys.append(poly_regular(n))
    for n in [3, 4, 6, 9, 15]:
        for _ in range(3):
            polys.append(poly_lattice(n))
    for n in [1, 2, 5, 9]:
        polys.append(poly_histogram(n))
    return polys


# -------------------------------------------------------- point generators
def query_points(poly, nrandom=150):
    ring = open_ring(poly)
    lo = ring.min(axis=0)
    hi = ring.max(axis=0)
    ext = hi-lo
    pts = [RNG.uniform(lo-0.3*ext, hi+0.3*ext, (nrandom, 2))]

    # level with vertices: same y, same x, and crossings of both
    vx = ring[:, 0]
    vy = ring[:, 1]
    k = len(ring)
    pts.append(np.column_stack([RNG.uniform(lo[0]-0.3*ext[0],
                                            hi[0]+0.3*ext[0], 3*k),
                                np.tile(vy, 3)]))
    pts.append(np.column_stack([np.tile(vx, 3),
                                RNG.uniform(lo[1]-0.3*ext[1],
                                            hi[1]+0.3*ext[1], 3*k)]))
    ii = RNG.integers(0, k, 4*k)
    jj = RNG.integers(0, k, 4*k)
    pts.append(np.column_stack([vx[ii], vy[jj]]))

    # mid-levels between consecutive distinct vertex levels combined with
    # vertex abscissae and conversely
    ux = np.unique(vx)
    uy = np.unique(vy)
    mx = np.concatenate([[ux[0]-0.25*ext[0]], (ux[1:]+ux[:-1])/2,
                         [ux[-1]+0.25*ext[0]]])
    my = np.concatenate([[uy[0]-0.25*ext[1]], (uy[1:]+uy[:-1])/2,
                         [uy[-1]+0.25*ext[1]]])
    if len(mx)*len(uy) < 4000:
        g = np.meshgrid(mx, uy)
        pts.append(np.column_stack([g[0].ravel(), g[1].ravel()]))
        g = np.meshgrid(ux, my)
        pts.append(np.column_stack([g[0].ravel(), g[1].ravel()]))
        g = np.meshgrid(mx, my)
        pts.append(np.column_stack([g[0].ravel(), g[1].ravel()]))

    # on the lines carrying the bounding box, and far away
    pts.append(np.column_stack([np.repeat([lo[0], hi[0]], 10),
                                RNG.uniform(lo[1]-ext[1], hi[1]+ext[1], 20)]))
    pts.append(np.column_stack([RNG.uniform(lo[0]-ext[0], hi[0]+ext[0], 20),
                                np.repeat([lo[1], hi[1]], 10)]))
    pts.append(np.array([[lo[0]-1e3*ext[0], vy[0]], [hi[0]+1e3*ext[0], vy[0]],
                         [vx[0], lo[1]-1e3*ext[1]], [vx[0], hi[1]+1e3*ext[1]],
                         [1e9, 1e9], [-1e9, 1e9]]))
    pts = np.vstack(pts)
    return keep_far_points(pts, poly)


# ----------------------------------------------------------------- checks
TRANSFORMS = [
    # (tx, ty, scale): polygon and points become scale*(p+t)
    (0., 0., 0.5), (0., 0., 0.01), (0., 0., 3.7), (0., 0., 1000.),
    (1000.5, -2000.25, 1.), (-30000., 7000., 1.), (12.3, 45.6, 0.125),
    (-7.7, 0.3, 250.),
]


def check_polygon(poly, pts, exact=False):
    """ Property C15 for one polygon and its query points """
    NCHECK["polygons"] += 1
    ring = open_ring(poly)
    n = len(ring)
    exp = oracle(pts, ring)
    if exact:
        same(oracle_exact(pts, ring), exp, "float oracle vs exact oracle")

    # as given
    same(call(pts, poly), exp, "polygon as given")

    # open / closed, every starting vertex, both orientations
    shifts = range(n) if n <= 16 else [0, 1, 2, n//2, n-1]
    for s in shifts:
        rot = np.roll(ring, -s, axis=0)
        for rev in [False, True]:
            v = rot[::-1] if rev else rot
            v = np.ascontiguousarray(v)
            same(call(pts, v), exp, f"open ring shift={s} reversed={rev}")
            same(call(pts, close_ring(v)), exp,
                 f"closed ring shift={s} reversed={rev}")

    # translation and scaling of polygon and points together
    for tx, ty, sc in TRANSFORMS:
        t = np.array([tx, ty])
        poly2 = (ring+t)*sc
        pts2 = (pts+t)*sc
        # stay inside the quantifier after rounding of the new coordinates
        keep = distance_to_boundary(pts2, poly2) > RELTOL*polygon_size(poly2)
        pts2 = np.ascontiguousarray(pts2[keep])
        same(call(pts2, poly2), exp[keep], f"transform {(tx, ty, sc)}")

    # pre-allocated answer vector holding rubbish from a previous use
    buf = RNG.integers(-5, 6, len(pts)).astype(np.int32)
    res = call(pts, poly, inside=buf)
    same(res, exp, "answers returned with inside=")
    same(buf, exp, "answers stored in inside=")

    # few points: 0, 1 and 2 query points
    for k in [0, 1, 2]:
        if len(pts) >= k:
            same(call(pts[:k].copy(), poly), exp[:k], f"{k} points")
    for i in RNG.integers(0, max(len(pts), 1), 5):
        if len(pts):
            same(call(pts[i:i+1].copy(), poly), exp[i:i+1], "single point")

    return exp


def check_grid(gr, poly):
    """ cells_inside_polygon returns exactly the cells whose centre is
    inside. Returns False if the polygon passes too close to a centre
    (outside the quantifier, nothing checked) """
    nr, nc = int(gr.nrows), int(gr.ncols)
    cells = np.arange(nr*nc)
    rows = cells//nc
    cols = cells % nc
    xc = float(gr.xllcorner)+float(gr.cellsize)*(cols+0.5)
    yc = float(gr.yllcorner)+float(gr.cellsize)*(nr-1-rows+0.5)
    centres = np.column_stack([xc, yc])
    d = distance_to_boundary(centres, poly)
    if np.any(d <= RELTOL*polygon_size(poly)):
        return False

    exp = oracle(centres, poly).astype(bool)
    df = gr.cells_inside_polygon(poly)
    NCHECK["grids"] += 1
    if sorted(df.columns) != ["cell", "x", "y"]:
        fail(f"columns {list(df.columns)}")
    got = np.asarray(df["cell"]).astype(np.int64)
    if len(np.unique(got)) != len(got):
        fail("cell listed twice")
    if not np.array_equal(np.sort(got), cells[exp]):
        fail("cells_inside_polygon does not list the cells with "
             "centre inside")
    if not (np.allclose(np.asarray(df["x"], dtype=float), xc[got],
                        rtol=1e-12, atol=0)
            and np.allclose(np.asarray(df["y"], dtype=float), yc[got],
                            rtol=1e-12, atol=0)):
        fail("x, y of the listed cells are not their centres")
    # open/closed/reversed vertex list gives the same cells
    for v in [close_ring(poly), open_ring(poly)[::-1].copy()]:
        g2 = np.asarray(gr.cells_inside_polygon(v)["cell"])
        if not np.array_equal(np.sort(g2), cells[exp]):
            fail("cells change with closing/reversing the vertex list")
    return True


def core_checks():
    polys = all_polygons()
    for ip, poly in enumerate(polys):
        pts = query_points(poly)
        if len(pts) < 50:
            fail(f"polygon {ip}: only {len(pts)} query points left")
        check_polygon(poly, pts, exact=(len(open_ring(poly)) <= 20))

    # grids
    grids = [
        Grid("g1", 10, 10),
        Grid("g2", 7, 13, cellsize=0.5, xllcorner=-1.25, yllcorner=2.),
        Grid("g3", 31, 5, cellsize=0.1, xllcorner=100., yllcorner=-50.),
        Grid("g4", 1, 1, cellsize=2.),
        Grid("g5", 1, 9, cellsize=3., xllcorner=-4.),
        Grid("g6", 40, 25, cellsize=250., xllcorner=3e5, yllcorner=6e6),
    ]
    ndone = 0
    for gr in grids:
        nr, nc = int(gr.nrows), int(gr.ncols)
        x0, y0, cs = float(gr.xllcorner), float(gr.yllcorner), \
            float(gr.cellsize)
        w, h = nc*cs, nr*cs
        cands = []
        # test-suite polygon, in grid units
        base = np.array([[0.5, 2.3], [7.2, 9.5], [6.2, 2.2]])/10
        cands.append(base*[w, h]+[x0, y0])
        # polygons partly or wholly outside the grid, tiny, huge
        cands.append(np.array([[-1., -1.], [2., -1.], [2., 2.], [-1., 2.]])
                     * [w, h]+[x0, y0])
        cands.append(np.array([[1.5, 1.5], [2.5, 1.6], [2., 3.]])
                     * [w, h]+[x0, y0])
        cands.append(np.array([[-0.31, 0.27], [0.43, 0.29], [0.41, 1.33]])
                     * [w, h]+[x0, y0])
        cands.append(np.array([[0.5, 0.5]])*[w, h]+[x0, y0]
                     + cs*np.array([[-0.1, -0.13], [0.12, -0.11],
                                    [0.02, 0.17]]))
        for _ in range(12):
            k = int(RNG.integers(3, 9))
            p = RNG.uniform(-0.2, 1.2, (k, 2))*[w, h]+[x0, y0]
            cands.append(p)
        # rectilinear polygon with sides on cell borders (never on centres)
        cands.append(np.array([[0, 0], [nc, 0], [nc, nr], [0, nr]],
                              dtype=float)*cs+[x0, y0])
        if nc >= 3 and nr >= 3:
            cands.append(np.array([[1, 1], [nc-1, 1], [nc-1, nr-1],
                                   [nc//2, nr-1], [nc//2, 2], [1, 2]],
                                  dtype=float)*cs+[x0, y0])
        for p in cands:
            ndone += check_grid(gr, np.ascontiguousarray(p))
    if ndone < 60:
        fail(f"only {ndone} grid/polygon pairs checked")


# ----------------------- inputs around the quantifier mixed with inputs in
def lenient(points, poly, **kw):
    """ Call with arguments the property says nothing about. The call may
    be rejected (any exception); if it is not, the answers must be 0/1 """
    try:
        res = gutils.points_inside_polygon(points, poly, **kw)
    except Exception:
        return None
    res = np.asarray(res)
    if not np.all((res == 0) | (res == 1)):
        fail("answers other than 0/1")
    return res


def border_points(poly, nper=3):
    """ Points exactly on the polygon (vertices, points on horizontal and
    vertical edges, midpoints): outside the quantifier """
    ring = open_ring(poly)
    nxt = np.roll(ring, -1, axis=0)
    out = [ring, (ring+nxt)/2]
    for f in RNG.uniform(0, 1, nper):
        out.append(ring+f*(nxt-ring))
    return np.vstack(out)


def mixed_checks():
    """ Points and polygons outside the quantifier (points on the border,
    nan, polygons with 1 or 2 vertices ...) are free to be answered or
    rejected in any way, but they must not disturb the answers for the
    points inside the quantifier, in the same call or in the next ones """
    polys = [p.copy() for p in FIXED_POLYGONS]
    polys += [poly_lattice(n) for n in [3, 5, 8, 12, 12]]
    polys += [poly_star(7), poly_random(9), poly_histogram(6)]
    for poly in polys:
        far = query_points(poly, 60)
        exp = oracle(far, poly)
        bord = border_points(poly)
        odd = np.array([[np.nan, 0.5], [0.5, np.nan], [np.nan, np.nan],
                        [np.inf, 0.5], [0.5, -np.inf]])
        odd[:, 0] += open_ring(poly)[0, 0]
        odd[:, 1] += open_ring(poly)[0, 1]

        # interleave: far points keep their answers whatever sits between
        for extra in [bord, odd, np.vstack([bord, odd])]:
            n = len(far)+len(extra)
            pos = np.sort(RNG.choice(n, len(far), replace=False))
            allp = np.zeros((n, 2))
            mask = np.zeros(n, dtype=bool)
            mask[pos] = True
            allp[mask] = far
            allp[~mask] = extra[RNG.permutation(len(extra))]
            for v in [poly, close_ring(poly), open_ring(poly)[::-1].copy()]:
                res = lenient(allp, v)
                if res is None:
                    if not np.isfinite(extra).all():
                        continue        # nan/inf points may be rejected
                    fail("finite points rejected")
                same(res[mask], exp, "far points mixed with other points")
                buf = RNG.integers(-3, 4, n).astype(np.int32)
                if lenient(allp, v, inside=buf) is not None:
                    same(buf[mask], exp, "mixed points, inside=")
            # and the next call is not affected
            same(call(far, poly), exp, "call after mixed points")

        # the arguments are left untouched
        p0, f0 = poly.copy(), far.copy()
        call(far, poly)
        if not (np.array_equal(p0, poly) and np.array_equal(f0, far)):
            fail("arguments modified")

        # degenerate/odd polygons in between: rejected or answered, then
        # the regular polygon still gets the right answers
        ring = open_ring(poly)
        nanpoly = ring.copy()
        nanpoly[1, 0] = np.nan
        infpoly = ring.copy()
        infpoly[0, 1] = np.inf
        for bad in [ring[:1], ring[:2], np.vstack([ring[:2], ring[:1]]),
                    nanpoly, infpoly, np.zeros((0, 2))]:
            lenient(far, np.ascontiguousarray(bad))
            same(call(far, poly), exp, "call after odd polygon")
        for atol in [-1., np.nan, np.inf]:
            lenient(far, poly, atol=atol)
            same(call(far, poly), exp, "call after odd atol")

        # other memory layouts of the same values: rejected or same answers
        ro_p, ro_f = poly.copy(), far.copy()
        ro_p.setflags(write=False)
        ro_f.setflags(write=False)
        wide = np.zeros((len(far), 5))
        wide[:, 1:3] = far
        alts = [
            (ro_f, ro_p, "read-only"),
            (np.asfortranarray(far), np.asfortranarray(poly), "fortran"),
            (wide[:, 1:3], poly, "sliced points"),
            (far[::-1][::-1], poly[::-1][::-1], "negative strides twice"),
            (far.tolist(), [tuple(v) for v in poly], "lists"),
            (far.astype(np.longdouble), poly.astype(np.longdouble),
             "long double"),
            (far, np.vstack([poly, poly])[:len(poly)], "view of polygon"),
        ]
        for f, p, what in alts:
            res = lenient(f, p)
            if res is not None:
                same(res, exp, what)
        # answer vector in a strided view / other integer type
        buf2 = np.full((len(far), 2), 5, dtype=np.int32)
        if lenient(far, poly, inside=buf2[:, 0]) is not None:
            same(buf2[:, 0], exp, "strided inside=")
            if not np.all(buf2[:, 1] == 5):
                fail("strided inside= wrote next to the vector")
        buf3 = np.full(len(far), 5, dtype=np.int64)
        if lenient(far, poly, inside=buf3) is not None:
            same(buf3, exp, "int64 inside=")

        # rejected calls stay rejected (an error of the ValueError family)
        for badbuf in [np.zeros(len(far)+1, dtype=np.int32),
                       np.zeros(len(far)), np.array([""]*len(far))]:
            try:
                gutils.points_inside_polygon(far, poly, inside=badbuf)
            except ValueError:
                pass
            else:
                fail("unusable inside= accepted")
        same(call(far, poly), exp, "call after rejected calls")


if __name__ == "__main__":
    core_checks()
    mixed_checks()
    print("checked: " + ", ".join(f"{v} {k}" for k, v in NCHECK.items()))
    print("DEMO OK")
    sys.exit(0)
