#!/usr/bin/env python
"""Property C03 -- CRPS equals its definition and its decomposition is exact.

Run as:  PYTHONPATH=<tree>/src /venv/bin/python demo.py

The program only uses inputs inside the property's quantifier:
n >= 1 forecasts, m >= 1 members, finite float64 members, finite or NaN
float64 observations (at least one observation not NaN).

The definition is evaluated in exact rational arithmetic (fractions) so the
reference itself carries no rounding error; hydrodiy's result is compared
with a tolerance relative to the magnitude of the data.
"""
import sys
import itertools
from fractions import Fraction

import numpy as np

from hydrodiy.stat import metrics

RTOL = 1e-10
NCHECKS = 0
FAILURES = []


def fail(msg):
    FAILURES.append(msg)
    if len(FAILURES) <= 20:
        print("FAIL:", msg)


def close(x, y, scale):
    return abs(float(x) - float(y)) <= RTOL * scale


# ---------------------------------------------------------------------------
# Exact reference
# ---------------------------------------------------------------------------
def ref_crps_one(members, y):
    """ E|X-y| - 0.5 E|X-X'| over the empirical distribution, exact """
    xs = [Fraction(float(v)) for v in members]
    y = Fraction(float(y))
    m = len(xs)
    t1 = sum(abs(x - y) for x in xs) / m
    t2 = sum(abs(x1 - x2) for x1 in xs for x2 in xs) / (m * m)
    return t1 - t2 / 2


def ref_crps(obs, ens):
    obs = np.asarray(obs, dtype=np.float64).reshape(-1)
    ens = np.asarray(ens, dtype=np.float64).reshape(len(obs), -1)
    keep = [i for i in range(len(obs)) if not np.isnan(obs[i])]
    vals = [ref_crps_one(ens[i], obs[i]) for i in keep]
    crps = sum(vals) / len(vals)
    # CRPS of the observed climatology: the ensemble is the set of
    # (valid) observations, for every forecast
    # (E|X-X'| is the same for every forecast: computed once)
    clim = [Fraction(float(obs[i])) for i in keep]
    nc = len(clim)
    exx = sum(abs(x1 - x2) for x1 in clim for x2 in clim) / (nc * nc)
    unc = sum(sum(abs(x - y) for x in clim) / nc - exx / 2
              for y in clim) / nc
    if ens.shape[1] == 1:
        # single member: mean absolute error
        mae = sum(abs(Fraction(float(ens[i, 0])) - Fraction(float(obs[i])))
                  for i in keep) / len(keep)
        assert mae == crps
    return crps, unc


def data_scale(obs, ens):
    obs = np.asarray(obs, dtype=np.float64).reshape(-1)
    ens = np.asarray(ens, dtype=np.float64)
    ok = ~np.isnan(obs)
    ens = ens.reshape(len(obs), -1)
    sc = max(np.max(np.abs(obs[ok])), np.max(np.abs(ens[ok])))
    return max(float(sc), 1e-300)


def run(obs, ens):
    cr, table = metrics.crps(obs, ens)
    return {k: float(cr[k]) for k in
            ["crps", "reliability", "resolution", "uncertainty",
             "potential"]}, table


# ---------------------------------------------------------------------------
# The property on one input
# ---------------------------------------------------------------------------
def check_case(obs, ens, label, invariances=True, rng=None):
    global NCHECKS
    NCHECKS += 1
    obs = np.array(obs, dtype=np.float64)
    ens = np.array(ens, dtype=np.float64)
    obs0, ens0 = obs.copy(), ens.copy()
    n, m = ens.shape
    sc = data_scale(obs, ens)

    d, table = run(obs, ens)

    # inputs are left alone
    if not (np.array_equal(obs, obs0, equal_nan=True)
            and np.array_equal(ens, ens0)):
        fail(f"{label}: inputs modified by crps")

    # 1. definition
    rc, ru = ref_crps(obs, ens)
    if not close(d["crps"], rc, sc):
        fail(f"{label}: crps {d['crps']!r} != definition {float(rc)!r}")

    # 2. decomposition
    if not close(d["crps"], d["reliability"] + d["potential"], sc):
        fail(f"{label}: crps != reliability + potential ({d})")
    if not close(d["resolution"], d["uncertainty"] - d["potential"], sc):
        fail(f"{label}: resolution != uncertainty - potential ({d})")
    for k in ["reliability", "potential", "uncertainty"]:
        if not d[k] >= 0.0:
            fail(f"{label}: {k} = {d[k]!r} is not >= 0")
    if not close(d["uncertainty"], ru, sc):
        fail(f"{label}: uncertainty {d['uncertainty']!r} != "
             f"CRPS of climatology {float(ru)!r}")
    for k, v in d.items():
        if not np.isfinite(v):
            fail(f"{label}: {k} is not finite: {v!r}")

    # the table has one row per bin and 7 columns
    if table.shape != (m + 1, 7):
        fail(f"{label}: table shape {table.shape}")

    # calling again gives the same answer (no state carried over)
    d2, _ = run(obs, ens)
    for k in d:
        if not close(d[k], d2[k], sc):
            fail(f"{label}: second call differs for {k}")

    if not invariances:
        return d
    rng = rng or np.random.default_rng(12345)

    def same(dd, what, scale=sc, factor=1.0):
        for k in d:
            if not close(dd[k], factor * d[k], scale):
                fail(f"{label}: {what}: {k} {dd[k]!r} vs {factor*d[k]!r}")

    # 3. order of members (independent permutation in every forecast)
    ens_p = np.array([row[rng.permutation(m)] for row in ens])
    same(run(obs, ens_p)[0], "member order")
    same(run(obs, ens[:, ::-1])[0], "member order reversed")
    same(run(obs, np.sort(ens, axis=1))[0], "members sorted")

    # 4. order of forecasts
    p = rng.permutation(n)
    same(run(obs[p], ens[p])[0], "forecast order")
    same(run(obs[::-1], ens[::-1])[0], "forecast order reversed")

    # 5. shift by a constant
    for c in [1.0, -3.5, 1000.0]:
        same(run(obs + c, ens + c)[0], f"shift {c}",
             scale=sc + abs(c))

    # 6. positive scaling
    for f in [2.0, 0.125, 3.7, 1e-3, 2.0**40]:
        same(run(obs * f, ens * f)[0], f"scale {f}", scale=sc * f, factor=f)

    # 7. forecasts whose observation is missing are ignored
    ok = ~np.isnan(obs)
    if not ok.all():
        same(run(obs[ok], ens[ok])[0], "missing obs removed by hand")
        # whatever the members of the ignored forecasts are
        ens_q = ens.copy()
        ens_q[~ok] = rng.normal(size=(int((~ok).sum()), m)) * 50
        same(run(obs, ens_q)[0], "members of ignored forecasts changed")
    # adding ignored forecasts anywhere changes nothing
    pos = sorted(rng.integers(0, n + 1, size=2))
    obs_x = np.insert(obs, pos, np.nan)
    ens_x = np.insert(ens, pos, rng.normal(size=(2, m)), axis=0)
    same(run(obs_x, ens_x)[0], "NaN observations inserted")

    return d


# ---------------------------------------------------------------------------
# Inputs
# ---------------------------------------------------------------------------
def exhaustive_small():
    """ every input on a 3-value grid for tiny n, m: all tie patterns,
    member == obs, obs below / above everything """
    vals = [0.0, 1.0, 2.5]
    for n, m in [(1, 1), (1, 2), (2, 1), (1, 3), (2, 2), (3, 1), (2, 3)]:
        for flat in itertools.product(vals, repeat=n * (m + 1)):
            flat = np.array(flat)
            obs = flat[:n]
            ens = flat[n:].reshape(n, m)
            check_case(obs, ens, f"grid n={n} m={m} {flat.tolist()}",
                       invariances=False)


def exhaustive_with_nan():
    vals = [np.nan, -1.0, 0.5]
    for n, m in [(2, 1), (2, 2), (3, 2)]:
        for o in itertools.product(vals, repeat=n):
            if all(np.isnan(v) for v in o):
                continue
            for e in itertools.product([-1.0, 0.5], repeat=n * m):
                check_case(np.array(o), np.array(e).reshape(n, m),
                           f"nan-grid n={n} m={m} {o} {e}",
                           invariances=False)


def random_cases(rng):
    # coarse grid => many exact ties; includes negative values and -0.0
    for it in range(250):
        n = int(rng.integers(1, 8))
        m = int(rng.integers(1, 8))
        obs = rng.integers(-8, 9, size=n) / 4.0
        ens = rng.integers(-8, 9, size=(n, m)) / 4.0
        if it % 3 == 0:
            obs = obs.astype(np.float64)
            k = rng.integers(0, n, size=max(1, n // 3))
            keep_one = int(rng.integers(0, n))
            obs[k] = np.nan
            if np.isnan(obs).all():
                obs[keep_one] = 0.25
        if it % 7 == 0:
            ens[ens == 0] = -0.0
        check_case(obs, ens, f"random-grid #{it} n={n} m={m}", rng=rng)

    # continuous values, various magnitudes
    for it in range(120):
        n = int(rng.integers(1, 30))
        m = int(rng.integers(1, 25))
        mag = float(10.0 ** rng.integers(-6, 7))
        obs = rng.normal(size=n) * mag
        ens = (obs[:, None] * rng.uniform(0, 1.5)
               + rng.normal(size=(n, m)) * mag)
        if it % 4 == 0 and n > 1:
            obs[rng.integers(0, n)] = np.nan
            if np.isnan(obs).all():
                obs[0] = mag
        check_case(obs, ens, f"random-cont #{it} n={n} m={m}", rng=rng)


def awkward_cases(rng):
    # lengths 1 and 2
    check_case([3.0], [[1.0]], "n=1 m=1", rng=rng)
    check_case([1.0], [[1.0]], "n=1 m=1 member == obs", rng=rng)
    check_case([0.0], [[-2.0, 2.0]], "n=1 m=2", rng=rng)
    check_case([1.0, -1.0], [[0.0], [0.0]], "n=2 m=1", rng=rng)
    check_case([1.0, -1.0], [[0.0, 0.0], [-1.0, 5.0]], "n=2 m=2", rng=rng)

    # single member == mean absolute error
    obs = rng.normal(size=17)
    ens = rng.normal(size=(17, 1))
    d = check_case(obs, ens, "m=1 is MAE", rng=rng)
    mae = float(np.mean(np.abs(obs - ens[:, 0])))
    if not close(d["crps"], mae, data_scale(obs, ens)):
        fail("m=1: crps is not the mean absolute error")

    # observation below / above the whole ensemble for every forecast
    ens = rng.normal(size=(9, 5))
    check_case(ens.min(axis=1) - 1.0, ens, "obs below all members", rng=rng)
    check_case(ens.max(axis=1) + 2.0, ens, "obs above all members", rng=rng)
    check_case(ens.min(axis=1), ens, "obs == lowest member", rng=rng)
    check_case(ens.max(axis=1), ens, "obs == highest member", rng=rng)
    check_case(np.full(9, -10.0), ens, "constant obs below", rng=rng)
    check_case(np.full(9, 10.0), ens, "constant obs above", rng=rng)

    # constant ensembles
    check_case(rng.normal(size=6), np.full((6, 4), 0.75),
               "constant ensemble (same for all forecasts)", rng=rng)
    c = rng.normal(size=6)
    check_case(rng.normal(size=6), np.repeat(c[:, None], 4, axis=1),
               "constant ensemble per forecast", rng=rng)
    check_case(c, np.repeat(c[:, None], 4, axis=1),
               "constant ensemble equal to obs", rng=rng)
    check_case(np.zeros(4), np.zeros((4, 3)), "all zeros", rng=rng)
    check_case(np.full(4, 2.0), rng.normal(size=(4, 3)),
               "constant observations", rng=rng)

    # ties: member == member, member == obs
    check_case([1.0, 1.0, 2.0], [[1.0, 1.0, 2.0, 2.0],
                                 [0.0, 1.0, 1.0, 1.0],
                                 [2.0, 2.0, 2.0, 3.0]], "ties", rng=rng)
    check_case([0.0, -0.0], [[-0.0, 0.0, 1.0], [0.0, -0.0, -1.0]],
               "signed zeros", rng=rng)

    # NaN observations: first, last, all but one
    ens = rng.normal(size=(6, 4))
    obs = rng.normal(size=6)
    for idx in [[0], [5], [0, 5], [1, 2, 3], [0, 1, 2, 3, 4],
                [1, 2, 3, 4, 5]]:
        o = obs.copy()
        o[idx] = np.nan
        check_case(o, ens, f"NaN obs at {idx}", rng=rng)

    # large / small magnitudes (finite)
    ens = rng.normal(size=(5, 6))
    obs = rng.normal(size=5)
    for f in [2.0**-200, 2.0**200, 1e100, 1e-100]:
        check_case(obs * f, ens * f, f"magnitude {f}", invariances=False)

    # many members / many forecasts
    check_case(rng.normal(size=3), rng.normal(size=(3, 300)),
               "300 members", rng=rng)
    check_case(rng.normal(size=300), rng.normal(size=(300, 3)),
               "300 forecasts", rng=rng)

    # already sorted / reverse sorted members
    ens = np.sort(rng.normal(size=(8, 7)), axis=1)
    obs = rng.normal(size=8)
    check_case(obs, ens, "members sorted", rng=rng)
    check_case(obs, ens[:, ::-1].copy(), "members reverse sorted", rng=rng)


def state_and_layout(rng):
    """ results must not depend on earlier calls, on the memory layout of
    the float64 arrays, or on what the caller does with returned objects """
    obs = rng.normal(size=12)
    obs[[3, 7]] = np.nan
    ens = rng.normal(size=(12, 6))
    sc = data_scale(obs, ens)
    base, tbase = run(obs, ens)
    tbase = tbase.values.copy()

    def same(dd, what):
        for k in base:
            if not close(dd[k], base[k], sc):
                fail(f"state/layout: {what}: {k} {dd[k]!r} vs {base[k]!r}")

    # interleave calls of other shapes, then the first input again
    for n, m in [(1, 1), (30, 2), (2, 30), (12, 6), (12, 5), (11, 6)]:
        o = rng.normal(size=n)
        e = rng.normal(size=(n, m))
        check_case(o, e, f"interleaved n={n} m={m}", invariances=False)
        same(run(obs, ens)[0], f"after call with n={n} m={m}")

    # same shape, one value changed: the answer must change accordingly
    e2 = ens.copy()
    e2[0, 0] += 1.0
    check_case(obs, e2, "one member changed", invariances=False)
    o2 = obs.copy()
    o2[0] += 1.0
    check_case(o2, ens, "one obs changed", invariances=False)
    same(run(obs, ens)[0], "original input after perturbed inputs")

    # mutate what was returned, call again
    cr, tb = metrics.crps(obs, ens)
    cr[:] = -99.0
    tb.iloc[:, :] = -99.0
    d, t = run(obs, ens)
    same(d, "after the caller overwrote the returned objects")
    if not np.allclose(t.values, tbase, rtol=1e-9, atol=1e-12 * sc,
                       equal_nan=True):
        fail("state/layout: table changed after caller overwrote it")

    # the caller changes its arrays in place between calls
    o3, e3 = obs.copy(), ens.copy()
    run(o3, e3)
    o3[1] = 5.0
    e3[2, :] = 1.0
    check_case(o3, e3, "arrays modified in place between calls",
               invariances=False)

    # float64 data in other memory layouts / containers
    same(run(obs, np.asfortranarray(ens))[0], "Fortran-ordered ens")
    big = np.zeros((24, 12))
    big[::2, ::2] = ens
    same(run(obs, big[::2, ::2])[0], "strided ens view")
    ob = np.zeros(24)
    ob[::2] = obs
    same(run(ob[::2], ens)[0], "strided obs view")
    same(run(obs[:, None], ens)[0], "obs as [n,1]")
    ro_o, ro_e = obs.copy(), ens.copy()
    ro_o.setflags(write=False)
    ro_e.setflags(write=False)
    same(run(ro_o, ro_e)[0], "read-only arrays")
    same(run(obs.tolist(), ens.tolist())[0], "lists of floats")


def main():
    rng = np.random.default_rng(20240501)
    awkward_cases(rng)
    exhaustive_small()
    exhaustive_with_nan()
    random_cases(rng)
    state_and_layout(rng)
    extra = globals().get("extra_checks")
    if extra is not None:
        extra(rng)

    print(f"{NCHECKS} inputs checked, {len(FAILURES)} failures")
    if FAILURES:
        sys.exit(1)
    print("C03 demo OK")
    sys.exit(0)


def extra_checks(rng):
    """ Repeated-call behaviour: many different inputs are interleaved and
    revisited; every call is compared with the exact definition, and a
    revisit must reproduce the first answer bit for bit. Returned objects
    must be new objects on every call. """
    pool = []
    for it in range(60):
        n = int(rng.integers(1, 6))
        m = int(rng.integers(1, 6))
        obs = rng.integers(-4, 5, size=n) / 2.0
        ens = rng.integers(-4, 5, size=(n, m)) / 2.0
        if it % 4 == 0 and n > 1:
            obs[int(rng.integers(0, n))] = np.nan
        if np.isnan(obs).all():
            obs[0] = 1.5
        first, tfirst = run(obs, ens)
        pool.append((obs, ens, first, tfirst.values.copy()))

    for rep in range(3):
        for j in rng.permutation(len(pool)):
            obs, ens, first, tfirst = pool[j]
            check_case(obs, ens, f"revisit #{j}", invariances=False)
            cr1, tb1 = metrics.crps(obs, ens)
            cr2, tb2 = metrics.crps(obs.copy(), ens.copy())
            for k in first:
                if float(cr1[k]) != first[k] or float(cr2[k]) != first[k]:
                    fail(f"revisit #{j}: {k} not reproduced exactly")
            if not np.array_equal(tb1.values, tfirst, equal_nan=True):
                fail(f"revisit #{j}: table not reproduced exactly")
            if cr1 is cr2 or tb1 is tb2:
                fail(f"revisit #{j}: the same object was returned twice")
            if np.shares_memory(cr1.values, cr2.values) or \
                    np.shares_memory(tb1.values, tb2.values):
                fail(f"revisit #{j}: returned objects share memory")
            # spoil what was returned
            cr1[:] = np.nan
            tb1.iloc[:, :] = np.nan

    # same numbers, different split between forecasts and members
    flat = rng.integers(-4, 5, size=12) / 2.0
    for n, m in [(1, 12), (2, 6), (3, 4), (4, 3), (6, 2), (12, 1)]:
        for o in [np.zeros(n), np.arange(n) / 2.0]:
            check_case(o, flat.reshape(n, m), f"same bytes as {n}x{m}",
                       invariances=False)

    # different inputs that reduce to the same valid forecasts, and
    # inputs that only differ in ignored forecasts
    obs = np.array([1.0, np.nan, -0.5, np.nan])
    ens = np.array([[0.0, 2.0], [9.0, 9.0], [1.0, 1.0], [-9.0, 3.0]])
    a = check_case(obs, ens, "with ignored forecasts", rng=rng)
    b = check_case(obs[[0, 2]], ens[[0, 2]], "without them", rng=rng)
    ens2 = ens.copy()
    ens2[[1, 3]] = 123.0
    c = check_case(obs, ens2, "other ignored members", rng=rng)
    for k in a:
        if not (close(a[k], b[k], 10.0) and close(a[k], c[k], 10.0)):
            fail(f"ignored forecasts matter for {k}")

    # values that compare equal but are stored differently (signed zero)
    d1 = check_case([0.0, 1.0], [[0.0, -1.0], [0.0, 2.0]], "zeros +",
                    invariances=False)
    d2 = check_case([-0.0, 1.0], [[-0.0, -1.0], [-0.0, 2.0]], "zeros -",
                    invariances=False)
    for k in d1:
        if not close(d1[k], d2[k], 2.0):
            fail(f"sign of zero matters for {k}")


if __name__ == "__main__":
    main()
