#!/usr/bin/env python
""" C16 demo: catchment / grid intersection and Voronoi weights conserve area.

Run as:  PYTHONPATH=<tree>/src /venv/bin/python demo.py

The oracle is written with exact rational arithmetic (fractions.Fraction) on
inputs whose coordinates are small dyadic numbers, so that every floating
point operation performed by the library on the way to a *decision* (which
grid cell, which point is closest, is it a tie) is exact. The numerical
*values* of the weights are compared with a relative tolerance of 1e-12
(the property fixes them as "count times area ratio" and "fraction of
cells", not to the last bit).

Exit status 0 = every check passed.
"""
import sys
import copy
import math
import itertools
import warnings
from fractions import Fraction as F

import numpy as np

from hydrodiy.gis.grid import Grid, Catchment, voronoi

warnings.simplefilter("ignore")

RTOL = 1e-12
NCHECKS = {"intersect": 0, "intersect_nooverlap": 0, "voronoi": 0,
           "history": 0}


def fail(msg):
    print("FAIL:", msg)
    sys.exit(1)


def close(a, b, rtol=RTOL, atol=0.):
    return abs(a-b) <= atol + rtol*max(abs(a), abs(b))


# --------------------------------------------------------------------------
# Construction helpers
# --------------------------------------------------------------------------
def make_catchment(ncols, nrows, csz, xll, yll, cells, cells_filled=None,
                   name="demo"):
    fd = Grid("fd", ncols, nrows, cellsize=csz, xllcorner=xll,
              yllcorner=yll, dtype=np.int64)
    ca = Catchment(name, fd)
    ca._idxcells_area = np.array(sorted(cells) if isinstance(cells, set)
                                 else list(cells), dtype=np.int64)
    if cells_filled is None:
        cells_filled = cells
    ca._idxcells_area_filled = np.array(
        sorted(cells_filled) if isinstance(cells_filled, set)
        else list(cells_filled), dtype=np.int64)
    return ca


def centre(ncols, nrows, csz, xll, yll, idx):
    """ Exact centre of cell idx (cells numbered row by row from the top
    left corner) """
    col = idx % ncols
    row = idx // ncols
    x = F(xll)+F(csz)*(F(col)+F(1, 2))
    y = F(yll)+F(csz)*(F(nrows-1-row)+F(1, 2))
    return x, y


# --------------------------------------------------------------------------
# Intersection oracle and check
# --------------------------------------------------------------------------
def oracle_intersect(fine, cells, coarse):
    """ dict {grid cell: number of catchment cells whose centre falls in it}
    """
    ncols, nrows, csz, xll, yll = fine
    gncols, gnrows, gcsz, gxll, gyll = coarse
    counts = {}
    for idx in cells:
        x, y = centre(ncols, nrows, csz, xll, yll, int(idx))
        fx = math.floor((x-F(gxll))/F(gcsz))
        fy = math.floor((y-F(gyll))/F(gcsz))
        if 0 <= fx < gncols and 0 <= fy < gnrows:
            gcell = (gnrows-1-fy)*gncols+fx
            counts[gcell] = counts.get(gcell, 0)+1
    return counts


def check_intersect_result(res, fine, cells, coarse, grid, label):
    ncols, nrows, csz, xll, yll = fine
    gncols, gnrows, gcsz, gxll, gyll = coarse
    counts = oracle_intersect(fine, cells, coarse)
    if len(counts) == 0:
        fail(f"{label}: check_intersect_result called without overlap")

    area_grid, idxcells, weights = res
    idxcells = np.asarray(idxcells)
    weights = np.asarray(weights)

    if idxcells.ndim != 1 or weights.ndim != 1 \
            or len(idxcells) != len(weights):
        fail(f"{label}: idxcells / weights are not matching 1d arrays")

    if not np.issubdtype(idxcells.dtype, np.integer):
        fail(f"{label}: idxcells is not integer")

    # each grid cell appears exactly once, and it is the expected set
    lst = [int(i) for i in idxcells]
    if len(set(lst)) != len(lst):
        fail(f"{label}: a grid cell is listed twice {lst}")
    if set(lst) != set(counts):
        fail(f"{label}: grid cells {sorted(lst)} != "
             + f"expected {sorted(counts)}")

    # weight = count * ratio of cell areas
    ratio = float((F(csz)/F(gcsz))**2)
    for gc, w in zip(lst, weights):
        expected = counts[gc]*ratio
        if not (w > 0 and close(float(w), expected)):
            fail(f"{label}: weight of cell {gc} is {w}, "
                 + f"expected {expected}")

    # conservation: sum weights x grid cell area = catchment area inside grid
    ninside = sum(counts.values())
    a1 = float(np.sum(weights))*float(gcsz)**2
    a2 = ninside*float(csz)**2
    if not close(a1, a2, rtol=1e-11):
        fail(f"{label}: area not conserved {a1} != {a2}")

    # weight grid : geometry within parent
    rows = [gc//gncols for gc in lst]
    cols = [gc % gncols for gc in lst]
    r0, r1, c0, c1 = min(rows), max(rows), min(cols), max(cols)
    for nm, val in [("rows_start", r0), ("rows_end", r1),
                    ("cols_start", c0), ("cols_end", c1)]:
        got = getattr(area_grid, "parentgrid_"+nm)
        if int(got) != val or got != val:
            fail(f"{label}: parentgrid_{nm} = {got}, expected {val}")

    for nm, val in [("ncols", gncols), ("nrows", gnrows),
                    ("cellsize", gcsz), ("xllcorner", gxll),
                    ("yllcorner", gyll), ("name", grid.name)]:
        got = getattr(area_grid, "parentgrid_"+nm)
        if got != val:
            fail(f"{label}: parentgrid_{nm} = {got}, expected {val}")

    data = np.asarray(area_grid.data)
    if data.shape != (r1-r0+1, c1-c0+1):
        fail(f"{label}: area grid shape {data.shape}")
    if int(area_grid.nrows) != r1-r0+1 or int(area_grid.ncols) != c1-c0+1:
        fail(f"{label}: area grid nrows/ncols")
    if float(area_grid.cellsize) != float(gcsz):
        fail(f"{label}: area grid cellsize")

    expected = np.zeros(data.shape)
    for gc, w in zip(lst, weights):
        expected[gc//gncols-r0, gc % gncols-c0] = w
    if not np.array_equal(data, expected):
        fail(f"{label}: weight grid data do not sit at the matching "
             + f"rows/columns\n{data}\n{expected}")

    # .. the same weights sit at the matching place of the parent grid
    parent = np.zeros((gnrows, gncols))
    parent[r0:r1+1, c0:c1+1] = data
    for gc, w in zip(lst, weights):
        if parent.flat[gc] != w:
            fail(f"{label}: parent placement wrong for cell {gc}")
    if np.count_nonzero(parent) != len(lst):
        fail(f"{label}: spurious non-zero weights in grid")

    # .. and the area grid is georeferenced consistently with the parent
    tol = 1e-9*float(gcsz)
    exp_xll = float(F(gxll)+c0*F(gcsz))
    exp_yll = float(F(gyll)+(gnrows-1-r1)*F(gcsz))
    if abs(float(area_grid.xllcorner)-exp_xll) > tol \
            or abs(float(area_grid.yllcorner)-exp_yll) > tol:
        fail(f"{label}: area grid corner ({area_grid.xllcorner}, "
             + f"{area_grid.yllcorner}) expected ({exp_xll}, {exp_yll})")

    sub = np.arange(data.size)
    xy_sub = area_grid.cell2coord(sub)
    rc = area_grid.cell2rowcol(sub)
    par = (rc[:, 0]+r0)*gncols+rc[:, 1]+c0
    xy_par = grid.cell2coord(par)
    if not np.allclose(xy_sub, xy_par, rtol=0., atol=tol):
        fail(f"{label}: area grid cell centres differ from parent's")

    NCHECKS["intersect"] += 1


def run_intersect(ca, fine, coarse, filled, label, cells=None):
    """ Run intersect and compare with oracle. Expects an error if there is
    no overlap at all. """
    gncols, gnrows, gcsz, gxll, gyll = coarse
    grid = Grid("coarse", gncols, gnrows, cellsize=gcsz,
                xllcorner=gxll, yllcorner=gyll)
    grid.data = np.arange(gnrows*gncols).reshape((gnrows, gncols))\
        .astype(np.float64)
    gdata0 = grid.data.copy()

    if cells is None:
        cells = ca._idxcells_area_filled if filled else ca._idxcells_area
    cells0 = np.array(cells).copy()
    cells_obj = ca._idxcells_area_filled if filled else ca._idxcells_area

    counts = oracle_intersect(fine, cells0, coarse)
    if len(counts) == 0:
        try:
            res = ca.intersect(grid, filled=filled)
        except Exception:
            NCHECKS["intersect_nooverlap"] += 1
            return None
        # If something is returned, it must be an empty intersection
        if len(res[1]) != 0 or len(res[2]) != 0:
            fail(f"{label}: no overlap but cells returned")
        NCHECKS["intersect_nooverlap"] += 1
        return None

    res = ca.intersect(grid, filled=filled)
    check_intersect_result(res, fine, cells0, coarse, grid, label)

    # inputs untouched
    if not np.array_equal(cells_obj, cells0):
        fail(f"{label}: catchment cells modified by intersect")
    if not np.array_equal(grid.data, gdata0):
        fail(f"{label}: grid data modified by intersect")
    return res


# --------------------------------------------------------------------------
# Voronoi oracle and check
# --------------------------------------------------------------------------
def oracle_voronoi(fine, cells, points):
    ncols, nrows, csz, xll, yll = fine
    counts = [0]*len(points)
    for idx in cells:
        x, y = centre(ncols, nrows, csz, xll, yll, int(idx))
        best, jbest = None, 0
        for j, (px, py) in enumerate(points):
            d2 = (x-F(px))**2+(y-F(py))**2
            if best is None or d2 < best:   # strict: ties -> lowest index
                best, jbest = d2, j
        counts[jbest] += 1
    return counts


def run_voronoi(ca, fine, points, label, as_array=True):
    cells0 = ca._idxcells_area.copy()
    xy = np.array(points, dtype=np.float64) if as_array \
        else [list(map(float, p)) for p in points]
    xy0 = copy.deepcopy(xy)
    we = voronoi(ca, xy)
    we = np.asarray(we)

    if we.shape != (len(points),):
        fail(f"{label}: voronoi weights shape {we.shape}")
    counts = oracle_voronoi(fine, cells0, points)
    n = len(cells0)
    if np.any(~np.isfinite(we)) or np.any(we < 0):
        fail(f"{label}: voronoi weights negative or not finite {we}")
    if abs(float(np.sum(we))-1.) > 1e-12:
        fail(f"{label}: voronoi weights sum to {np.sum(we)}")
    for j in range(len(points)):
        if not close(float(we[j]), counts[j]/n, atol=1e-15):
            fail(f"{label}: voronoi weight {j} = {we[j]}, expected "
                 + f"{counts[j]}/{n} (points {points})")
        if counts[j] == 0 and we[j] != 0:
            fail(f"{label}: voronoi weight {j} should be exactly 0")

    if not np.array_equal(ca._idxcells_area, cells0):
        fail(f"{label}: catchment cells modified by voronoi")
    if as_array:
        if not np.array_equal(xy, xy0):
            fail(f"{label}: xypoints modified by voronoi")
    elif xy != xy0:
        fail(f"{label}: xypoints modified by voronoi")
    NCHECKS["voronoi"] += 1
    return we


# --------------------------------------------------------------------------
# Scenarios
# --------------------------------------------------------------------------
def coarse_grids(rng, fine, nrand):
    """ Coarse grids for a fine grid: aligned, shifted by fractions of a
    cell so that cell centres fall exactly on coarse cell edges, partial
    overlap, no overlap. """
    ncols, nrows, csz, xll, yll = fine
    out = []
    for ratio in [1, 1.5, 2, 2.5, 3, 4]:
        gcsz = csz*ratio
        nx = int(math.ceil(ncols/ratio))+1
        ny = int(math.ceil(nrows/ratio))+1
        # aligned on lower left corner, covers everything
        out.append((nx, ny, gcsz, xll, yll))
        # shifted by half a fine cell: centres of fine cells fall exactly
        # on coarse cell edges, including the outer edges of the grid
        out.append((nx, ny, gcsz, xll+csz/2, yll+csz/2))
        out.append((nx, ny, gcsz, xll-csz/2, yll+csz*1.5))
        # grid whose top/right outer edge passes through cell centres
        out.append((1, 1, gcsz, xll+csz/2-gcsz, yll+csz/2-gcsz))
        out.append((1, 1, gcsz, xll+csz/2, yll+csz/2))
        # single cell / single row / single column grids
        out.append((1, 1, gcsz, xll, yll))
        out.append((nx, 1, gcsz, xll-csz/4, yll+csz))
        out.append((1, ny, gcsz, xll+csz, yll-csz/4))
        # no overlap at all
        out.append((2, 2, gcsz, xll+ncols*csz+gcsz, yll))
        out.append((2, 3, gcsz, xll, yll-4*gcsz))
        out.append((2, 2, gcsz, xll+ncols*csz, yll+nrows*csz))
        for _ in range(nrand):
            ox = rng.integers(-3*8, (ncols+1)*8)/8.*csz
            oy = rng.integers(-3*8, (nrows+1)*8)/8.*csz
            mx = int(rng.integers(1, nx+2))
            my = int(rng.integers(1, ny+2))
            out.append((mx, my, gcsz, xll+ox-gcsz, yll+oy-gcsz))
    return out


def cell_sets(rng, ncols, nrows, nrand):
    n = ncols*nrows
    allc = list(range(n))
    sets = [[0], [n-1], allc, list(range(ncols)),
            list(range(0, n, ncols))]
    if n >= 2:
        sets += [[0, n-1], [n-1, 0], [1, 0]]
    for _ in range(nrand):
        k = int(rng.integers(1, n+1))
        sets.append([int(i) for i in rng.permutation(n)[:k]])
    # Sorted version (what delineate_area produces need not be sorted,
    # so both are exercised)
    sets.append(sorted(sets[-1]))
    return sets


def points_sets(rng, fine, cells):
    ncols, nrows, csz, xll, yll = fine
    cx = [xll+csz*(c+0.5) for c in range(ncols)]
    cy = [yll+csz*(r+0.5) for r in range(nrows)]
    x0, y0 = float(centre(ncols, nrows, csz, xll, yll, cells[0])[0]), \
        float(centre(ncols, nrows, csz, xll, yll, cells[0])[1])
    out = []
    # one point : takes everything
    out.append([(xll-10*csz, yll+3*csz)])
    out.append([(x0, y0)])
    # two coincident points: all ties -> the first one
    out.append([(x0, y0), (x0, y0)])
    out.append([(xll-csz, yll-csz), (xll-csz, yll-csz), (x0, y0)])
    # symmetric points: cells of the axis are equidistant
    xm = xll+csz*ncols/2.
    ym = yll+csz*nrows/2.
    out.append([(xm-csz, ym), (xm+csz, ym)])
    out.append([(xm+csz, ym), (xm-csz, ym)])
    out.append([(xm, ym-2*csz), (xm, ym+2*csz), (xm-2*csz, ym),
                (xm+2*csz, ym)])
    out.append([(xll, yll), (xll, yll+nrows*csz), (xll+ncols*csz, yll),
                (xll+ncols*csz, yll+nrows*csz)])
    # points on two neighbouring cell centres (cells in between are ties)
    out.append([(cx[0], cy[0]), (cx[-1], cy[0]), (cx[0], cy[-1])])
    out.append([(x0+csz, y0), (x0-csz, y0), (x0, y0+csz), (x0, y0-csz),
                (x0+csz, y0+csz), (x0, y0)])
    # random : inside, outside, on centres, on corners (multiples of csz/2)
    for npts in [1, 2, 3, 4, 5, 6]:
        pts = []
        for _ in range(npts):
            px = xll+rng.integers(-6, 2*ncols+7)*csz/2.
            py = yll+rng.integers(-6, 2*nrows+7)*csz/2.
            pts.append((float(px), float(py)))
        out.append(pts)
    return out


def main():
    rng = np.random.default_rng(5446)

    # ---- 1. Exhaustive over all non-empty cell sets of tiny fine grids ---
    for (ncols, nrows) in [(1, 1), (2, 1), (1, 2), (2, 2), (3, 2)]:
        fine = (ncols, nrows, 0.5, -1.25, 2.5)
        n = ncols*nrows
        grids = coarse_grids(rng, fine, 0)
        grids = [g for g in grids if g[2] in (0.5, 0.75, 1., 2.)]
        for k in range(1, n+1):
            for cells in itertools.combinations(range(n), k):
                ca = make_catchment(ncols, nrows, *fine[2:], list(cells))
                for ig, coarse in enumerate(grids):
                    run_intersect(ca, fine, coarse, False,
                                  f"exh {ncols}x{nrows} {cells} g{ig}")
                for pts in points_sets(rng, fine, list(cells))[:12]:
                    run_voronoi(ca, fine, pts,
                                f"exh-vor {ncols}x{nrows} {cells}")

    # ---- 2. Random cell sets on larger fine grids --------------------
    configs = [(12, 12, 1., 0., 0.), (12, 12, 0.25, -3.5, 10.75),
               (7, 5, 2., 100., -64.), (5, 11, 0.5, -8.125, -8.125),
               (12, 1, 1., 3., 3.), (1, 12, 4., -16., 0.),
               (3, 3, 1., 0.5, 0.5), (4, 9, 0.125, 0.0625, 1.),
               (10, 8, 1., -1000., 2000.)]
    for ic, fine in enumerate(configs):
        ncols, nrows = fine[:2]
        grids = coarse_grids(rng, fine, 2)
        for ics, cells in enumerate(cell_sets(rng, ncols, nrows, 3)):
            # filled area is a superset of the area
            extra = [int(i) for i in rng.permutation(ncols*nrows)[:3]]
            filled_cells = list(cells)+[e for e in extra if e not in cells]
            ca = make_catchment(ncols, nrows, *fine[2:], cells,
                                filled_cells)
            for ig, coarse in enumerate(grids):
                for filled in [False, True]:
                    run_intersect(ca, fine, coarse, filled,
                                  f"rnd c{ic} s{ics} g{ig} f{filled}")
            for ip, pts in enumerate(points_sets(rng, fine, cells)):
                run_voronoi(ca, fine, pts, f"rnd-vor c{ic} s{ics} p{ip}",
                            as_array=(ip % 2 == 0))

    # ---- 3. Many catchment cells per grid cell (count x ratio) ----------
    fine = (12, 12, 1., 0., 0.)
    ca = make_catchment(12, 12, 1., 0., 0., list(range(144)))
    for gcsz, nn in [(3., 4), (4., 3), (1.5, 8), (2.5, 5), (3.5, 4)]:
        run_intersect(ca, fine, (nn, nn, gcsz, 0., 0.), False, "dense")
        run_intersect(ca, fine, (nn, nn, gcsz, -0.5, 0.5), True, "dense2")

    # ---- 4. Call histories on one and the same catchment object ----------
    fine = (8, 6, 0.5, -2., 1.)
    cells_a = [int(i) for i in rng.permutation(48)[:20]]
    cells_f = cells_a+[i for i in range(48) if i % 5 == 0
                       and i not in cells_a]
    ca = make_catchment(8, 6, 0.5, -2., 1., cells_a, cells_f)
    g1 = (3, 3, 1.5, -2.25, 0.75)
    g2 = (6, 5, 1., -3., 0.5)
    g3 = (1, 1, 2., -1., 2.)
    g4 = (2, 2, 1., 40., 40.)   # no overlap

    r1 = run_intersect(ca, fine, g1, False, "hist 1")
    keep = (r1[0].data.copy(), r1[1].copy(), r1[2].copy())
    r1b = run_intersect(ca, fine, g1, False, "hist 1 again")
    # the first result is not clobbered by the second call
    if not (np.array_equal(keep[0], r1[0].data)
            and np.array_equal(keep[1], r1[1])
            and np.array_equal(keep[2], r1[2])):
        fail("hist: first result changed by a second call")
    # and the caller may scribble over what was returned
    r1b[1][:] = -7
    r1b[2][:] = 99.
    r1b[0].data[:] = -3.
    r1b[0].xllcorner = 1e6
    if not (np.array_equal(keep[0], r1[0].data)
            and np.array_equal(keep[1], r1[1])
            and np.array_equal(keep[2], r1[2])):
        fail("hist: results of two calls share memory")
    run_intersect(ca, fine, g1, False, "hist 1 after scribble")
    run_intersect(ca, fine, g2, False, "hist 2 (larger grid)")
    run_intersect(ca, fine, g1, True, "hist 1 filled")
    run_intersect(ca, fine, g3, False, "hist 3 (1x1 grid)")
    run_intersect(ca, fine, g4, False, "hist 4 (no overlap)")
    run_intersect(ca, fine, g2, True, "hist 2 filled")
    run_intersect(ca, fine, g1, False, "hist 1 back")
    if not (np.array_equal(keep[0], r1[0].data)
            and np.array_equal(keep[1], r1[1])
            and np.array_equal(keep[2], r1[2])):
        fail("hist: first result changed by later calls")

    # in-place modification of the catchment cells between calls
    free = [i for i in range(48) if i not in cells_a]
    ca.idxcells_area[0] = free[0]
    ca.idxcells_area[-1] = free[1]
    run_intersect(ca, fine, g1, False, "hist in-place edit")
    run_intersect(ca, fine, g2, False, "hist in-place edit 2")
    # re-assignment with same length, then different length
    ca._idxcells_area = np.array(free[:20], dtype=np.int64)
    run_intersect(ca, fine, g1, False, "hist reassigned")
    ca._idxcells_area = np.array(free[:3], dtype=np.int64)
    run_intersect(ca, fine, g1, False, "hist reassigned short")
    run_voronoi(ca, fine, [(-2., 1.), (1., 3.), (0., 2.)], "hist vor")
    ca._idxcells_area_filled = np.array(free[2:9], dtype=np.int64)
    run_intersect(ca, fine, g2, True, "hist filled reassigned")
    run_intersect(ca, fine, g2, False, "hist unfilled after")

    # geometry of the flow direction grid changed between calls
    ca.flowdir.xllcorner = np.float64(-1.5)
    ca.flowdir.yllcorner = np.float64(1.25)
    fine2 = (8, 6, 0.5, -1.5, 1.25)
    run_intersect(ca, fine2, g1, False, "hist moved")
    run_intersect(ca, fine2, g2, True, "hist moved filled")
    run_voronoi(ca, fine2, [(-2., 1.), (1., 3.), (0., 2.)], "hist vor 2")
    run_voronoi(ca, fine2, [(-2., 1.), (1., 3.), (0., 2.)], "hist vor 3")
    ca.flowdir.cellsize = np.float64(0.25)
    fine3 = (8, 6, 0.25, -1.5, 1.25)
    run_intersect(ca, fine3, (4, 4, 0.5, -1.5, 1.25), False, "hist resized")
    run_voronoi(ca, fine3, [(-1., 1.5), (0., 2.)], "hist vor 4")

    # clones and sums behave as fresh objects
    cb = ca.clone()
    cb._idxcells_area = np.array([0, 1, 2, 9], dtype=np.int64)
    run_intersect(cb, fine3, (4, 4, 0.5, -1.5, 1.25), False, "hist clone")
    run_intersect(ca, fine3, (4, 4, 0.5, -1.5, 1.25), False, "hist orig")
    cc = ca+cb
    run_intersect(cc, fine3, (4, 4, 0.5, -1.5, 1.25), False, "hist sum")
    run_voronoi(cc, fine3, [(-1., 1.5), (0., 2.), (0., 2.)], "hist vor 5")

    # two catchments used alternately
    c1 = make_catchment(6, 6, 1., 0., 0., [0, 7, 14, 21, 28, 35])
    c2 = make_catchment(6, 6, 1., 0., 0., [5, 10, 15, 20, 25, 30, 31])
    f6 = (6, 6, 1., 0., 0.)
    for i in range(3):
        run_intersect(c1, f6, (3, 3, 2., 0., 0.), False, "alt 1")
        run_intersect(c2, f6, (3, 3, 2., 0., 0.), False, "alt 2")
        run_intersect(c2, f6, (2, 2, 3., 0., 0.), False, "alt 3")
        run_intersect(c1, f6, (2, 2, 3., 0., 0.), False, "alt 4")
        run_voronoi(c1, f6, [(0., 0.), (6., 6.)], "alt vor 1")
        run_voronoi(c2, f6, [(0., 0.), (6., 6.)], "alt vor 2")
    NCHECKS["history"] += 1

    # ---- 5. Catchment delineated the normal way ---------------------
    # all cells drain to the right, last column drains down: outlet is the
    # bottom right cell
    fd = Grid("fd", 6, 5, dtype=np.int64)
    data = np.full((5, 6), 1, dtype=np.int64)    # towards the right
    data[:, -1] = 4                              # downwards
    data[-1, -1] = 0                             # outlet
    fd.data = data
    ca = Catchment("delin", fd)
    ca.delineate_area(29)
    cells = [int(i) for i in ca.idxcells_area]
    if sorted(cells) != list(range(30)):
        fail(f"delineation of the demo catchment gives {cells}")
    if True:
        fine = (6, 5, 1., 0., 0.)
        cells_f = [int(i) for i in ca.idxcells_area_filled]
        run_intersect(ca, fine, (3, 3, 2., 0., 0.), False, "delin")
        run_intersect(ca, fine, (2, 2, 4., -1., -2.), True, "delin f",
                      cells=cells_f)
        run_voronoi(ca, fine, [(0., 0.), (6., 5.), (3., 2.5)], "delin vor")

    # ---- 6. Random call histories on long-lived objects --------------
    for ih in range(6):
        ncols, nrows = int(rng.integers(2, 10)), int(rng.integers(2, 10))
        n = ncols*nrows
        csz, xll, yll = 0.5, -1., 2.
        k = int(rng.integers(1, n+1))
        cells = [int(i) for i in rng.permutation(n)[:k]]
        ca = make_catchment(ncols, nrows, csz, xll, yll, cells,
                            cells+[i for i in range(n) if i % 3 == 0
                                   and i not in cells])
        for step in range(60):
            fine = (ncols, nrows, csz, xll, yll)
            op = int(rng.integers(0, 8))
            if op <= 2:
                grids = coarse_grids(rng, fine, 1)
                coarse = grids[int(rng.integers(0, len(grids)))]
                run_intersect(ca, fine, coarse, bool(rng.integers(0, 2)),
                              f"rh{ih} step{step}")
            elif op == 3:
                pts = points_sets(rng, fine, [int(ca._idxcells_area[0])])
                run_voronoi(ca, fine, pts[int(rng.integers(0, len(pts)))],
                            f"rh{ih} vor step{step}")
            elif op == 4:
                # in place edit of one cell (keeping cells distinct)
                arr = ca._idxcells_area if rng.integers(0, 2) \
                    else ca._idxcells_area_filled
                free = [i for i in range(n) if i not in arr]
                if free:
                    arr[int(rng.integers(0, len(arr)))] = \
                        free[int(rng.integers(0, len(free)))]
            elif op == 5:
                k = int(rng.integers(1, n+1))
                new = rng.permutation(n)[:k].astype(np.int64)
                if rng.integers(0, 2):
                    ca._idxcells_area = new
                else:
                    ca._idxcells_area_filled = new
            elif op == 6:
                xll = float(rng.integers(-8, 8))/4.
                yll = float(rng.integers(-8, 8))/4.
                csz = float(rng.choice([0.25, 0.5, 1.]))
                ca.flowdir.xllcorner = np.float64(xll)
                ca.flowdir.yllcorner = np.float64(yll)
                ca.flowdir.cellsize = np.float64(csz)
            else:
                ca = ca.clone()
        NCHECKS["history"] += 1

    print("C16 demo: all checks passed", NCHECKS)
    return 0


if __name__ == "__main__":
    sys.exit(main())
