#!/usr/bin/env python
""" C09 demo: data frames and header comments round-trip through
hydrodiy.io.csv.write_csv / read_csv.

Run as  PYTHONPATH=<tree>/src /venv/bin/python demo.py
Exits 0 when every check passes (on the unmodified and on the rewritten
tree), 1 otherwise.
"""
import sys
import itertools
import tempfile
import zipfile
from pathlib import Path

import numpy as np
import pandas as pd

from hydrodiy.io import csv

NCHECK = 0
FAILURES = []


def check(cond, label):
    global NCHECK
    NCHECK += 1
    if not cond:
        FAILURES.append(label)


# ----------------------------------------------------------------------
# Inputs (all inside the property's quantifier)
# ----------------------------------------------------------------------
TEXTS = ["plain", "a,b", 'say "hi"', "key: value", "#hash", "# lead hash",
         "it's", 'a,"b":#c', "x", " padded ", "::", '""', "#", ",",
         "semi;colon", "-- ---", "1,5", "10:30:00", "# nrow : 3",
         "trailing,", ",leading", 'q"', "UPPER lower 09"]

FLOATS = [0.0, -0.0, 1.0, -1.0, 0.5, 1.5, 2.5, -2.5, 0.000005, 0.000015,
          0.1 + 0.2, 1e-7, -1e-7, 123456789.123456789, -98765.4321012345,
          1e15 + 0.25, 3.141592653589793, 2.0/3.0, 1e-300, 1.7e12,
          0.999995, 0.9999949, 99.5, 1e5, 12345.678905]

INTS = [0, 1, -1, 2, 10, -999, 2**31, -2**31 - 1, 2**53 + 1,
        np.iinfo(np.int64).max, np.iinfo(np.int64).min, 7, 42]

FLOAT_FORMATS = ["%0.5f", "%0.2f", "%0.0f", "%0.10f", "%0.20f", "%.3e",
                 "%.12e", "%.17g", "%12.4f", None]

# Formats writing 17 significant digits or more
LONG_FORMATS = ["%0.20f", "%.17g", None]

COMMENTS = [
    {},
    {"a": "b"},
    {"co1": "comment", "co2": "comment 2"},
    {"url": "http://host.org:8080/path?x=1", "ratio": "a : b : c",
     "lead_colon": ":x", "hash": "# not a comment, # at all",
     "number": "12", "time": "10:45:00", "quotes": 'he said "no", twice'},
    {"k" * 25: "key with the maximum length", "z": "y: " + "v" * 200,
     "key_09_x": "mixed_key", "b2": "short -- dashes - ok",
     "comma": "a,b,c", "colon_end": "ends with colon:"},
]


def make_frames():
    rng = np.random.default_rng(5446)
    frames = {}

    # length 1 and 2, single column of each kind
    frames["f1x1"] = pd.DataFrame({"x": [1.234567891]})
    frames["i1x1"] = pd.DataFrame({"n": [-3]})
    frames["t1x1"] = pd.DataFrame({"txt": ['a,"b":#c']})
    frames["t1x1_hash"] = pd.DataFrame({"T": ["#starts with hash"]})
    frames["f2x1"] = pd.DataFrame({"x y": [0.5, -2.5]})
    frames["t2x2"] = pd.DataFrame({"first col": ["#a", "b,c"],
                                   "second-col": ['"q"', "d: e"]})
    frames["f1x1_nan_other"] = pd.DataFrame({"x": [np.nan], "k": [1]})

    # All the awkward floats, ints, texts
    n = len(FLOATS)
    frames["floats"] = pd.DataFrame({
        "Flt_1": FLOATS,
        "flt-neg": [-v for v in FLOATS],
        "with nan": [np.nan if i % 4 == 0 else v
                     for i, v in enumerate(FLOATS)],
        "all_nan": [np.nan] * n,
        "007": rng.normal(size=n) * 10.**rng.integers(-6, 7, size=n),
    })

    frames["ints"] = pd.DataFrame({
        "2020": INTS,
        "i-2": INTS[::-1],
        "small ints": np.arange(len(INTS), dtype=np.int32),
        "u8": np.arange(len(INTS), dtype=np.uint8),
    })

    frames["texts"] = pd.DataFrame({
        "t_first": TEXTS,
        "T 2": TEXTS[::-1],
        "t-3": [t + "|" + t for t in TEXTS],
    })

    # mixed, text first (so that data lines can start with a hash) and
    # text last, non default indexes
    m = len(TEXTS)
    mixed = pd.DataFrame({
        "name": TEXTS,
        "value 1": rng.uniform(-1, 1, size=m),
        "count": rng.integers(-1000, 1000, size=m),
        "Value_2": rng.normal(size=m) * 1e6,
        "label-x": [f"#{i}: {t}" for i, t in enumerate(TEXTS)],
    })
    mixed.loc[3, "value 1"] = np.nan
    mixed.index = rng.permutation(m) * 3 - 7
    frames["mixed"] = mixed

    mixed2 = mixed.iloc[:2, [1, 0, 2]].copy()
    mixed2.index = pd.date_range("2001-01-01", periods=2)
    frames["mixed_len2"] = mixed2

    frames["mixed_len1"] = mixed.iloc[[5], ::-1].copy()

    # wider frame
    frames["wide"] = pd.DataFrame(rng.normal(size=(4, 30)),
                                  columns=[f"c {i}-{i*i}_" + "ab"[i % 2]
                                           for i in range(30)])
    # longer frame
    frames["long"] = pd.DataFrame({
        "u": rng.uniform(size=500),
        "i": rng.integers(0, 5, size=500),
        "s": rng.choice(TEXTS, size=500)})

    return frames


# ----------------------------------------------------------------------
# Comparison
# ----------------------------------------------------------------------
def expected_float(x, fmt):
    """ Value that a correct decimal parser returns for x written with
    the float format """
    if np.isnan(x):
        return np.nan
    return float(repr(float(x)) if fmt is None else fmt % x)


def compare(df, back, cin, cout, fmt, label):
    check(isinstance(back, pd.DataFrame), label + " is frame")
    check([str(c) for c in back.columns] == list(df.columns),
          label + " column names")
    check(all(isinstance(c, str) for c in back.columns),
          label + " column names are str")
    check(back.shape[0] == df.shape[0], label + " nrows")
    check(back.shape[1] == df.shape[1], label + " ncols")
    if list(back.columns) != list(df.columns) \
            or back.shape != df.shape:
        return

    for icol, cn in enumerate(df.columns):
        x0 = df.iloc[:, icol]
        x1 = back.iloc[:, icol]
        lab = f"{label} col[{cn}]"
        if x0.dtype.kind == "f":
            v0 = x0.values.astype(np.float64)
            try:
                v1 = x1.values.astype(np.float64)
            except (ValueError, TypeError):
                check(False, lab + " float convertible")
                continue
            ve = np.array([expected_float(v, fmt) for v in v0])
            check(np.array_equal(np.isnan(v0), np.isnan(v1)),
                  lab + " nan positions")
            # value equal to the written decimal string. The slack is for
            # the default pandas float parser (not part of hydrodiy), which
            # is exact to a few ulp up to 15 digits but only to ~1e-9
            # relative when more than 17 digits are written.
            rtol = 1e-7 if fmt in LONG_FORMATS else 1e-12
            check(np.allclose(v1, ve, rtol=rtol, atol=0., equal_nan=True),
                  lab + " float values equal to formatted precision")
            # .. and hence close to the original
            if fmt in LONG_FORMATS:
                check(np.allclose(v1, v0, rtol=rtol, atol=1e-20,
                                  equal_nan=True), lab + " float values")

        elif x0.dtype.kind in "iu":
            check(x1.dtype.kind in "iu", lab + " integer dtype")
            check([int(v) for v in x1.values] == [int(v) for v in x0.values],
                  lab + " int values")
        else:
            check(x1.tolist() == x0.tolist(), lab + " text values")

    # Comments
    check(isinstance(cout, dict), label + " comment is dict")
    for key, val in cin.items():
        check(key in cout, f"{label} comment key {key}")
        check(cout.get(key) == val, f"{label} comment value {key}")
    check(cout.get("nrow") == str(df.shape[0]), label + " comment nrow")
    check(cout.get("ncol") == str(df.shape[1]), label + " comment ncol")


# ----------------------------------------------------------------------
# Storage modes
# ----------------------------------------------------------------------
def roundtrip_plain(tmp, tag, df, cin, fmt, src, **kw):
    f = tmp / f"{tag}_plain.csv"
    csv.write_csv(df, f, cin, src, compress=False, float_format=fmt, **kw)
    check(f.exists(), tag + " plain file exists")
    back, cout = csv.read_csv(f)
    compare(df, back, cin, cout, fmt, tag + " plain")
    # str file names
    back, cout = csv.read_csv(str(f))
    compare(df, back, cin, cout, fmt, tag + " plain(str)")


def roundtrip_compress(tmp, tag, df, cin, fmt, src, name, **kw):
    f = tmp / name
    csv.write_csv(df, f, cin, src, compress=True, float_format=fmt, **kw)
    back, cout = csv.read_csv(f)
    compare(df, back, cin, cout, fmt, f"{tag} compress[{name}]")


def roundtrip_archive(tmp, tag, df, cin, fmt, src, **kw):
    farc = tmp / f"{tag}_archive.zip"
    members = [f"folder_01/{tag}.csv", f"deep/er/sub folder/{tag}-2.csv",
               f"{tag}_base.csv"]
    with zipfile.ZipFile(farc, "w") as arc:
        for mb in members:
            csv.write_csv(df, mb, cin, src, archive=arc,
                          float_format=fmt, **kw)
    with zipfile.ZipFile(farc, "r") as arc:
        check(sorted(arc.namelist()) == sorted(members),
              tag + " archive members")
        for mb in members:
            back, cout = csv.read_csv(mb, archive=arc)
            compare(df, back, cin, cout, fmt, f"{tag} archive[{mb}]")

    # Append to an existing archive
    with zipfile.ZipFile(farc, "a") as arc:
        csv.write_csv(df, Path("appended") / "x.csv", cin, src,
                      archive=arc, float_format=fmt, **kw)
        back, cout = csv.read_csv("appended/x.csv", archive=arc)
        compare(df, back, cin, cout, fmt, f"{tag} archive[appended]")


def main():
    frames = make_frames()
    with tempfile.TemporaryDirectory() as tmpdir:
        tmp = Path(tmpdir)
        src = tmp / "script.py"
        src.write_text("# empty script\n")

        # 1. every frame x every float format (cycling over comments and
        # over the optional arguments not constrained by the property)
        cyc = itertools.cycle(range(len(COMMENTS)))
        for (fname, df), (ifmt, fmt) in itertools.product(
                frames.items(), enumerate(FLOAT_FORMATS)):
            ic = next(cyc)
            cin = COMMENTS[ic]
            tag = f"{fname}_fmt{ifmt}_c{ic}"
            kw = {"write_sys_info": bool((ic + ifmt) % 2)}
            if ifmt % 3 == 0:
                kw["author"] = "toto"
            df0 = df.copy()

            roundtrip_plain(tmp, tag, df, cin, fmt, src, **kw)
            for name in [f"{tag}_z1.csv", f"{tag}_z2.zip", f"{tag}_z3",
                         f"{tag}.with.dots.csv"]:
                roundtrip_compress(tmp, tag, df, cin, fmt, src, name, **kw)
            roundtrip_archive(tmp, tag, df, cin, fmt, src, **kw)

            # Input not modified by writing
            check(df.equals(df0) and list(df.index) == list(df0.index),
                  tag + " input frame untouched")

        # 2. every comment dict x a few frames, all storage modes
        for ic, cin in enumerate(COMMENTS):
            for fname in ["t1x1", "f2x1", "mixed"]:
                df = frames[fname]
                tag = f"com{ic}_{fname}"
                cin0 = dict(cin)
                roundtrip_plain(tmp, tag, df, cin, "%0.5f", src)
                roundtrip_compress(tmp, tag, df, cin, "%0.5f", src,
                                   tag + "_zz")
                roundtrip_compress(tmp, tag, df, cin, "%0.5f", src,
                                   tag + "_zz2.csv")
                roundtrip_archive(tmp, tag, df, cin, "%0.5f", src)
                check(cin == cin0, tag + " comment dict untouched")

        # 3. default arguments (compress=True, "%0.5f") and file names
        # given under the other accepted forms when reading
        df = frames["mixed"]
        cin = COMMENTS[3]
        csv.write_csv(df, tmp / "defaults.csv", cin, src)
        check((tmp / "defaults.zip").exists(), "defaults zip exists")
        check(not (tmp / "defaults.csv").exists(), "defaults no plain csv")
        for name in ["defaults.csv", "defaults.zip", "defaults"]:
            back, cout = csv.read_csv(tmp / name)
            compare(df, back, cin, cout, "%0.5f", f"defaults read[{name}]")

        # default rounding to 5 decimals
        x = np.array(FLOATS)
        dfx = pd.DataFrame({"x": x})
        csv.write_csv(dfx, tmp / "round5.csv", {}, src)
        back, _ = csv.read_csv(tmp / "round5.csv")
        check(np.all(np.abs(back["x"].values - x)
                     <= 0.5e-5 * (1 + 1e-9) + 4e-16 * np.abs(x)),
              "default format: 5 decimals")

    print(f"C09 demo: {NCHECK} checks, {len(FAILURES)} failures")
    for f in FAILURES[:40]:
        print("  FAILED:", f)
    return 1 if FAILURES else 0


if __name__ == "__main__":
    sys.exit(main())
