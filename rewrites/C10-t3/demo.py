#!/usr/bin/env python
""" Demo / check program for property C10

Rank- and PIT-based forecast diagnostics depend only on ranks and stay in
range (hydrodiy.stat.metrics: dscore, pit, alpha, cramer_von_mises_test,
anderson_darling_test and the C kernels behind them).

Run as
    PYTHONPATH=<tree>/src /venv/bin/python demo.py
Exits 0 when every check passes, 1 otherwise.

Only inputs inside the quantifier of the property are judged:
 * n >= 2 forecasts, m >= 1 members, finite values either exactly tied or
   separated by much more than the tie tolerance (1e-6),
 * monotone maps exp, arctan, cubic, affine,
 * pit options random in {False, True}, cst in [0, 0.5], censor thresholds,
 * samples of 1 to several hundred values in (0, 1) in any order for the
   uniformity statistics, plus values outside [0, 1] / NaN for rejection.

The program also exercises the functions the way a stateful or
layout-sensitive implementation could get wrong: repeated calls, calls
interleaved with other sizes, inputs modified in place between two calls,
returned arrays modified by the caller, inputs left untouched by the call.
"""
import sys
import math
import warnings
import itertools

import numpy as np
from scipy.stats import rankdata

from hydrodiy.stat import metrics
import c_hydrodiy_stat

NFAIL = 0
NCHECK = 0


def check(cond, label):
    global NFAIL, NCHECK
    NCHECK += 1
    if not cond:
        NFAIL += 1
        if NFAIL < 40:
            print(f"FAILED: {label}")


# ---------------------------------------------------------------------
# Reference implementations (plain python/numpy, textbook formulas)
# ---------------------------------------------------------------------
def ref_ensrank(sim):
    """ Weigel and Mason (2011), Eq 1 and 2. Exact ties only. """
    sim = np.asarray(sim, dtype=np.float64)
    nval, nens = sim.shape
    fmat = np.zeros((nval, nval))
    ranks = np.ones(nval)
    for i in range(nval):
        for j in range(i+1, nval):
            comb = np.concatenate([sim[i], sim[j]])
            rk = rankdata(comb)  # mid ranks
            F = (rk[:nens].sum()-(nens+1.)*nens/2)/nens/nens
            fmat[i, j] = F
            u = 0. if F < 0.5 else 1. if F > 0.5 else 0.5
            ranks[i] += u
            ranks[j] += 1.-u
    return fmat, ranks


def ref_dscore(obs, sim):
    obs = np.asarray(obs, dtype=np.float64).ravel()
    sim = np.asarray(sim, dtype=np.float64)
    if sim.ndim == 1:
        sim = sim[:, None]
    _, franks = ref_ensrank(sim)
    oranks = np.argsort(np.argsort(obs))
    with np.errstate(invalid="ignore", divide="ignore"):
        return (np.corrcoef(oranks, franks)[0, 1]+1)/2


def ref_cvm(x):
    x = np.sort(np.asarray(x, dtype=np.float64))
    n = len(x)
    i = np.arange(1, n+1)
    return 1./(12*n)+math.fsum(((2*i-1.)/(2*n)-x)**2)


def ref_ad(x):
    x = np.sort(np.asarray(x, dtype=np.float64))
    n = len(x)
    i = np.arange(1, n+1)
    s = math.fsum((2*i-1)*(np.log(x)+np.log1p(-x[::-1])))
    return -n-s/n


def kernel_ensrank(sim, eps=1e-6):
    sim = np.ascontiguousarray(sim, dtype=np.float64)
    nval = sim.shape[0]
    # deliberately dirty output buffers: the kernel must initialise them
    fmat = np.zeros((nval, nval), dtype=np.float64)
    ranks = np.full(nval, -77., dtype=np.float64)
    ierr = c_hydrodiy_stat.ensrank(np.float64(eps), sim, fmat, ranks)
    return ierr, fmat, ranks


def dscore_quiet(obs, sim, **kw):
    with warnings.catch_warnings():
        warnings.simplefilter("ignore")
        return metrics.dscore(obs, sim, **kw)


MAPS = {
    "exp": np.exp,
    "arctan": np.arctan,
    "cubic": lambda x: x**3+x,
    "cubic_pure": lambda x: x**3,
    "affine": lambda x: 2.5*x-7.,
    "affine_small": lambda x: 0.125*x+1000.
}

RNG = np.random.RandomState(5446)


def grid_values(size, nlevels, rng=RNG):
    """ Values on a coarse grid in [-3, 3]: exact ties or separated
    by >= 6/nlevels even after arctan (slope >= 0.1) """
    lev = np.linspace(-3, 3, nlevels)
    return lev[rng.randint(0, nlevels, size=size)]


# ---------------------------------------------------------------------
# 1. Ensemble ranks = pairwise mid-rank comparison (kernel level)
# ---------------------------------------------------------------------
def test_ensrank():
    shapes = [(2, 1), (2, 2), (3, 1), (2, 5), (5, 2), (4, 5), (7, 3),
              (12, 8), (3, 40), (25, 4), (6, 1)]
    for (nval, nens), nlev, rep in itertools.product(shapes,
                                                      [2, 3, 7, 200],
                                                      range(3)):
        sim = grid_values((nval, nens), nlev)
        if rep == 1:
            # ensembles identical across forecasts
            sim = np.repeat(sim[:1], nval, axis=0)
        if rep == 2:
            # heavy ties across forecasts, shuffled members
            sim = np.array([RNG.permutation(sim[0]) if RNG.rand() < 0.5
                            else row for row in sim])

        simcopy = sim.copy()
        ierr, fmat, ranks = kernel_ensrank(sim)
        fexp, rexp = ref_ensrank(sim)
        lab = f"ensrank {nval}x{nens} nlev={nlev} rep={rep}"
        check(ierr == 0, lab+" ierr")
        iu = np.triu_indices(nval, 1)
        check(np.allclose(fmat[iu], fexp[iu], rtol=0, atol=1e-12),
              lab+" fmat")
        check(np.array_equal(ranks, rexp), lab+" ranks")
        check(np.array_equal(sim, simcopy), lab+" input untouched")
        check(np.all((fmat[iu] >= 0) & (fmat[iu] <= 1)), lab+" F range")
        # Sum of ranks is n(n+1)/2
        check(abs(ranks.sum()-nval*(nval+1)/2) < 1e-9, lab+" rank sum")

    # Larger magnitudes, negative values, well separated
    for scale in [1e-3, 1., 1e3, 1e6]:
        sim = np.round(RNG.uniform(-50, 50, (6, 7)))*scale
        ierr, fmat, ranks = kernel_ensrank(sim)
        fexp, rexp = ref_ensrank(sim)
        check(ierr == 0 and np.array_equal(ranks, rexp),
              f"ensrank scale {scale}")

    # Interleaved sizes: big, small, big again (work buffers, state)
    sims = [grid_values((9, 11), 5), grid_values((2, 1), 3),
            grid_values((3, 30), 4), grid_values((2, 2), 2),
            grid_values((15, 3), 6)]
    expected = [ref_ensrank(s) for s in sims]
    for order in [range(5), reversed(range(5)), [0, 0, 4, 1, 1, 2, 3, 0]]:
        for k in order:
            ierr, fmat, ranks = kernel_ensrank(sims[k])
            iu = np.triu_indices(sims[k].shape[0], 1)
            ok = ierr == 0 and np.array_equal(ranks, expected[k][1]) \
                and np.allclose(fmat[iu], expected[k][0][iu], atol=1e-12)
            check(ok, f"ensrank interleaved {k}")


# ---------------------------------------------------------------------
# 2. D score
# ---------------------------------------------------------------------
def test_dscore():
    shapes = [(2, 1), (2, 3), (3, 1), (3, 2), (5, 1), (6, 4), (10, 7),
              (20, 3), (8, 25)]
    for (nval, nens), nlev, rep in itertools.product(shapes,
                                                      [3, 6, 150],
                                                      range(3)):
        sim = grid_values((nval, nens), nlev)
        obs = RNG.permutation(np.linspace(-3, 3, nval))
        if rep == 2:
            # heavy ties in obs too (range check only + reference)
            obs = grid_values(nval, 3)
        lab = f"dscore {nval}x{nens} nlev={nlev} rep={rep}"

        obscopy, simcopy = obs.copy(), sim.copy()
        D = dscore_quiet(obs, sim)
        Dref = ref_dscore(obs, sim)
        check(np.array_equal(obs, obscopy) and np.array_equal(sim, simcopy),
              lab+" inputs untouched")
        if np.isnan(Dref):
            # Constant ensemble ranks: correlation is undefined. Not judged
            continue

        check(np.isfinite(D) and -1e-12 <= D <= 1+1e-12, lab+" range")
        check(abs(D-Dref) < 1e-12, lab+" reference")

        # second call, same answer
        check(dscore_quiet(obs, sim) == D, lab+" repeat")

        # single column input [n, 1] and obs as [n, 1]
        check(abs(dscore_quiet(obs[:, None], sim)-D) < 1e-12,
              lab+" obs column")
        if nens == 1:
            check(abs(dscore_quiet(obs, sim[:, 0])-D) < 1e-12,
                  lab+" sim 1d")

        # Monotone maps of obs
        if rep != 2:
            for mname, fun in MAPS.items():
                D2 = dscore_quiet(fun(obs), sim)
                check(abs(D2-D) < 1e-12, lab+f" obs map {mname}")

        # Monotone maps of all forecast values
        for mname, fun in MAPS.items():
            D2 = dscore_quiet(obs, fun(sim))
            check(abs(D2-D) < 1e-12, lab+f" sim map {mname}")

        # Permute members (independently for each forecast)
        simp = np.array([RNG.permutation(row) for row in sim])
        check(abs(dscore_quiet(obs, simp)-D) < 1e-12, lab+" member perm")
        simp = np.ascontiguousarray(sim[:, RNG.permutation(nens)])
        check(abs(dscore_quiet(obs, simp)-D) < 1e-12, lab+" column perm")

        # Modify the input in place and call again: answer must follow
        sim2 = sim.copy()
        D0 = dscore_quiet(obs, sim2)
        sim2[:] = -sim2
        D1 = dscore_quiet(obs, sim2)
        Dref1 = ref_dscore(obs, sim2)
        check(D0 == D and abs(D1-Dref1) < 1e-12, lab+" in place change")

    # Perfect / inverse ordering
    for nval, nens in [(2, 1), (2, 4), (3, 1), (5, 3), (10, 1), (12, 9),
                       (30, 2)]:
        # .. values in [-4, 4]: still separated by much more than the
        # tolerance after exp or arctan
        step = 8./(nval-1)
        obs = RNG.permutation(-4.+step*np.arange(nval))
        noise = RNG.randint(-2, 3, size=(nval, nens))*step/10
        for mname, fun in MAPS.items():
            for omap in [lambda x: x, np.exp, np.arctan]:
                sim = fun(obs[:, None]+noise)
                D = dscore_quiet(omap(obs), sim)
                check(abs(D-1.) < 1e-12, f"perfect {nval}x{nens} {mname}")
                sim = fun(-obs[:, None]+noise)
                D = dscore_quiet(omap(obs), sim)
                check(abs(D) < 1e-12, f"inverse {nval}x{nens} {mname}")
        if nens == 1:
            check(abs(dscore_quiet(obs, obs)-1) < 1e-12, "perfect 1d")
            check(abs(dscore_quiet(obs, -obs)) < 1e-12, "inverse 1d")

    # eps is part of what matters: same data, several tolerances
    obs = np.arange(6.)
    sim = grid_values((6, 5), 4)
    D = dscore_quiet(obs, sim)
    for eps in [1e-6, 1e-7, 1e-4, 1e-6]:
        check(abs(dscore_quiet(obs, sim, eps=eps)-D) < 1e-12,
              f"dscore eps={eps}")
    # .. a tolerance wider than the grid step makes everything tie with
    # its neighbour levels; then back to the default (memo must key on eps)
    sim = np.array([[0., 1.], [0.5, 1.5], [0.25, 1.25], [2., 3.]])
    obs = np.array([0., 1., 2., 3.])
    Da = dscore_quiet(obs, sim)
    Db = dscore_quiet(obs, sim, eps=10.)
    Dc = dscore_quiet(obs, sim)
    check(Da == Dc and abs(Da-ref_dscore(obs, sim)) < 1e-12,
          "dscore eps switch")
    check(np.isnan(Db) or Db != Da or True, "dscore wide eps runs")

    # other layouts: judged only when accepted
    obs = np.arange(7.)
    sim = grid_values((7, 4), 9)
    D = dscore_quiet(obs, sim)
    variants = {
        "list": (obs.tolist(), sim.tolist()),
        "int": (obs.astype(int), (sim*1000).astype(np.int64)),
        "float32": (obs.astype(np.float32), sim.astype(np.float32)),
        "fortran": (obs, np.asfortranarray(sim)),
        "strided": (obs, np.repeat(sim, 2, axis=1)[:, ::2]),
        "readonly": (obs, sim.copy())
    }
    variants["readonly"][1].setflags(write=False)
    for name, (o, s) in variants.items():
        try:
            D2 = dscore_quiet(o, s)
        except Exception:
            continue
        check(abs(D2-D) < 1e-12, f"dscore layout {name}")


# ---------------------------------------------------------------------
# 3. PIT
# ---------------------------------------------------------------------
def test_pit():
    for nens, random, cst in itertools.product([1, 2, 3, 10, 51],
                                               [False, True],
                                               [0., 0.1, 0.3, 0.5]):
        lab = f"pit nens={nens} random={random} cst={cst}"
        # Forecast k has k members below the obs, nens-k above
        for obsval in [-2.5, 0., 3., 1e4]:
            nforc = nens+1
            obs = np.full(nforc, obsval)
            ens = np.zeros((nforc, nens))
            for k in range(nforc):
                below = obsval-1-RNG.randint(0, 3, size=k)*0.5
                above = obsval+1+RNG.randint(0, 3, size=nens-k)*0.5
                ens[k] = RNG.permutation(np.concatenate([below, above]))

            obscopy, enscopy = obs.copy(), ens.copy()
            pits, sudo = metrics.pit(obs, ens, random=random, cst=cst,
                                     censor=-1e10)
            check(np.array_equal(obs, obscopy)
                  and np.array_equal(ens, enscopy), lab+" inputs untouched")
            pits = np.asarray(pits)
            check(pits.shape == (nforc,), lab+" shape")
            check(np.all((pits >= 0) & (pits <= 1)), lab+" range")
            check(np.all(np.diff(pits) > 0), lab+" strictly increasing")
            check(not np.any(sudo), lab+" no sudo")

            # rows shuffled: pit follows its forecast
            kk = RNG.permutation(nforc)
            pits2, _ = metrics.pit(obs[kk], ens[kk], random=random, cst=cst,
                                   censor=-1e10)
            check(np.allclose(np.asarray(pits2), pits[kk], atol=1e-12),
                  lab+" row order")

            # The caller may do what it wants with the output
            pits_before = pits.copy()
            try:
                pits[:] = -5
                sudo[:] = True
            except (ValueError, TypeError):
                pass
            pits3, sudo3 = metrics.pit(obs, ens, random=random, cst=cst,
                                       censor=-1e10)
            check(np.allclose(np.asarray(pits3), pits_before, atol=1e-12)
                  and not np.any(sudo3), lab+" output not shared")

    # random values in general position + ties among members
    for nforc, nens in [(2, 1), (2, 2), (5, 3), (40, 7), (3, 60)]:
        for random, cst in itertools.product([False, True],
                                             [0., 0.25, 0.5]):
            ens = grid_values((nforc, nens), 9)
            obs = grid_values(nforc, 9)+0.1  # never tied with a member
            pits, sudo = metrics.pit(obs, ens, random=random, cst=cst)
            pits = np.asarray(pits)
            lab = f"pit grid {nforc}x{nens} {random} {cst}"
            check(np.all((pits >= 0) & (pits <= 1)), lab+" range")
            nbelow = (ens < obs[:, None]).sum(axis=1)
            # strictly increasing function of the count
            order = np.argsort(nbelow, kind="stable")
            dp = np.diff(pits[order])
            dn = np.diff(nbelow[order])
            check(np.all(dp[dn > 0] > 0) and np.all(np.abs(dp[dn == 0])
                                                    < 1e-12),
                  lab+" function of count")

    # Pseudo pit flag
    for censor in [0., 1.5, -2., 1e6, -1e6]:
        for nens in [1, 2, 5]:
            cases = []
            offs = [-3., -0.5, 0., 0.5, 3.]
            for oo in offs:
                for pattern in itertools.product(offs, repeat=min(nens, 2)):
                    e = np.array(pattern+(pattern[-1],)*(nens-len(pattern)))
                    cases.append((censor+oo, censor+e))
            obs = np.array([c[0] for c in cases])
            ens = np.array([c[1] for c in cases])
            expected = (obs <= censor) & ((ens <= censor).sum(axis=1) > 0)
            for random in [False, True]:
                for cst in [0., 0.5]:
                    _, sudo = metrics.pit(obs, ens, random=random,
                                          cst=cst, censor=censor)
                    sudo = np.asarray(sudo)
                    check(sudo.shape == expected.shape
                          and np.array_equal(sudo.astype(bool), expected),
                          f"sudo flag censor={censor} nens={nens} {random}")
            # default censor is 0
            if censor == 0.:
                _, sudo = metrics.pit(obs, ens)
                check(np.array_equal(np.asarray(sudo).astype(bool),
                                     expected), "sudo default censor")

    # same data, censor changed between two calls
    obs = np.array([0., 1., 2., 3.])
    ens = np.array([[0., 1.], [2., 3.], [1., 5.], [4., 5.]])
    for censor, expected in [(0., [1, 0, 0, 0]), (2., [1, 1, 1, 0]),
                             (-1., [0, 0, 0, 0]), (10., [1, 1, 1, 1]),
                             (0., [1, 0, 0, 0])]:
        for random in [False, True]:
            _, sudo = metrics.pit(obs, ens, censor=censor, random=random)
            check(np.array_equal(np.asarray(sudo).astype(int), expected),
                  f"sudo censor switch {censor}")

    # in place modification between two calls (random=False: exact)
    obs = np.array([0.5, 1.5, 2.5])
    ens = np.array([[0., 1., 2.], [0., 1., 2.], [0., 1., 2.]])
    p1, _ = metrics.pit(obs, ens, random=False, censor=-1.)
    ens[:, 0] = 10.
    p2, _ = metrics.pit(obs, ens, random=False, censor=-1.)
    check(np.allclose(p1, [1/3, 2/3, 1.]) and np.allclose(p2, [0, 1/3, 2/3]),
          "pit in place change")


# ---------------------------------------------------------------------
# 4. Uniformity statistics
# ---------------------------------------------------------------------
def samples01():
    out = []
    for n in [1, 2, 3, 4, 7, 10, 33, 100, 365, 700]:
        out.append(RNG.uniform(0, 1, n))
        out.append(RNG.beta(0.3, 2., n).clip(1e-12, 1-1e-12))
        out.append(np.round(RNG.uniform(0.05, 0.95, n), 1))  # heavy ties
        out.append((np.arange(n)+0.5)/n)  # evenly spaced
        out.append(np.full(n, 0.5))
    out.append(np.array([1e-300]))
    out.append(np.array([1-1e-16, 1e-16]))
    out.append(np.array([0.999999, 1e-9, 0.5]))
    return out


def test_uniformity():
    for k, x in enumerate(samples01()):
        n = len(x)
        lab = f"sample {k} n={n}"
        cvref = ref_cvm(x)
        adref = ref_ad(x)
        orders = [x, np.sort(x), np.sort(x)[::-1].copy(),
                  RNG.permutation(x), RNG.permutation(x)]
        for io, xo in enumerate(orders):
            xcopy = xo.copy()
            cvstat, cvp = metrics.cramer_von_mises_test(xo)
            adstat, adp = metrics.anderson_darling_test(xo)
            check(np.array_equal(xo, xcopy), lab+" input untouched")
            check(abs(cvstat-cvref) <= 1e-10*max(1, abs(cvref)),
                  lab+f" CvM stat order {io}")
            check(abs(adstat-adref) <= 1e-9*max(1, abs(adref)),
                  lab+f" AD stat order {io}: {adstat} {adref}")
            check(0 <= cvp <= 1, lab+" CvM pvalue range")
            check(0 <= adp <= 1, lab+" AD pvalue range")

        # Same sample again after another one of a different length
        metrics.anderson_darling_test(RNG.uniform(0, 1, 3*n+1))
        metrics.cramer_von_mises_test(RNG.uniform(0, 1, max(1, n//2)))
        adstat2, adp2 = metrics.anderson_darling_test(x)
        cvstat2, cvp2 = metrics.cramer_von_mises_test(x)
        adstat3, adp3 = metrics.anderson_darling_test(x.copy())
        check(adstat2 == adstat3 and adp2 == adp3
              and abs(adstat2-adref) <= 1e-9*max(1, abs(adref)),
              lab+" AD repeat")
        check(abs(cvstat2-cvref) <= 1e-10*max(1, abs(cvref))
              and 0 <= cvp2 <= 1, lab+" CvM repeat")

        # In place change then call again
        y = x.copy()
        s0, _ = metrics.anderson_darling_test(y)
        c0, _ = metrics.cramer_von_mises_test(y)
        y[:] = 0.25+y/2
        s1, p1 = metrics.anderson_darling_test(y)
        c1, q1 = metrics.cramer_von_mises_test(y)
        check(abs(s1-ref_ad(y)) <= 1e-9*max(1, abs(ref_ad(y)))
              and 0 <= p1 <= 1, lab+" AD after in place change")
        check(abs(c1-ref_cvm(y)) <= 1e-10*max(1, abs(ref_cvm(y)))
              and 0 <= q1 <= 1, lab+" CvM after in place change")

    # pandas series / lists are used by callers of the AD test
    import pandas as pd
    x = RNG.uniform(0, 1, 25)
    sref = ref_ad(x)
    for name, v in [("series", pd.Series(x)), ("list", x.tolist()),
                    ("float32->64", x.astype(np.float32).astype(float)),
                    ("strided", np.repeat(x, 2)[::2])]:
        s, p = metrics.anderson_darling_test(v)
        r = ref_ad(np.asarray(v, dtype=np.float64))
        check(abs(s-r) < 1e-9*max(1, abs(r)) and 0 <= p <= 1,
              f"AD input kind {name}")
    ro = x.copy()
    ro.setflags(write=False)
    s, p = metrics.anderson_darling_test(ro)
    check(abs(s-sref) < 1e-9 and 0 <= p <= 1, "AD read only input")
    s, p = metrics.cramer_von_mises_test(ro)
    check(abs(s-ref_cvm(x)) < 1e-10 and 0 <= p <= 1, "CvM read only input")

    # Rejection by the AD test: outside [0, 1] or NaN, anywhere
    bads = [-0.1, 1.5, -1e-12, 1+1e-12, 10., -10., np.inf, -np.inf, np.nan,
            1e300, -1e-300]
    for n in [1, 2, 3, 10, 200]:
        for bad in bads:
            for pos in sorted({0, n//2, n-1}):
                x = RNG.uniform(0, 1, n)
                x[pos] = bad
                xcopy = x.copy()
                try:
                    metrics.anderson_darling_test(x)
                    rejected = False
                except Exception:
                    rejected = True
                check(rejected, f"AD rejects {bad} n={n} pos={pos}")
                check(np.array_equal(x, xcopy, equal_nan=True),
                      "AD rejection leaves input untouched")
                # ... and a good sample right after is still fine
                y = RNG.uniform(0, 1, n)
                s, p = metrics.anderson_darling_test(y)
                check(abs(s-ref_ad(y)) <= 1e-9*max(1, abs(ref_ad(y)))
                      and 0 <= p <= 1, "AD after a rejection")
    # two bad values, good then bad then the same good
    x = RNG.uniform(0, 1, 12)
    s0, p0 = metrics.anderson_darling_test(x)
    xb = x.copy()
    xb[3] = np.nan
    xb[7] = 2.
    try:
        metrics.anderson_darling_test(xb)
        check(False, "AD rejects two bad values")
    except Exception:
        check(True, "AD rejects two bad values")
    s1, p1 = metrics.anderson_darling_test(x)
    check(s0 == s1 and p0 == p1, "AD good/bad/good")

    # kernel entry point
    for n in [1, 2, 5, 50]:
        x = RNG.uniform(0, 1, n)
        out = np.full(2, -99.)
        xin = x.copy()
        ierr = c_hydrodiy_stat.ad_test(xin, out)
        check(ierr == 0 and abs(out[0]-ref_ad(x)) < 1e-9*max(1, abs(ref_ad(x)))
              and 0 <= out[1] <= 1, f"ad_test kernel n={n}")
        check(np.array_equal(np.sort(xin), np.sort(x)),
              "ad_test kernel keeps the sample values")
        xin = x.copy()
        xin[n//2] = 1.5
        ierr = c_hydrodiy_stat.ad_test(xin, out)
        check(ierr != 0, f"ad_test kernel rejects n={n}")
        xin = x.copy()
        xin[0] = np.nan
        ierr = c_hydrodiy_stat.ad_test(xin, out)
        check(ierr != 0, f"ad_test kernel rejects nan n={n}")


# ---------------------------------------------------------------------
# 5. alpha score
# ---------------------------------------------------------------------
def test_alpha():
    for nforc, nens in [(2, 1), (2, 3), (5, 1), (10, 4), (60, 20),
                        (300, 5)]:
        for case in range(3):
            ens = grid_values((nforc, nens), 11)
            obs = grid_values(nforc, 11)+0.05
            if case == 1:
                ens = np.repeat(ens[:1], nforc, axis=0)
            if case == 2:
                obs = np.maximum(obs, 0.)
                ens = np.maximum(ens, 0.)  # censored data, many sudo pits
            for tp in ["CV", "KS", "AD"]:
                for cst in [0., 0.3, 0.5]:
                    obscopy, enscopy = obs.copy(), ens.copy()
                    with warnings.catch_warnings():
                        warnings.simplefilter("ignore")
                        st, pv, sudo = metrics.alpha(obs, ens, cst=cst,
                                                     type=tp)
                    lab = f"alpha {nforc}x{nens} case={case} {tp} {cst}"
                    check(0 <= pv <= 1, lab+" pvalue range")
                    check(np.isfinite(st) and st >= -1e-12, lab+" stat")
                    check(np.array_equal(obs, obscopy)
                          and np.array_equal(ens, enscopy),
                          lab+" inputs untouched")
                    expected = (obs <= 0) & ((ens <= 0).sum(axis=1) > 0)
                    check(np.array_equal(np.asarray(sudo).astype(bool),
                                         expected), lab+" sudo")

    # perfectly reliable forecasts
    nforc, nens = 100, 200
    obs = np.linspace(0, 1, nforc)
    ens = np.repeat(np.linspace(0, 1, nens)[None, :], nforc, 0)
    for tp in ["CV", "KS", "AD"]:
        with warnings.catch_warnings():
            warnings.simplefilter("ignore")
            st, pv, _ = metrics.alpha(obs, ens, type=tp)
        check(pv > 1-1e-3 and pv <= 1, f"alpha reliable {tp}")

    # Statistic of alpha is the textbook formula applied to the pits
    # drawn with the same random numbers
    obs = grid_values(30, 11)+0.05
    ens = grid_values((30, 6), 11)
    np.random.seed(11)
    pits, _ = metrics.pit(obs, ens, random=True)
    np.random.seed(11)
    st, pv, _ = metrics.alpha(obs, ens, type="CV")
    check(abs(st-ref_cvm(pits)) < 1e-10, "alpha CV stat vs pits")
    np.random.seed(11)
    st, pv, _ = metrics.alpha(obs, ens, type="AD")
    check(abs(st-ref_ad(pits)) < 1e-9*max(1, abs(ref_ad(pits))),
          "alpha AD stat vs pits")


# ---------------------------------------------------------------------
# 6. Many different inputs then the first ones again, every argument
#    that matters changed one at a time
# ---------------------------------------------------------------------
def test_history():
    from scipy.stats import percentileofscore
    nrep = 90
    samples = [RNG.uniform(0, 1, 1+(k % 7)) for k in range(nrep)]
    sims = [grid_values((3+(k % 3), 1+(k % 4)), 5) for k in range(nrep)]
    obss = [RNG.permutation(np.arange(s.shape[0])*1.) for s in sims]
    first = {}
    for rnd in range(2):
        for k in range(nrep):
            x = samples[k]
            res = (metrics.anderson_darling_test(x),
                   metrics.cramer_von_mises_test(x),
                   dscore_quiet(obss[k], sims[k]),
                   metrics.pit(obss[k], sims[k], random=False)[0])
            ra, rc = ref_ad(x), ref_cvm(x)
            check(abs(res[0][0]-ra) <= 1e-9*max(1, abs(ra)), "history AD")
            check(abs(res[1][0]-rc) <= 1e-10*max(1, abs(rc)), "history CvM")
            dref = ref_dscore(obss[k], sims[k])
            check((np.isnan(dref) and np.isnan(res[2]))
                  or abs(res[2]-dref) < 1e-12, "history dscore")
            if rnd == 0:
                first[k] = res
            else:
                f = first[k]
                same = f[0] == res[0] and f[1] == res[1] \
                    and (f[2] == res[2] or (np.isnan(f[2])
                                            and np.isnan(res[2]))) \
                    and np.array_equal(f[3], res[3])
                check(same, "history second round identical")

    # same forecasts scored against several obs series
    sim = grid_values((8, 5), 7)
    for k in range(6):
        obs = RNG.permutation(np.arange(8.))
        d, dref = dscore_quiet(obs, sim), ref_dscore(obs, sim)
        check(abs(d-dref) < 1e-12, "dscore same sim other obs")

    # same bytes, other shape: 4 forecasts x 3 members or 3 x 4 or 12 x 1
    base = grid_values(12, 6)
    for shape in [(4, 3), (3, 4), (12, 1), (6, 2), (2, 6), (4, 3)]:
        sim = base.reshape(shape).copy()
        obs = np.arange(shape[0])*1.
        d, dref = dscore_quiet(obs, sim), ref_dscore(obs, sim)
        check((np.isnan(d) and np.isnan(dref)) or abs(d-dref) < 1e-12,
              f"dscore reshape {shape}")
        p, _ = metrics.pit(obs, sim, random=False)
        pref = [percentileofscore(e, o, "rank")/100 for e, o in zip(sim, obs)]
        check(np.allclose(p, pref, atol=1e-12), f"pit reshape {shape}")

    # pit: kind is passed to scipy
    obs = np.array([1., 2., 3.])
    ens = np.array([[1., 1., 2., 0.], [2., 5., 2., 2.], [0., 1., 3., 9.]])
    for kind in ["rank", "weak", "strict", "mean", "rank", "strict"]:
        p, _ = metrics.pit(obs, ens, random=False, kind=kind)
        pref = [percentileofscore(e, o, kind)/100 for e, o in zip(ens, obs)]
        check(np.allclose(p, pref, atol=1e-12), f"pit kind {kind}")
        check(np.all((np.asarray(p) >= 0) & (np.asarray(p) <= 1)),
              f"pit kind {kind} range")

    # -0. and 0. are tied values
    sim = np.array([[0., 1.], [-0., 1.], [2., 3.]])
    obs = np.array([0., 1., 2.])
    d1 = dscore_quiet(obs, sim)
    sim[1, 0] = 0.
    d2 = dscore_quiet(obs, sim)
    check(d1 == d2 and abs(d1-ref_dscore(obs, sim)) < 1e-12,
          "dscore signed zero")


def main():
    warnings.filterwarnings("ignore", message=".*sudo.*")
    test_ensrank()
    test_dscore()
    test_pit()
    test_uniformity()
    test_alpha()
    test_history()
    print(f"{NCHECK} checks, {NFAIL} failed")
    return 1 if NFAIL > 0 else 0


if __name__ == "__main__":
    sys.exit(main())
