#!/usr/bin/env python
""" Demo for property C19 (hydrodiy.io.hyruns)

Batches partition the work and option grids enumerate every combination once.

Run as
    PYTHONPATH=<tree>/src /venv/bin/python demo.py

Exits 0 if every check passes, 1 otherwise. Only behaviour that the property
constrains is checked:
 * get_batch: contiguous, ordered, disjoint, covering, sizes differ by <= 1,
   for all 1 <= nbatch <= nelements; rejected calls raise an exception.
 * SiteBatch.search returns the batch containing the site.
 * OptionManager.from_cartesian_product enumerates each combination once.
 * dict / JSON / file round trip is equal in both directions, also with
   renamed dictionary keys and various contexts.
 * find returns exactly the tasks whose option equals the value.
"""
import os
import sys
import json
import math
import random
import tempfile
import itertools
from pathlib import Path

import numpy as np

from hydrodiy.io import hyruns

NCHECKS = 0
FAILURES = []


def check(cond, msg):
    global NCHECKS
    NCHECKS += 1
    if not cond:
        FAILURES.append(msg)
        if len(FAILURES) <= 20:
            print("FAIL:", msg)


def rejected(fun, *args, **kwargs):
    """ True if the call is rejected with an exception (any kind) """
    try:
        fun(*args, **kwargs)
    except Exception:
        return True
    return False


# ---------------------------------------------------------------------------
# 1. get_batch
# ---------------------------------------------------------------------------
def as_int_list(idx):
    """ Batch -> list of python ints (must be integer valued and 1d) """
    arr = np.asarray(idx)
    assert arr.ndim == 1, "batch is not 1d"
    assert np.issubdtype(arr.dtype, np.integer), "batch is not integer"
    return [int(i) for i in arr]


def check_partition(nelements, nbatch, pairwise=False):
    tag = f"get_batch(nelements={nelements}, nbatch={nbatch})"
    try:
        batches = [as_int_list(hyruns.get_batch(nelements, nbatch, ib))
                   for ib in range(nbatch)]
    except Exception as err:
        check(False, f"{tag}: unexpected error {err!r}")
        return

    sizes = [len(b) for b in batches]
    check(min(sizes) >= 1, f"{tag}: empty batch")
    check(max(sizes) - min(sizes) <= 1, f"{tag}: sizes differ by more than 1")
    check(sum(sizes) == nelements, f"{tag}: total size is not nelements")

    # contiguous inside each batch
    for ib, b in enumerate(batches):
        ok = b == list(range(b[0], b[0] + len(b))) if len(b) > 0 else False
        check(ok, f"{tag}: batch {ib} not contiguous")

    # ordered : batch i+1 starts right after batch i, first starts at 0,
    # last one ends at nelements-1
    check(batches[0][0] == 0, f"{tag}: first batch does not start at 0")
    check(batches[-1][-1] == nelements - 1,
          f"{tag}: last batch does not end at nelements-1")
    for ib in range(1, nbatch):
        check(batches[ib][0] == batches[ib - 1][-1] + 1,
              f"{tag}: batch {ib} does not follow batch {ib-1}")

    # cover every element exactly once
    allidx = list(itertools.chain.from_iterable(batches))
    check(allidx == list(range(nelements)),
          f"{tag}: concatenated batches are not 0..nelements-1")
    check(len(set(allidx)) == len(allidx), f"{tag}: batches overlap")

    if pairwise:
        # explicit pairwise disjointness
        for i, j in itertools.combinations(range(nbatch), 2):
            if set(batches[i]) & set(batches[j]):
                check(False, f"{tag}: batches {i} and {j} overlap")
                break


def check_partition_sparse(nelements, nbatch, rng):
    """ Large configurations : look at a few batches and their neighbours """
    q, r = divmod(nelements, nbatch)
    ibs = {0, 1, r - 1, r, r + 1, nbatch - 2, nbatch - 1}
    ibs |= {rng.randint(0, nbatch - 1) for _ in range(3)}
    for ib in sorted(ibs):
        if ib < 0 or ib >= nbatch:
            continue
        b = np.asarray(hyruns.get_batch(nelements, nbatch, ib))
        tag = f"get_batch({nelements}, {nbatch}, {ib})"
        check(b.ndim == 1 and np.issubdtype(b.dtype, np.integer),
              f"{tag}: not a 1d integer array")
        check(len(b) in (q, q + 1) and len(b) > 0, f"{tag}: wrong size")
        check(bool(np.all(np.diff(b) == 1)), f"{tag}: not contiguous")
        check(0 <= b[0] and b[-1] <= nelements - 1, f"{tag}: out of range")
        # position bracket valid for any layout with sizes in {q, q+1}
        check(ib * q <= b[0] <= ib * (q + 1), f"{tag}: impossible start")
        if ib == 0:
            check(b[0] == 0, f"{tag}: does not start at 0")
        if ib == nbatch - 1:
            check(b[-1] == nelements - 1, f"{tag}: does not end well")
        if ib > 0:
            bp = np.asarray(hyruns.get_batch(nelements, nbatch, ib - 1))
            check(bp[-1] + 1 == b[0], f"{tag}: does not follow previous")


def check_rejections(nelements, nbatch):
    """ nbatch valid here; check out-of-range indexes and too many batches """
    tag = f"get_batch(nelements={nelements}, nbatch={nbatch})"
    for ibatch in [-1, -2, -nbatch, -nbatch - 1, nbatch, nbatch + 1,
                   nbatch + 7, 10 * nbatch + 3]:
        if 0 <= ibatch < nbatch:
            continue
        check(rejected(hyruns.get_batch, nelements, nbatch, ibatch),
              f"{tag}: ibatch={ibatch} not rejected")

    for nb in [nelements + 1, nelements + 2, 2 * nelements + 1]:
        for ibatch in [0, 1, nelements - 1, nelements, nb - 1]:
            if ibatch < 0:
                continue
            check(rejected(hyruns.get_batch, nelements, nb, ibatch),
                  f"get_batch({nelements}, {nb}, {ibatch}) not rejected")


def demo_get_batch():
    # exhaustive to a bound
    nmax = 45
    for nelements in range(1, nmax + 1):
        for nbatch in range(1, nelements + 1):
            check_partition(nelements, nbatch, pairwise=nelements <= 16)
        for nbatch in {1, 2, nelements // 2 + 1, nelements}:
            if 1 <= nbatch <= nelements:
                check_rejections(nelements, nbatch)

    # random beyond the bound, all batches evaluated
    rng = random.Random(5446)
    for _ in range(120):
        nelements = rng.randint(nmax + 1, 1500)
        nbatch = rng.choice([1, 2, 3, rng.randint(1, min(nelements, 80)),
                             rng.randint(1, min(nelements, 80))])
        check_partition(nelements, nbatch)
        check_rejections(nelements, nbatch)

    for nelements in [46, 64, 97, 128, 200]:
        for nbatch in [nelements - 2, nelements - 1, nelements]:
            check_partition(nelements, nbatch)

    # large sizes, only a few batch indices are evaluated
    for _ in range(40):
        nelements = rng.randint(1000, 200000)
        nbatch = rng.choice([rng.randint(1, 2000),
                             rng.randint(1, nelements),
                             nelements - 1, nelements])
        nbatch = min(nbatch, 3000)
        check_partition_sparse(nelements, nbatch, rng)

    # numpy integer arguments
    for typ in [np.int64, np.int32, np.intp]:
        nelements, nbatch = typ(23), typ(4)
        batches = [as_int_list(hyruns.get_batch(nelements, nbatch, typ(ib)))
                   for ib in range(4)]
        allidx = list(itertools.chain.from_iterable(batches))
        check(allidx == list(range(23)), f"get_batch with {typ.__name__}")
        sizes = [len(b) for b in batches]
        check(max(sizes) - min(sizes) <= 1, f"sizes with {typ.__name__}")


# ---------------------------------------------------------------------------
# 2. SiteBatch
# ---------------------------------------------------------------------------
def demo_sitebatch():
    rng = random.Random(991)
    sitelists = []
    for nsites in list(range(1, 21)) + [37, 64, 101]:
        sitelists.append([f"site{i:04d}" for i in range(nsites)])
        ids = rng.sample(range(100000, 999999), nsites)
        sitelists.append(ids)
        sitelists.append([f"{i}A" for i in ids])

    for siteids in sitelists:
        nsites = len(siteids)
        nbatches = range(1, nsites + 1) if nsites <= 20 \
            else [1, 2, 3, nsites // 2, nsites - 1, nsites]
        for nbatch in nbatches:
            tag = f"SiteBatch(nsites={nsites}, nbatch={nbatch}, "\
                  + f"type={type(siteids[0]).__name__})"
            sb = hyruns.SiteBatch(siteids, nbatch)
            batches = [list(sb[ib]) for ib in range(nbatch)]
            flat = list(itertools.chain.from_iterable(batches))
            check(flat == list(siteids), f"{tag}: batches do not partition")
            sizes = [len(b) for b in batches]
            check(max(sizes) - min(sizes) <= 1, f"{tag}: sizes")

            for ib, b in enumerate(batches):
                for siteid in b:
                    found = sb.search(siteid)
                    ok = found is not None and int(found) == ib
                    check(ok, f"{tag}: search({siteid!r}) returned "
                          + f"{found!r}, expected {ib}")

            # rejected batch indices
            for ib in [-1, nbatch, nbatch + 3]:
                check(rejected(sb.__getitem__, ib),
                      f"{tag}: sb[{ib}] not rejected")


# ---------------------------------------------------------------------------
# 3. OptionManager
# ---------------------------------------------------------------------------
WORDS = ["a", "b", "abc", "ab", "A", "x1", "x12", "x_1", "_u", "alpha",
         "Alpha", "alpha_beta", "b2", "B", "model", "model2", "gr4j",
         "GR4J", "v", "vv", "calib", "valid", "k_fold", "z9", "Z"]
INTS = [0, 1, 2, 3, 10, 11, 12, 21, 100, 101, -1, -2, -10, -12, 7, 70, 1000]
NAMES = ["v1", "v2", "v3", "v4", "month", "model", "opt_a", "x", "_p",
         "Objfun", "k"]

CONTEXTS = [
    {},
    {"bidule": "test"},
    {"bidule": "test", "nval": 3, "flag": True, "ratio": 0.5},
    {"lst": [1, 2, 3], "nested": {"a": 1, "b": ["x", "y"]}, "none": None},
]


def make_values(rng, nval, kind):
    if kind == "int":
        return rng.sample(INTS, nval)
    if kind == "str":
        return rng.sample(WORDS, nval)
    nint = rng.randint(0, nval)
    vals = rng.sample(INTS, nint) + rng.sample(WORDS, nval - nint)
    rng.shuffle(vals)
    return vals


def make_options(rng, shape):
    """ shape : tuple with number of values per option """
    names = rng.sample(NAMES, len(shape))
    options = {}
    for name, nval in zip(names, shape):
        vals = make_values(rng, nval, rng.choice(["int", "str", "mixed"]))
        if nval == 1 and rng.random() < 0.5:
            # scalar given bare
            vals = vals[0]
        options[name] = vals
    return options


def as_list(v):
    return list(v) if isinstance(v, (list, tuple)) else [v]


def both_equal(opm, opm2):
    """ Equality in both directions, using == and != """
    return (opm == opm2) and (opm2 == opm) \
        and not (opm != opm2) and not (opm2 != opm)


def check_enumeration(opm, options, tag):
    names = list(options.keys())
    values = [as_list(options[n]) for n in names]
    expected = list(itertools.product(*values))
    nexp = math.prod(len(v) for v in values)
    check(opm.ntasks == nexp, f"{tag}: ntasks={opm.ntasks}, expected {nexp}")
    check(len(opm.tasks) == nexp, f"{tag}: len(tasks)")

    got = []
    for taskid in range(opm.ntasks):
        task = opm.get_task(taskid)
        check(task.taskid == taskid, f"{tag}: taskid")
        check(set(task.options.keys()) == set(names),
              f"{tag}: task {taskid} option names")
        check(task.options == opm.tasks[taskid],
              f"{tag}: task {taskid} options differ from opm.tasks")
        got.append(tuple(task.options[n] for n in names))
        # access through item / attribute
        for n in names:
            check(task[n] == task.options[n], f"{tag}: task[{n}]")
            check(getattr(task, n) == task.options[n], f"{tag}: task.{n}")

    # every combination, exactly once (types matter : 1 is not "1")
    def key(t):
        return tuple((type(x).__name__, x) for x in t)

    check(len(set(map(key, got))) == len(got), f"{tag}: duplicated combos")
    check(set(map(key, got)) == set(map(key, expected)),
          f"{tag}: combos differ from the cartesian product")

    # manager level options hold the values of each option
    check(list(opm.options.keys()) == names or
          set(opm.options.keys()) == set(names), f"{tag}: opm.options keys")
    for n, v in zip(names, values):
        check(list(opm.options[n]) == v, f"{tag}: opm.options[{n}]")


def check_roundtrip(opm, tag, tmpfile):
    knames = hyruns._DICT_KEYNAMES
    dd = opm.to_dict()
    expkeys = {"name", "tasks", knames["context_name"],
               knames["manager_options_name"]}
    check(set(dd.keys()) == expkeys, f"{tag}: to_dict keys {set(dd.keys())}")
    check(len(dd["tasks"]) == opm.ntasks, f"{tag}: to_dict ntasks")
    for taskid, td in enumerate(dd["tasks"]):
        exptk = {"taskid", knames["context_name"],
                 knames["task_options_name"]}
        check(set(td.keys()) == exptk, f"{tag}: task dict keys")
        check(td["taskid"] == taskid, f"{tag}: task dict taskid")
        check(td[knames["task_options_name"]] == opm.tasks[taskid],
              f"{tag}: task dict options")
        check(td[knames["context_name"]] == opm.context,
              f"{tag}: task dict context")

    # 1. dict
    opm2 = hyruns.OptionManager.from_dict(dd)
    check(both_equal(opm, opm2), f"{tag}: dict round trip not equal")
    check(opm2.ntasks == opm.ntasks, f"{tag}: dict round trip ntasks")
    check(opm2.context == opm.context, f"{tag}: dict round trip context")
    check(opm2.options == opm.options, f"{tag}: dict round trip options")
    check(opm2.tasks == opm.tasks, f"{tag}: dict round trip tasks")
    check(opm2.to_dict() == dd, f"{tag}: dict round trip to_dict")

    # 2. json string
    js = json.loads(json.dumps(dd))
    opm3 = hyruns.OptionManager.from_dict(js)
    check(both_equal(opm, opm3), f"{tag}: json round trip not equal")
    check(both_equal(opm2, opm3), f"{tag}: json vs dict round trip")
    check(opm3.tasks == opm.tasks, f"{tag}: json round trip tasks")
    check(opm3.to_dict() == dd, f"{tag}: json round trip to_dict")

    # 3. file
    if tmpfile is not None:
        fout = Path(tmpfile)
        if fout.exists():
            fout.unlink()
        opm.save(fout)
        check(fout.exists(), f"{tag}: file not saved")
        opm4 = hyruns.OptionManager.from_file(fout, wait_secs=0)
        check(both_equal(opm, opm4), f"{tag}: file round trip not equal")
        check(opm4.tasks == opm.tasks, f"{tag}: file round trip tasks")
        fout.unlink()

    return opm2, opm3


def check_find(opm, options, tag, rng, full=True):
    names = list(options.keys())
    values = {n: as_list(options[n]) for n in names}

    def same(found, expected, what):
        ok = sorted(int(i) for i in found) == sorted(expected) \
            and len(set(found)) == len(found)
        check(ok, f"{tag}: find({what}) = {list(found)}, "
              + f"expected {expected}")

    # single option
    for n in names:
        for v in values[n]:
            expected = [i for i, t in enumerate(opm.tasks) if t[n] == v]
            check(len(expected) > 0, f"{tag}: internal, no expected task")
            same(opm.find(**{n: v}), expected, f"{n}={v!r}")

        # values not in the option -> nothing found
        absent = [v for v in INTS + WORDS
                  if str(v) not in [str(x) for x in values[n]]]
        for v in rng.sample(absent, 3 if full else 1):
            same(opm.find(**{n: v}), [], f"{n}={v!r} (absent)")

    # several options
    if len(names) >= 2:
        combos = list(itertools.combinations(names, 2))
        if len(names) >= 3:
            combos.append(tuple(names))
        for ns in combos:
            picks = list(itertools.product(*[values[n] for n in ns]))
            if not full:
                picks = rng.sample(picks, min(len(picks), 4))
            for vs in picks:
                kw = dict(zip(ns, vs))
                expected = [i for i, t in enumerate(opm.tasks)
                            if all(t[n] == v for n, v in kw.items())]
                same(opm.find(**kw), expected, f"{kw}")

    # complete specification finds exactly one task
    for taskid in rng.sample(range(opm.ntasks), min(opm.ntasks, 5)):
        same(opm.find(**opm.tasks[taskid]), [taskid],
             f"{opm.tasks[taskid]}")


def demo_options(tmpfile):
    rng = random.Random(20240919)

    # All shapes : 1 to 4 options with 1 to 5 values each
    shapes = []
    for nopt in range(1, 5):
        shapes += list(itertools.product(range(1, 6), repeat=nopt))

    for ishape, shape in enumerate(shapes):
        options = make_options(rng, shape)
        context = CONTEXTS[ishape % len(CONTEXTS)]
        tag = f"OptionManager(options={options}, context={context})"
        opm = hyruns.OptionManager(**context)
        opm.from_cartesian_product(**options)

        small = math.prod(shape) <= 24
        check_enumeration(opm, options, tag)
        check_roundtrip(opm, tag, tmpfile if ishape % 7 == 0 else None)
        check_find(opm, options, tag, rng, full=small)

        # the round tripped manager finds the same tasks
        opm2 = hyruns.OptionManager.from_dict(
            json.loads(json.dumps(opm.to_dict())))
        n = list(options.keys())[0]
        v = as_list(options[n])[0]
        check(opm2.find(**{n: v}) == opm.find(**{n: v}),
              f"{tag}: find differs after round trip")

    # Hand written awkward cases
    cases = [
        dict(v1="a"),                          # single bare string
        dict(v1=3),                            # single bare int
        dict(v1=0),                            # bare zero
        dict(v1=-1, v2="x"),                   # bare negative int
        dict(v1="a", v2=[1, 2, 3]),
        dict(v1=["a"], v2=[1]),
        dict(v1=["a", "ab", "abc", "b", "ba"]),  # values prefix of others
        dict(v1=[1, 11, 111, 12, 21]),         # ints prefix of others
        dict(v1=[1, -1, 10, -10, 0]),
        dict(month=[1, 10, 11, 12, 2], model=["gr4j", "gr4j2"]),
        dict(a=["x", "X"], b=["_", "__"]),     # case, underscores
        dict(v1=["a", "b"], v2=[1, 2, 3], v3=["u", 5], v4=[0, "zero"]),
        dict(v1=[1, 2, 3, 4, 5], v2=[1, 2, 3, 4, 5],
             v3=[1, 2, 3, 4, 5], v4=[1, 2, 3, 4, 5]),   # same values
        dict(v1=["v1", "v2"], v2=["v2", "v1"]),  # values named like options
    ]
    for options in cases:
        for context in CONTEXTS:
            tag = f"OptionManager(options={options}, context={context})"
            opm = hyruns.OptionManager(**context)
            opm.from_cartesian_product(**options)
            check_enumeration(opm, options, tag)
            check_roundtrip(opm, tag, tmpfile)
            check_find(opm, options, tag, rng,
                       full=opm.ntasks <= 24)

    # Calling from_cartesian_product twice replaces the grid
    opm = hyruns.OptionManager(bidule="test")
    opm.from_cartesian_product(v1=[1, 2], v2=["a", "b"])
    options = dict(w=[3, 4, 5])
    opm.from_cartesian_product(**options)
    check_enumeration(opm, options, "second call to from_cartesian_product")
    check_roundtrip(opm, "second call", tmpfile)

    # Managers that differ are not equal after round trip
    opm_a = hyruns.OptionManager(bidule="test")
    opm_a.from_cartesian_product(v1=[1, 2], v2=["a", "b"])
    opm_b = hyruns.OptionManager(bidule="test")
    opm_b.from_cartesian_product(v1=[1, 2], v2=["a", "c"])
    opm_b2 = hyruns.OptionManager.from_dict(
        json.loads(json.dumps(opm_b.to_dict())))
    check(not (opm_a == opm_b2) and not (opm_b2 == opm_a),
          "different managers compare equal")

    # Renamed dictionary keys
    renames = [
        {"context_name": "config"},
        {"task_options_name": "items"},
        {"manager_options_name": "items"},
        {"manager_options_name": "truc", "task_options_name": "truc"},
        {"context_name": "ctx", "manager_options_name": "opts",
         "task_options_name": "topts"},
        {"context_name": "options", "manager_options_name": "context",
         "task_options_name": "context"},    # swapped
        {"context_name": "Context", "task_options_name": "Options"},
    ]
    base = [
        dict(v1=["a", "b"], v2=[1, 2, 3]),
        dict(v1="a"),
        dict(month=[1, 10, 11], model=["gr4j", "gr4j2"], k=7, x=["u", 2]),
    ]
    try:
        for rename in renames:
            hyruns.reset_dict_keyname()
            for key, name in rename.items():
                hyruns.set_dict_keyname(key, name)
            for key, name in rename.items():
                check(hyruns._DICT_KEYNAMES[key] == name,
                      f"rename {rename}: keyname not set")

            for options in base:
                for context in CONTEXTS:
                    tag = f"rename={rename} options={options} "\
                          + f"context={context}"
                    opm = hyruns.OptionManager(**context)
                    opm.from_cartesian_product(**options)
                    check_enumeration(opm, options, tag)
                    check_roundtrip(opm, tag, tmpfile)
                    check_find(opm, options, tag, rng)

                    # dict exported with renamed keys, read back with
                    # the same names
                    dd = opm.to_dict()
                    for key, name in rename.items():
                        if key == "task_options_name":
                            check(all(name in t for t in dd["tasks"]),
                                  f"{tag}: {name} not in task dict")
                        else:
                            check(name in dd, f"{tag}: {name} not in dict")

        # rejected key
        check(rejected(hyruns.set_dict_keyname, "truc", "truc"),
              "set_dict_keyname with unknown key not rejected")
    finally:
        hyruns.reset_dict_keyname()

    check(hyruns._DICT_KEYNAMES == {"context_name": "context",
                                    "task_options_name": "options",
                                    "manager_options_name": "options"},
          "reset_dict_keyname does not restore defaults")

    # After reset, default names are used again
    opm = hyruns.OptionManager(bidule="test")
    opm.from_cartesian_product(v1=["a", "b"], v2=[1, 2, 3])
    check(set(opm.to_dict().keys()) == {"name", "tasks", "context",
                                        "options"},
          "default key names after reset")
    check_roundtrip(opm, "after reset", tmpfile)


def main():
    demo_get_batch()
    n1 = NCHECKS
    print(f"get_batch   : {n1} checks")
    demo_sitebatch()
    n2 = NCHECKS
    print(f"SiteBatch   : {n2 - n1} checks")
    # Temporary json file (a file, no directory is created)
    fd, tmpfile = tempfile.mkstemp(prefix="demo_c19_", suffix=".json")
    os.close(fd)
    try:
        demo_options(tmpfile)
    finally:
        if os.path.exists(tmpfile):
            os.unlink(tmpfile)
    print(f"OptionManager: {NCHECKS - n2} checks")

    print(f"hyruns file : {hyruns.__file__}")
    if FAILURES:
        print(f"{len(FAILURES)} FAILURES out of {NCHECKS} checks")
        sys.exit(1)

    print(f"ALL {NCHECKS} CHECKS PASSED")
    sys.exit(0)


if __name__ == "__main__":
    main()
