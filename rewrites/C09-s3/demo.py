#!/usr/bin/env python
""" C09 demo - CSV files with comment headers round-trip through
hydrodiy.io.csv.write_csv / read_csv.

Run as   PYTHONPATH=<tree>/src /venv/bin/python demo.py

For every frame / comment dictionary / storage mode / float format below
(all inside the quantifier of the property) the file is written, read
back, and the following is checked:
  * same column names (as str), same number of rows and columns
  * text values equal, integer values equal, float values equal to the
    value of the decimal string produced by the float format (NaN stays NaN)
  * every caller comment comes back unchanged under its key, and the
    keys nrow / ncol hold the recorded counts
plus a series of call-history checks (repeated / interleaved / overwritten
files, mutation of inputs and outputs between calls, change of working
directory, several members in one archive).

Exit code 0 if all checks pass, 1 otherwise.
"""
import os
import sys
import tempfile
import zipfile
from pathlib import Path

import numpy as np
import pandas as pd

from hydrodiy.io import csv

NCHECKS = 0
FAILED = []


def check(cond, label):
    global NCHECKS
    NCHECKS += 1
    if not cond:
        FAILED.append(label)


# ---------------------------------------------------------------------
# Material
# ---------------------------------------------------------------------
TEXTS = ["abc", "a,b", 'he said "hello"', "key: value", "#tag", "# tag 2",
         "it's", 'x,"y":#z', "q", "::", '""', "#", ",", ":", '"',
         "12:30:45", "# nrow : 99", "# --- : ---", "end,", ",start",
         "Mixed CASE 123", "a b  c", "col1,col2,col3", "#,#", "1,000",
         "name : #1, \"the\" one"]

FLOATS = [0.0, 1.0, -1.0, 0.5, -0.5, 1.5, 2.5, 0.125, 1e-5, 5e-6, 4.9e-6,
          1.5e-5, 0.1 + 0.2, 1. / 3, -2. / 3, np.pi, -np.e, 1e-9, 123.456,
          1e6 + 0.123456789, -98765.43210987, 1e12 + 0.5, 0.999995,
          0.99999, 99999.999995, 1e-300, 1e15, 7.0, 1234567.891]

INTS = [0, 1, -1, 3, -12, 100, 99999, -2**31, 2**31 - 1, 2**40,
        2**53 + 1, np.iinfo(np.int64).max, np.iinfo(np.int64).min]

FLOAT_FORMATS = ["%0.5f", "%0.2f", "%0.0f", "%0.10f", "%0.18f", "%.3e",
                 "%.12e", "%.17g", "%10.3f", None]

# Formats writing 17 significant digits or more (see compare)
LONG_FORMATS = ["%0.18f", "%.17g", None]

COMMENTS = [
    {},
    {"a": "b"},
    {"co1": "comment", "co2": "comment 2"},
    {"site": "Site: 410001 - Murray at X", "url": "https://x.org:80/p?q=1",
     "colon_first": ": starts with colon", "hashes": "# one, ## two",
     "n": "42", "clock": "23:59:59", "quoted": 'the "best", so far',
     "zz_last": "x : y : z :"},
    {"k" * 25: "key with 25 characters", "a" * 24 + "b": "another one",
     "key_with_digits_0123": "val_1", "dashes": "a - b -- c --------- d",
     "commas": ",a,,b,", "long": "w: " + "0123456789 " * 30 + "end"},
]


def make_frames():
    rng = np.random.default_rng(90210)
    frames = {}

    # .. 1 row / 2 rows, 1 column of each kind
    frames["1x1_float"] = pd.DataFrame({"x": [-2.718281828459045]})
    frames["1x1_int"] = pd.DataFrame({"N": [7]})
    frames["1x1_text"] = pd.DataFrame({"label": ['x,"y":#z']})
    frames["1x1_texthash"] = pd.DataFrame({"A 1": ["#only a hash: here"]})
    frames["2x1_float"] = pd.DataFrame({"my col": [2.5, -0.125]})
    frames["2x1_int"] = pd.DataFrame({"0": [-5, 5]})
    frames["2x1_text"] = pd.DataFrame({"t-x": ["#", ","]})
    frames["1x2_nan"] = pd.DataFrame({"v": [np.nan], "w": [3]})
    frames["2x2_text"] = pd.DataFrame({"first name": ["#a", "b,c"],
                                       "last-name_2": ['"', "d: e"]})
    frames["1x3_mixed"] = pd.DataFrame({"T": ["a:b"], "I": [3], "F": [.25]})
    frames["2x3_mixed"] = pd.DataFrame({"F": [1e-3, np.nan],
                                        "T": ["#", 'a""b'],
                                        "I": [-1, 1]})

    # .. the awkward values of each kind
    nf = len(FLOATS)
    frames["floats"] = pd.DataFrame({
        "F1": FLOATS,
        "f_neg": [-v for v in FLOATS],
        "f nan": [np.nan if i % 3 == 1 else v for i, v in enumerate(FLOATS)],
        "nan-only": [np.nan] * nf,
        "1999": rng.normal(size=nf) * 10. ** rng.integers(-5, 8, size=nf),
        "f32": np.array(FLOATS, dtype=np.float32),
    })
    frames["ints"] = pd.DataFrame({
        "I": INTS,
        "i 2": INTS[::-1],
        "i8": np.arange(len(INTS), dtype=np.int8) - 5,
        "u16": np.arange(len(INTS), dtype=np.uint16) * 5000,
        "constant": [1] * len(INTS),
    })
    frames["texts"] = pd.DataFrame({
        "T1": TEXTS,
        "t 2": TEXTS[::-1],
        "t-3_x": [f"{t}#{t}" for t in TEXTS],
        "same": ["same: same"] * len(TEXTS),
    })

    # .. mixed with text in first / last position, unusual indexes
    nt = len(TEXTS)
    mixed = pd.DataFrame({
        "Name": TEXTS,
        "obs 1": rng.uniform(-10, 10, size=nt),
        "count": rng.integers(-10**6, 10**6, size=nt),
        "sim_2": rng.lognormal(size=nt) * 1e4,
        "flag-q": [f"#{i % 3}: {t}" for i, t in enumerate(TEXTS)]})
    mixed.loc[[0, 7, nt - 1], "obs 1"] = np.nan
    mixed.index = rng.permutation(nt) * 2 + 100
    frames["mixed"] = mixed

    sub = mixed.iloc[:2, [3, 4, 0]].copy()
    sub.index = pd.date_range("1999-12-31", periods=2)
    frames["mixed_2rows"] = sub
    frames["mixed_1row"] = mixed.iloc[[9], ::-1].copy()

    # .. wide and long frames
    frames["wide"] = pd.DataFrame(
        rng.uniform(-1, 1, size=(3, 40)),
        columns=[f"V{i} {i % 7}-{'xy'[i % 2]}_" for i in range(40)])
    frames["long"] = pd.DataFrame({
        "u": rng.normal(size=1000),
        "k": rng.integers(-3, 3, size=1000),
        "s": rng.choice(TEXTS, size=1000)})
    return frames


# ---------------------------------------------------------------------
# Comparison
# ---------------------------------------------------------------------
def written_value(x, fmt):
    """ Value of the decimal string written for x with format fmt """
    if np.isnan(x):
        return np.nan
    return float(repr(float(x)) if fmt is None else fmt % x)


def compare(df, back, cin, cout, fmt, label):
    check(isinstance(back, pd.DataFrame), label + ": returns a frame")
    check(all(isinstance(cn, str) for cn in back.columns),
          label + ": column names are str")
    check(list(back.columns) == [str(cn) for cn in df.columns],
          label + ": column names")
    check(len(back) == len(df), label + ": number of rows")
    check(back.shape[1] == df.shape[1], label + ": number of columns")

    if back.shape == df.shape:
        for icol, cn in enumerate(df.columns):
            x0, x1 = df.iloc[:, icol], back.iloc[:, icol]
            lab = f"{label}: column [{cn}]"
            kind = x0.dtype.kind
            if kind == "f":
                v0 = x0.values.astype(np.float64)
                try:
                    v1 = x1.values.astype(np.float64)
                except (TypeError, ValueError):
                    check(False, lab + " not numeric")
                    continue
                vw = np.array([written_value(v, fmt) for v in v0])
                check(np.array_equal(np.isnan(v1), np.isnan(v0)),
                      lab + " nan pattern")
                # equal to the decimal number that was written. The slack
                # is for the float parser of pandas (not hydrodiy code):
                # a few ulps up to 15 digits, ~1e-9 relative when 17 digits
                # or more are written.
                rtol = 1e-7 if fmt in LONG_FORMATS else 1e-12
                check(np.allclose(v1, vw, rtol=rtol, atol=0.,
                                  equal_nan=True),
                      lab + " float values (precision of the format)")
                if fmt in LONG_FORMATS:
                    check(np.allclose(v1, v0, rtol=rtol, atol=1e-18,
                                      equal_nan=True),
                          lab + " float values (original)")
            elif kind in "iu":
                check(x1.dtype.kind in "iu", lab + " integer type")
                check([int(v) for v in x1.values]
                      == [int(v) for v in x0.values], lab + " int values")
            else:
                check(list(x1.values) == list(x0.values),
                      lab + " text values")

    check(isinstance(cout, dict), label + ": comment is a dict")
    for key, value in cin.items():
        check(cout.get(key, None) == value, f"{label}: comment [{key}]")
    check(cout.get("nrow") == str(len(df)), label + ": comment nrow")
    check(cout.get("ncol") == str(df.shape[1]), label + ": comment ncol")


# ---------------------------------------------------------------------
# Storage modes
# ---------------------------------------------------------------------
def rt_plain(tmp, tag, df, cin, fmt, src, **kw):
    fname = tmp / f"{tag}_p.csv"
    csv.write_csv(df, fname, cin, src, compress=False,
                  float_format=fmt, **kw)
    check(fname.is_file(), tag + " plain: file created")
    for fn in [fname, str(fname)]:
        back, cout = csv.read_csv(fn)
        compare(df, back, cin, cout, fmt, f"{tag} plain[{type(fn).__name__}]")


def rt_compress(tmp, tag, df, cin, fmt, src, name, **kw):
    fname = tmp / name
    csv.write_csv(df, fname, cin, src, compress=True,
                  float_format=fmt, **kw)
    back, cout = csv.read_csv(fname)
    compare(df, back, cin, cout, fmt, f"{tag} compress[{name}]")


def rt_archive(tmp, tag, df, cin, fmt, src, **kw):
    farc = tmp / f"{tag}_arc.zip"
    members = [f"sub/{tag}.csv", f"a/b b/c-c/{tag}_deep.csv", f"{tag}_top.csv"]
    with zipfile.ZipFile(farc, "w") as arc:
        for member in members:
            csv.write_csv(df, member, cin, src, archive=arc,
                          float_format=fmt, **kw)
        # .. readable straight away
        back, cout = csv.read_csv(members[0], archive=arc)
        compare(df, back, cin, cout, fmt, f"{tag} archive[w, {members[0]}]")

    with zipfile.ZipFile(farc, "r") as arc:
        check(sorted(arc.namelist()) == sorted(members),
              tag + " archive: member names")
        for member in members:
            back, cout = csv.read_csv(member, archive=arc)
            compare(df, back, cin, cout, fmt, f"{tag} archive[{member}]")

    with zipfile.ZipFile(farc, "a") as arc:
        csv.write_csv(df, Path("later") / "added.csv", cin, src,
                      archive=arc, float_format=fmt, **kw)
    with zipfile.ZipFile(farc, "r") as arc:
        back, cout = csv.read_csv("later/added.csv", archive=arc)
        compare(df, back, cin, cout, fmt, f"{tag} archive[appended]")
        back, cout = csv.read_csv(members[1], archive=arc)
        compare(df, back, cin, cout, fmt, f"{tag} archive[after append]")


def all_modes(tmp, tag, df, cin, fmt, src, **kw):
    rt_plain(tmp, tag, df, cin, fmt, src, **kw)
    for name in [f"{tag}_c1.csv", f"{tag}_c2.zip", f"{tag}_c3",
                 f"{tag}.c4.dotted.csv"]:
        rt_compress(tmp, tag, df, cin, fmt, src, name, **kw)
    rt_archive(tmp, tag, df, cin, fmt, src, **kw)


# ---------------------------------------------------------------------
# Call histories
# ---------------------------------------------------------------------
def histories(tmp, frames, src):
    fmt = "%0.5f"
    big, small, other = frames["mixed"], frames["2x2_text"], frames["ints"]
    c1, c2 = COMMENTS[3], COMMENTS[4]

    # Same call repeated, same outcome; reading does not depend on
    # earlier reads, and results returned earlier can be modified freely
    f = tmp / "hist_repeat.csv"
    for mode in [False, True]:
        for rep in range(3):
            csv.write_csv(big, f, c1, src, compress=mode)
            back, cout = csv.read_csv(f)
            compare(big, back, c1, cout, fmt, f"hist repeat[{mode},{rep}]")
            back.iloc[:, 1] = 0.
            back.iloc[:, 0] = "overwritten"
            back.columns = [f"x{i}" for i in range(back.shape[1])]
            cout.clear()
            cout["nrow"] = "bogus"
        f = tmp / "hist_repeat_z.csv"

    # File overwritten with other data under the same name
    for compress in [False, True]:
        f = tmp / f"hist_over_{compress}.csv"
        for i, (df, cin) in enumerate([(big, c1), (small, c2), (other, {}),
                                       (small, c1), (big, c2)]):
            csv.write_csv(df, f, cin, src, compress=compress)
            back, cout = csv.read_csv(f)
            compare(df, back, cin, cout, fmt, f"hist overwrite[{compress},{i}]")
            if cin is not c1:
                check("site" not in cout, f"hist overwrite[{compress},{i}]: "
                      + "no comment left from previous file")

    # Inputs modified after writing do not alter what was written
    df = big.copy()
    cin = dict(c1)
    f = tmp / "hist_mutate.csv"
    farc = tmp / "hist_mutate_arc.zip"
    csv.write_csv(df, f, cin, src, compress=False)
    csv.write_csv(df, tmp / "hist_mutate_z", cin, src)
    with zipfile.ZipFile(farc, "w") as arc:
        csv.write_csv(df, "m/m.csv", cin, src, archive=arc)
    df.iloc[:, 1] = -1.
    df.iloc[:, 0] = "changed"
    cin["site"] = "changed"
    cin["new_key"] = "new"
    for lab, (back, cout) in [
            ("plain", csv.read_csv(f)),
            ("zip", csv.read_csv(tmp / "hist_mutate_z")),
            ("arc", csv.read_csv("m/m.csv", archive=zipfile.ZipFile(farc)))]:
        compare(big, back, c1, cout, fmt, f"hist mutate[{lab}]")
        check("new_key" not in cout, f"hist mutate[{lab}]: no new key")

    # Inputs left untouched by writing
    df0, cin0 = big.copy(), dict(c1)
    csv.write_csv(big, tmp / "hist_untouched", c1, src)
    check(big.equals(df0) and list(big.index) == list(df0.index)
          and list(big.columns) == list(df0.columns),
          "hist: frame untouched by write_csv")
    check(c1 == cin0 and list(c1) == list(cin0),
          "hist: comment dict untouched by write_csv")

    # Interleaved writes (all modes, with and without system info, from
    # different working directories), all read at the end
    jobs = []
    cwd = os.getcwd()
    subdirs = [tmp / "wd1", tmp / "wd2"]
    for sd in subdirs:
        sd.mkdir()
    try:
        with zipfile.ZipFile(tmp / "hist_inter_arc.zip", "w") as arc:
            for i in range(12):
                os.chdir(subdirs[i % 2])
                df = [big, small, other][i % 3]
                cin = [c1, c2, {}, COMMENTS[1]][i % 4]
                ff = FLOAT_FORMATS[i % len(FLOAT_FORMATS)]
                kw = dict(write_sys_info=bool(i % 2), float_format=ff)
                if i % 5 == 0:
                    kw["author"] = f"author {i}"
                csv.write_csv(df, tmp / f"hist_inter_{i}.csv", cin, src,
                              compress=False, **kw)
                csv.write_csv(df, tmp / f"hist_inter_z{i}", cin, src, **kw)
                csv.write_csv(df, f"run {i}/data-{i}.csv", cin, src,
                              archive=arc, **kw)
                # .. relative file name
                csv.write_csv(df, f"rel_{i}.csv", cin, src, **kw)
                jobs.append((i, df, cin, ff, subdirs[i % 2]))

        os.chdir(tmp)
        with zipfile.ZipFile(tmp / "hist_inter_arc.zip", "r") as arc:
            for i, df, cin, ff, sd in reversed(jobs):
                for lab, (back, cout) in [
                        ("plain", csv.read_csv(tmp / f"hist_inter_{i}.csv")),
                        ("zip", csv.read_csv(tmp / f"hist_inter_z{i}")),
                        ("arc", csv.read_csv(f"run {i}/data-{i}.csv",
                                             archive=arc)),
                        ("rel", csv.read_csv(sd / f"rel_{i}.csv"))]:
                    compare(df, back, cin, cout, ff,
                            f"hist interleaved[{i},{lab}]")
    finally:
        os.chdir(cwd)


def main():
    frames = make_frames()
    with tempfile.TemporaryDirectory() as tmpdir:
        tmp = Path(tmpdir)
        src = tmp / "the script.py"
        src.write_text("# nothing\n")

        # 1. frames x float formats x storage modes (comments and the
        #    options the property does not talk about are cycled)
        k = 0
        for fname, df in frames.items():
            for ifmt, fmt in enumerate(FLOAT_FORMATS):
                k += 1
                icom = k % len(COMMENTS)
                kw = {"write_sys_info": bool(k % 3)}
                if k % 4 == 0:
                    kw["author"] = "someone"
                all_modes(tmp, f"{fname}_f{ifmt}_c{icom}", df,
                          COMMENTS[icom], fmt, src, **kw)

        # 2. comment dictionaries x frames of length 1, 2, n x modes
        for icom, cin in enumerate(COMMENTS):
            for fname in ["1x1_text", "1x1_float", "2x1_int", "2x3_mixed",
                          "mixed"]:
                all_modes(tmp, f"com{icom}_{fname}", frames[fname], cin,
                          "%0.5f", src)

        # 3. default arguments: zip file, 5 decimals
        df, cin = frames["mixed"], COMMENTS[3]
        csv.write_csv(df, tmp / "dflt.csv", cin, src)
        check((tmp / "dflt.zip").is_file(), "defaults: zip created")
        check(not (tmp / "dflt.csv").exists(), "defaults: no plain file")
        with zipfile.ZipFile(tmp / "dflt.zip") as arc:
            check(arc.namelist() == ["dflt.csv"], "defaults: member name")
        for name in ["dflt.csv", "dflt.zip", "dflt"]:
            back, cout = csv.read_csv(tmp / name)
            compare(df, back, cin, cout, "%0.5f", f"defaults[{name}]")

        x = np.array(FLOATS)
        csv.write_csv(pd.DataFrame({"x": x}), tmp / "dec5.csv", {}, src)
        back, _ = csv.read_csv(tmp / "dec5.csv")
        check(np.all(np.abs(back["x"].values - x)
                     <= 0.5e-5 * (1 + 1e-9) + 4e-16 * np.abs(x)),
              "defaults: values within half of 1e-5")

        # 4. call histories
        histories(tmp, frames, src)

    print(f"C09 demo: {NCHECKS} checks, {len(FAILED)} failed")
    for label in FAILED[:50]:
        print("   FAILED:", label)
    return 1 if FAILED else 0


if __name__ == "__main__":
    sys.exit(main())
