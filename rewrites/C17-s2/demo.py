"""Property C17 demo: armodel_sim / armodel_residual are exact inverses.

Run as:  PYTHONPATH=<tree>/src /venv/bin/python demo.py
Exits 0 when every check passes, 1 otherwise.

What is checked (all inside the stated quantifier):
  A  armodel_sim obeys  y[t]-m = sum_k phi[k]*(y[t-1-k]-m) + e[t], y[<0] = ini,
     checked LOCALLY on the library's own output (so the check is meaningful
     for unstable coefficient sets too), to a few ulp of the terms involved.
  B  NaN innovations act exactly as zero innovations.
  C  armodel_residual obeys r[t] = (y[t]-m) - sum_k phi[k]*(y[t-1-k]-m), with
     missing inputs replaced by their AR prediction, hence zero residual there.
  D  residual(sim(e)) = e   (NaN innovations come back as 0).
  E  sim(residual(y)) = y   at every non-missing position.
  F  orders 0 and 11 and NaN in params / mean / ini raise an error; orders 1
     and 10 are accepted; length 0, 1, 2 series work.
  G  call-history independence: inputs never modified, results never aliased
     to inputs / to earlier results, repeated and interleaved calls agree,
     strided / reversed / read-only inputs agree with plain copies.
"""
import sys
import warnings
import numpy as np

from hydrodiy.stat.armodels import armodel_sim, armodel_residual

EPS = np.finfo(np.float64).eps
ULP = 16.          # local checks: allowed error in units of eps*|terms|
NFAIL = 0
NCHECK = 0
WORST = {}


def check(cond, label):
    global NFAIL, NCHECK
    NCHECK += 1
    if not cond:
        NFAIL += 1
        if NFAIL <= 30:
            print("FAIL:", label)


def track(kind, ratio):
    if np.size(ratio):
        WORST[kind] = max(WORST.get(kind, 0.), float(np.max(ratio)))


def rel(err, tol):
    """ err/tol with 0/0 = 0 (an exact result against a zero tolerance) """
    err = np.asarray(err, dtype=np.float64)
    tol = np.asarray(tol, dtype=np.float64)
    out = np.full(err.shape, np.inf)
    pos = tol > 0
    out[pos] = err[pos]/tol[pos]
    out[(~pos) & (err == 0)] = 0.
    return out


def lagged(centred, start, p):
    """ [n, p] matrix, column k = centred value at lag k+1 (start before 0)"""
    n = len(centred)
    pad = np.concatenate([np.full(p, start), centred])
    if n == 0:
        return np.zeros((0, p))
    return np.column_stack([pad[p-1-k:p-1-k+n] for k in range(p)])


def fill_reference(phi, y, m, ini):
    """ centred series with missing values replaced by the AR prediction """
    p = len(phi)
    prev = [ini-m]*p
    out = np.empty(len(y))
    for t in range(len(y)):
        v = y[t]-m
        if v != v:
            v = sum(phi[k]*prev[k] for k in range(p))
        out[t] = v
        prev = [v]+prev[:-1]
    return out


def check_sim_recursion(phi, e, m, ini, y, label):
    """ A: local recursion check on the library output """
    p = len(phi)
    e0 = np.where(np.isnan(e), 0., e)
    yc = y-m
    lag = lagged(yc, ini-m, p)
    terms = lag*phi[None, :]
    rhs = terms.sum(axis=1)+e0
    scale = np.abs(terms).sum(axis=1)+np.abs(e0)+np.abs(y)+abs(m)+abs(ini)
    ok = np.isfinite(scale)
    err = np.abs(yc-rhs)[ok]
    ratio = rel(err, ULP*EPS*scale[ok])
    track("A sim recursion", ratio)
    check(np.all(ratio <= 1.), f"A sim recursion {label}")
    return scale


def check_residual_recursion(phi, y, m, ini, r, label):
    """ C: residual definition, zero residual where input is missing """
    p = len(phi)
    yf = fill_reference(phi, y, m, ini)
    lag = lagged(yf, ini-m, p)
    terms = lag*phi[None, :]
    rhs = yf-terms.sum(axis=1)
    scale = np.abs(terms).sum(axis=1)+np.abs(yf)+abs(m)+abs(ini)
    ok = np.isfinite(scale)
    # the rounding error of the fill chain grows along runs of missing values
    # and stays in the window for p more steps
    isn = np.isnan(y)
    run = np.zeros(len(y))
    c = 0
    for t in range(len(y)):
        c = c+1 if isn[t] else 0
        run[t] = c
    eff = np.array([run[max(0, t-p):t+1].max() for t in range(len(y))]) \
        if len(y) else run
    S = max(1., np.abs(phi).sum())
    allow = ULP*(1+eff)*(p+1)*S**np.minimum(eff, 60)
    err = np.abs(r-rhs)
    ratio = rel(err[ok], (EPS*scale*allow)[ok])
    track("C residual recursion", ratio)
    check(np.all(ratio <= 1.), f"C residual recursion {label}")
    check(not np.any(np.isnan(r[ok])), f"C residual has no NaN {label}")
    # zero residual at missing positions
    miss = isn & ok
    ratio0 = rel(np.abs(r[miss]), EPS*scale[miss]*allow[miss])
    track("C zero residual at missing", ratio0)
    check(np.all(ratio0 <= 1.), f"C zero residual at NaN {label}")
    if p == 1:
        check(np.all(r[miss] == 0.), f"C order 1 exact zero at NaN {label}")


def coefficient_sets(rng, p):
    out = []
    for S in [0.3, 0.95, 1.0, 1.5]:
        phi = rng.normal(size=p)
        phi *= S/np.abs(phi).sum()
        out.append(phi)
    out.append(-np.full(p, 1.5/p))               # all negative, S = 1.5
    out.append(np.full(p, 1.0/p))                # all positive, S = 1 (unit root)
    out.append(np.zeros(p))                      # pure noise
    last = np.zeros(p); last[-1] = -0.9          # only the longest lag
    out.append(last)
    mix = np.linspace(0.9, 0.2, 10)[:p].copy()   # test-suite values
    mix *= min(1., 1.5/np.abs(mix).sum())
    if p > 1:
        mix[p//2] = -0.0                         # a signed zero coefficient
    out.append(mix)
    return out


def nan_patterns(rng, n, p):
    pats = [np.zeros(n, bool)]
    for first in [1, 2, p, p+1]:
        b = np.zeros(n, bool); b[:first] = True
        pats.append(b)
    b = np.zeros(n, bool); b[-1:] = True; pats.append(b)
    pats.append(rng.uniform(size=n) < 0.15)
    b = np.zeros(n, bool); b[::2] = True; pats.append(b)
    pats.append(np.ones(n, bool))
    uniq = {}
    for b in pats:
        uniq[b.tobytes()] = b
    return list(uniq.values())


MEANS_INIS = [(0., 0.), (5., -3.), (-1e3, 1e3), (1e-3, -1e-3), (-7.25, None),
              (0., None), (3., 3.)]


def one_case(rng, phi, n, m, ini, nanmask, label, roundtrip_tol=True):
    p = len(phi)
    S = np.abs(phi).sum()
    ini_eff = m if ini is None else ini
    kw = {} if ini is None else {"sim_ini": ini}

    # ---------- sim ----------
    e = rng.normal(size=n)*rng.choice([1e-3, 1., 50.])
    e[nanmask] = np.nan
    e_before = e.copy()
    y = armodel_sim(phi, e, m, **kw) if ini is None else \
        armodel_sim(phi, e, m, ini)
    check(isinstance(y, np.ndarray) and y.dtype == np.float64
          and y.shape == e.shape, f"shape/dtype sim {label}")
    check(np.array_equal(e, e_before, equal_nan=True),
          f"G sim input untouched {label}")
    check(not np.shares_memory(y, e), f"G sim output not aliased {label}")
    fin = np.isfinite(y)
    if S <= 1. and abs(m) < 1e6:
        check(np.all(fin), f"sim finite {label}")
    scale = check_sim_recursion(phi, e, m, ini_eff, y, label)

    # B: NaN innovations == zero innovations, exactly
    e0 = np.where(np.isnan(e), 0., e)
    y0 = armodel_sim(phi, e0, m, ini_eff)
    check(np.array_equal(y, y0, equal_nan=True), f"B NaN innov as zero {label}")

    # D: residual(sim(e)) == e0
    r = armodel_residual(phi, y, m, ini_eff)
    ok = np.isfinite(scale)
    ratio = rel(np.abs(r-e0)[ok], (ULP*EPS*scale)[ok])
    track("D residual(sim(e)) - e", ratio)
    check(np.all(ratio <= 1.), f"D residual(sim(e)) == e {label}")
    # same with sim_ini left to default when it equals the mean
    if ini is None:
        r2 = armodel_residual(phi, y, m)
        check(np.array_equal(r, r2, equal_nan=True),
              f"D default sim_ini == sim_mean {label}")

    # ---------- residual on arbitrary data ----------
    x = m+rng.normal(size=n)*rng.choice([1e-2, 1., 30.])
    x[nanmask] = np.nan
    x_before = x.copy()
    rx = armodel_residual(phi, x, m, ini_eff)
    check(isinstance(rx, np.ndarray) and rx.dtype == np.float64
          and rx.shape == x.shape, f"shape/dtype residual {label}")
    check(np.array_equal(x, x_before, equal_nan=True),
          f"G residual input untouched {label}")
    check(not np.shares_memory(rx, x), f"G residual output not aliased {label}")
    check_residual_recursion(phi, x, m, ini_eff, rx, label)

    # E: sim(residual(x)) == x at non-missing positions
    if roundtrip_tol:
        x2 = armodel_sim(phi, rx, m, ini_eff)
        check(np.all(np.isfinite(x2)), f"E sim(residual) finite {label}")
        t = np.arange(n)
        big = np.maximum.accumulate(np.abs(np.where(np.isnan(x), m, x)-m)) \
            if n else np.zeros(0)
        big = big+abs(m)+abs(ini_eff)+np.abs(x2)
        amp = max(1., S)**np.minimum(t+1, 200)
        tol = ULP*EPS*(t+1)*(p+1)*amp*big
        good = ~np.isnan(x)
        ratio = rel(np.abs(x2-x)[good], tol[good])
        track("E sim(residual(y)) - y", ratio)
        check(np.all(ratio <= 1.), f"E sim(residual(y)) == y {label}")


def main_grid():
    rng = np.random.default_rng(20240917)
    for p in range(1, 11):
        sets = coefficient_sets(rng, p)
        lengths = sorted({0, 1, 2, 3, max(p-1, 0), p, p+1, 2*p+3, 57})
        for ic, phi in enumerate(sets):
            S = np.abs(phi).sum()
            check(S <= 1.5*(1+4*EPS), "coefficient set inside quantifier")
            for n in lengths:
                pats = nan_patterns(rng, n, p)
                for ip, mask in enumerate(pats):
                    m, ini = MEANS_INIS[(ic+ip+n) % len(MEANS_INIS)]
                    one_case(rng, phi, n, m, ini, mask,
                             f"[p={p} set={ic} n={n} nan={ip} m={m} ini={ini}]")
            # all mean / ini combinations on one short series
            for m, ini in MEANS_INIS:
                mask = rng.uniform(size=12) < 0.2
                one_case(rng, phi, 12, m, ini, mask,
                         f"[p={p} set={ic} n=12 m={m} ini={ini}]")

    # long series (several thousand)
    for p in [1, 2, 5, 10]:
        for S in [0.5, 0.98]:
            phi = rng.normal(size=p)
            phi *= S/np.abs(phi).sum()
            n = 4000
            mask = rng.uniform(size=n) < 0.05
            mask[:3] = True
            one_case(rng, phi, n, 12.5, -4., mask, f"[long p={p} S={S}]")
            one_case(rng, phi, n, -2., None, np.zeros(n, bool),
                     f"[long nonan p={p} S={S}]")
        # unstable and long: local checks only where finite; no crash
        phi = np.full(p, 1.5/p)
        n = 3000
        mask = rng.uniform(size=n) < 0.05
        one_case(rng, phi, n, 1., 2., mask, f"[long unstable p={p}]",
                 roundtrip_tol=False)


def default_mean():
    """ residual with sim_mean left to None uses the mean of the inputs """
    rng = np.random.default_rng(7)
    for p in [1, 3, 10]:
        phi = rng.normal(size=p)
        phi *= 0.9/np.abs(phi).sum()
        for n in [1, 2, 9, 300]:
            x = 4.+rng.normal(size=n)
            if n > 2:
                x[1] = np.nan
            r_def = armodel_residual(phi, x)
            mm = np.nanmean(x)
            r_exp = armodel_residual(phi, x, mm, mm)
            check(np.array_equal(r_def, r_exp, equal_nan=True),
                  f"default sim_mean [p={p} n={n}]")
            r_ini = armodel_residual(phi, x, sim_ini=-1.)
            check(np.array_equal(r_ini, armodel_residual(phi, x, mm, -1.)),
                  f"default sim_mean explicit ini [p={p} n={n}]")
            back = armodel_sim(phi, r_def, mm)
            good = ~np.isnan(x)
            check(np.allclose(back[good], x[good], rtol=1e-11, atol=1e-11),
                  f"default sim_mean round trip [p={p} n={n}]")
        # sim defaults: mean 0, ini = mean
        e = rng.normal(size=20)
        check(np.array_equal(armodel_sim(phi, e), armodel_sim(phi, e, 0., 0.)),
              f"sim defaults [p={p}]")
        check(np.array_equal(armodel_sim(phi, e, 3.),
                             armodel_sim(phi, e, 3., 3.)),
              f"sim default ini [p={p}]")
    # scalar / list / int parameters mean the same order-1 model
    e = rng.normal(size=15)
    a = armodel_sim(np.array([0.95]), e, 1., 2.)
    check(np.array_equal(armodel_sim(0.95, e, 1., 2.), a), "float params sim")
    check(np.array_equal(armodel_sim([0.95], e, 1., 2.), a), "list params sim")
    b = armodel_residual(np.array([0.95]), a, 1., 2.)
    check(np.array_equal(armodel_residual(0.95, a, 1., 2.), b),
          "float params residual")
    check(np.array_equal(armodel_sim(np.array([1, 0]), e, 1, 2),
                         armodel_sim(np.array([1., 0.]), e, 1., 2.)),
          "integer params/mean/ini")


def raises(fun, *args, **kw):
    with warnings.catch_warnings():
        warnings.simplefilter("ignore")
        try:
            fun(*args, **kw)
        except Exception:
            return True
    return False


def rejections():
    rng = np.random.default_rng(3)
    for n in [0, 1, 2, 5, 40]:
        data = rng.normal(size=n)
        datan = data.copy()
        if n:
            datan[0] = np.nan
        for fun, name in [(armodel_sim, "sim"), (armodel_residual, "residual")]:
            for d in [data, datan]:
                # unsupported orders
                check(raises(fun, np.zeros(0), d, 0., 0.),
                      f"F order 0 rejected {name} n={n}")
                check(raises(fun, np.full(11, 0.05), d, 0., 0.),
                      f"F order 11 rejected {name} n={n}")
                check(raises(fun, np.zeros(11), d, 1., 2.),
                      f"F order 11 zeros rejected {name} n={n}")
                check(raises(fun, np.full(25, 0.01), d, 1., 2.),
                      f"F order 25 rejected {name} n={n}")
                # boundary orders accepted
                check(not raises(fun, np.array([0.4]), d, 1., 2.),
                      f"F order 1 accepted {name} n={n}")
                check(not raises(fun, np.full(10, -0.1), d, 1., 2.),
                      f"F order 10 accepted {name} n={n}")
                # NaN parameters
                for p in [1, 2, 5, 10]:
                    for pos in sorted({0, p//2, p-1}):
                        phi = np.full(p, 0.5/p)
                        phi[pos] = np.nan
                        check(raises(fun, phi, d, 1., 2.),
                              f"F NaN param {pos}/{p} rejected {name} n={n}")
                    phi = np.full(p, 0.5/p)
                    check(raises(fun, phi, d, np.nan, 2.),
                          f"F NaN mean rejected {name} n={n}")
                    check(raises(fun, phi, d, 1., np.nan),
                          f"F NaN ini rejected {name} n={n}")
                    check(raises(fun, phi, d, np.nan, np.nan),
                          f"F NaN mean+ini rejected {name} n={n}")
                    check(raises(fun, phi, d, np.nan),
                          f"F NaN mean default ini rejected {name} n={n}")
                check(raises(fun, np.nan, d, 1., 2.),
                      f"F NaN scalar param rejected {name} n={n}")
    # valid call right after a rejected one is unaffected
    e = rng.normal(size=30)
    ref = armodel_sim(np.array([0.5, -0.2]), e, 1., 2.)
    raises(armodel_sim, np.array([0.5, np.nan]), e, 1., 2.)
    raises(armodel_sim, np.zeros(11), e, 1., 2.)
    check(np.array_equal(armodel_sim(np.array([0.5, -0.2]), e, 1., 2.), ref),
          "F/G valid call after rejected call")
    # default mean of an all-missing / empty series is NaN, hence an error
    check(raises(armodel_residual, 0.5, np.full(4, np.nan)),
          "F default mean all-NaN rejected")
    check(raises(armodel_residual, 0.5, np.zeros(0)),
          "F default mean empty rejected")


def call_history():
    rng = np.random.default_rng(11)
    phi_a = np.array([0.6, -0.3, 0.1])
    phi_b = np.array([-0.95])
    big = rng.normal(size=5000)
    small = rng.normal(size=3)
    small[1] = np.nan
    fresh = {}
    for key, (phi, d) in {"a_big": (phi_a, big), "b_small": (phi_b, small),
                          "a_small": (phi_a, small),
                          "b_big": (phi_b, big)}.items():
        fresh[key] = (armodel_sim(phi, d, 2., -1.).copy(),
                      armodel_residual(phi, d, 2., -1.).copy())
    order = ["a_big", "b_small", "a_small", "b_big", "b_small", "a_big",
             "a_big", "a_small"]
    held = []
    for key in order:
        phi, d = (phi_a if key[0] == "a" else phi_b), \
            (big if key.endswith("big") else small)
        phi0, d0 = phi.copy(), d.copy()
        s = armodel_sim(phi, d, 2., -1.)
        r = armodel_residual(phi, d, 2., -1.)
        check(np.array_equal(s, fresh[key][0], equal_nan=True),
              f"G interleaved sim {key}")
        check(np.array_equal(r, fresh[key][1], equal_nan=True),
              f"G interleaved residual {key}")
        check(np.array_equal(phi, phi0) and
              np.array_equal(d, d0, equal_nan=True),
              f"G arguments untouched {key}")
        for h in held:
            check(not np.shares_memory(h, s) and not np.shares_memory(h, r),
                  f"G results do not share memory {key}")
        # scribbling on a returned array must not influence later calls
        s[...] = -777.
        r[...] = 555.
        held.extend([s, r])
    for h in held[::2]:
        check(np.all(h == -777.), "G earlier sim results left alone")
    for h in held[1::2]:
        check(np.all(h == 555.), "G earlier residual results left alone")

    # the result is writable and owned by the caller
    s = armodel_sim(phi_a, big, 2., -1.)
    check(s.flags.writeable, "G result writable")

    # views: strided, reversed, read-only, slices of a 2-D array, float32->64
    base = rng.normal(size=(400, 3))
    base[5, 1] = np.nan
    views = {"strided": big[::7], "reversed": big[::-1][:300],
             "column": base[:, 1], "row": base[7, :], "offset": big[13:613]}
    for name, v in views.items():
        c = np.array(v, dtype=np.float64, order="C", copy=True)
        check(np.array_equal(armodel_sim(phi_a, v, 2., -1.),
                             armodel_sim(phi_a, c, 2., -1.), equal_nan=True),
              f"G sim on {name} view")
        check(np.array_equal(armodel_residual(phi_a, v, 2., -1.),
                             armodel_residual(phi_a, c, 2., -1.),
                             equal_nan=True),
              f"G residual on {name} view")
    ro = big[:200].copy()
    ro.flags.writeable = False
    check(np.array_equal(armodel_sim(phi_a, ro, 2., -1.),
                         armodel_sim(phi_a, big[:200].copy(), 2., -1.)),
          "G sim read-only input")
    check(np.array_equal(armodel_residual(phi_a, ro, 2., -1.),
                         armodel_residual(phi_a, big[:200].copy(), 2., -1.)),
          "G residual read-only input")
    ro_phi = phi_a.copy()
    ro_phi.flags.writeable = False
    check(np.array_equal(armodel_sim(ro_phi, ro, 2., -1.),
                         armodel_sim(phi_a, big[:200].copy(), 2., -1.)),
          "G read-only params")
    # non-contiguous params
    wide = np.zeros(6)
    wide[::2] = phi_a
    check(np.array_equal(armodel_sim(wide[::2], ro, 2., -1.),
                         armodel_sim(phi_a, ro, 2., -1.)),
          "G strided params")
    # inputs that need a conversion (other dtype, strides, byte order), with
    # lengths going up and down: nothing left over from one call may leak
    # into the next
    seqs = [(np.arange(2000) % 7-3).astype(np.int64),
            rng.normal(size=5).astype(np.float32),
            big[::3], np.array([4], dtype=np.int8),
            rng.normal(size=3000).astype(np.float32),
            big[::-1][:2], big[:0][::2], big[100:1100].astype(">f8"),
            np.array([np.nan, 1., np.nan], dtype=np.float32),
            big[1:900:2]]
    for rep, v in enumerate(seqs+seqs[::-1]+seqs):
        c = np.array(v, dtype=np.float64, order="C", copy=True)
        v0 = v.copy()
        phi = phi_a if rep % 2 else phi_b
        check(np.array_equal(armodel_sim(phi, v, 2., -1.),
                             armodel_sim(phi, c, 2., -1.), equal_nan=True),
              f"G sim converted input #{rep}")
        check(np.array_equal(armodel_residual(phi, v, 2., -1.),
                             armodel_residual(phi, c, 2., -1.),
                             equal_nan=True),
              f"G residual converted input #{rep}")
        # result of a converted input, then plain input, then converted again
        a1 = armodel_sim(phi, v, 2., -1.)
        armodel_sim(phi, big[::5], -8., 3.)
        a2 = armodel_sim(phi, v, 2., -1.)
        check(np.array_equal(a1, a2, equal_nan=True) and
              not np.shares_memory(a1, a2),
              f"G converted input repeatable #{rep}")
        check(np.array_equal(v, v0, equal_nan=True) and v.dtype == v0.dtype,
              f"G converted input untouched #{rep}")

    # concurrent callers
    import threading
    problems = []

    def worker(seed):
        lrng = np.random.default_rng(seed)
        for _ in range(150):
            n = int(lrng.integers(0, 400))
            d = lrng.normal(size=2*n+1)[::2][:n]
            phi = lrng.uniform(-0.2, 0.2, size=int(lrng.integers(1, 11)))
            c = d.copy()
            s1 = armodel_sim(phi, d, seed, -1.)
            r1 = armodel_residual(phi, s1[::-1], seed, -1.)
            if not np.array_equal(s1, armodel_sim(phi, c, seed, -1.)) or \
                    not np.array_equal(r1, armodel_residual(
                        phi, s1[::-1].copy(), seed, -1.)):
                problems.append(seed)

    threads = [threading.Thread(target=worker, args=(k,)) for k in range(4)]
    for th in threads:
        th.start()
    for th in threads:
        th.join()
    check(not problems, "G concurrent callers")

    # modifying the input after the call does not change the result held
    e = rng.normal(size=50)
    s = armodel_sim(phi_a, e, 0.5, 0.25)
    keep = s.copy()
    e[...] = 9.
    check(np.array_equal(s, keep), "G result independent of later input edits")
    x = rng.normal(size=50)
    r = armodel_residual(phi_a, x, 0.5, 0.25)
    keep = r.copy()
    x[...] = 9.
    check(np.array_equal(r, keep),
          "G residual independent of later input edits")


def hand_values():
    """ a few values worked out by hand (exact in binary) """
    y = armodel_sim(np.array([0.5]), np.array([1., np.nan, 2.]), 1., 3.)
    check(np.array_equal(y, [3., 2., 3.5]), "hand AR1 sim")
    r = armodel_residual(np.array([0.5]), np.array([3., 2., 3.5]), 1., 3.)
    check(np.array_equal(r, [1., 0., 2.]), "hand AR1 residual")
    r = armodel_residual(np.array([0.5]), np.array([3., np.nan, 3.5]), 1., 3.)
    # missing value predicted as 1+0.5*2 = 2 -> residual 0, next unaffected
    check(np.array_equal(r, [1., 0., 2.]), "hand AR1 residual with NaN")
    # order 2: c[t] = 0.5 c[t-1] - 0.25 c[t-2] + e, c[-1]=c[-2]=4, mean -2
    y = armodel_sim(np.array([0.5, -0.25]), np.array([0., 1., np.nan, -2.]),
                    -2., 2.)
    c = [1., 0.5, 0., -2.125]
    check(np.array_equal(y, np.array(c)-2.), "hand AR2 sim")
    r = armodel_residual(np.array([0.5, -0.25]), y, -2., 2.)
    check(np.array_equal(r, [0., 1., 0., -2.]), "hand AR2 residual")
    # first steps missing
    r = armodel_residual(np.array([0.5, -0.25]),
                         np.array([np.nan, np.nan, -1.]), -2., 2.)
    # fills: c0 = 0.5*4-0.25*4 = 1 ; c1 = 0.5*1-0.25*4 = -0.5 ;
    # r2 = (-1+2) - (0.5*-0.5 - 0.25*1) = 1.5
    check(np.array_equal(r, [0., 0., 1.5]), "hand AR2 residual leading NaN")
    # empty series
    check(armodel_sim(np.array([0.5]), np.zeros(0), 1., 2.).shape == (0,),
          "empty sim")
    check(armodel_residual(np.array([0.5]), np.zeros(0), 1., 2.).shape == (0,),
          "empty residual")
    # order 10 uses all ten lags: only the 10th coefficient non-zero
    phi = np.zeros(10); phi[9] = 0.5
    e = np.zeros(25); e[0] = 8.
    y = armodel_sim(phi, e, 0., 0.)
    exp = np.zeros(25); exp[0] = 8.; exp[10] = 4.; exp[20] = 2.
    check(np.array_equal(y, exp), "hand AR10 impulse response")
    check(np.array_equal(armodel_residual(phi, y, 0., 0.), e),
          "hand AR10 residual")
    # initial value feeds every lag
    y = armodel_sim(phi, np.zeros(12), 1., 5.)
    exp = np.concatenate([np.full(10, 3.), np.full(2, 2.)])
    check(np.array_equal(y, exp), "hand AR10 initial condition")


if __name__ == "__main__":
    with warnings.catch_warnings():
        warnings.simplefilter("ignore", RuntimeWarning)
        hand_values()
        main_grid()
        default_mean()
        rejections()
        call_history()
    for k in sorted(WORST):
        print(f"worst ratio (1 = limit) {k}: {WORST[k]:.3g}")
    print(f"{NCHECK} checks, {NFAIL} failures")
    sys.exit(1 if NFAIL else 0)
