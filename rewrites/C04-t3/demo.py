#!/usr/bin/env python
""" Property C04: deterministic and categorical skill scores equal their
definitions.

Run as   PYTHONPATH=<tree>/src /venv/bin/python demo.py
Exits 0 when every check passes (unmodified and rewritten tree alike).

All the references below are written from the textbook formulas with
math.fsum / plain python loops; nothing is borrowed from
hydrodiy.stat.metrics.
"""
import sys
import math
import warnings
import itertools

import numpy as np

from hydrodiy.stat import metrics, transform

warnings.simplefilter("ignore")
np.seterr(all="ignore")

RTOL = 1e-9
ATOL = 1e-9
NCHECK = [0]
FAILS = []


def check(cond, msg):
    NCHECK[0] += 1
    if not cond:
        FAILS.append(msg)
        if len(FAILS) < 30:
            print("FAIL:", msg)


def close(a, b, rtol=RTOL, atol=ATOL):
    a = float(a)
    b = float(b)
    if math.isnan(a) or math.isnan(b):
        return False
    return abs(a-b) <= atol+rtol*max(abs(a), abs(b))


# --------------------------------------------------------------------
# Textbook definitions
# --------------------------------------------------------------------
def fmean(x):
    return math.fsum(x)/len(x)


def fstd(x):
    m = fmean(x)
    return math.sqrt(math.fsum([(v-m)**2 for v in x])/len(x))


def ref_bias(o, s, type):
    mo = fmean(o)
    ms = fmean(s)
    if type == "standard":
        return (ms-mo)/mo
    elif type == "normalised":
        return (ms-mo)/(ms+mo)
    else:
        return math.log(ms)-math.log(mo)


def ref_nse(o, s):
    mo = fmean(o)
    num = math.fsum([(a-b)**2 for a, b in zip(o, s)])
    den = math.fsum([(a-mo)**2 for a in o])
    return 1-num/den


def ref_pearson(o, s):
    mo = fmean(o)
    ms = fmean(s)
    cov = math.fsum([(a-mo)*(b-ms) for a, b in zip(o, s)])
    vo = math.fsum([(a-mo)**2 for a in o])
    vs = math.fsum([(b-ms)**2 for b in s])
    return cov/math.sqrt(vo)/math.sqrt(vs)


def midranks(x):
    x = list(x)
    n = len(x)
    order = sorted(range(n), key=lambda i: x[i])
    ranks = [0.]*n
    i = 0
    while i < n:
        j = i
        while j+1 < n and x[order[j+1]] == x[order[i]]:
            j += 1
        r = (i+j)/2.+1
        for k in range(i, j+1):
            ranks[order[k]] = r
        i = j+1
    return ranks


def ref_spearman(o, s):
    return ref_pearson(midranks(o), midranks(s))


def ref_kge(o, s):
    mo, ms = fmean(o), fmean(s)
    so, ss = fstd(o), fstd(s)
    r = ref_pearson(o, s)
    return 1-math.sqrt((1-ms/mo)**2+(1-ss/so)**2+(1-r)**2)


# --------------------------------------------------------------------
# Transforms at admissible parameters, with their formula
# --------------------------------------------------------------------
def make_transforms():
    out = []
    out.append(("Identity", transform.Identity(), lambda x: x, False))

    for nu in [1e-10, 0.01, 1., 50.]:
        t = transform.Log()
        t.nu = nu
        out.append((f"Log(nu={nu})", t,
                    lambda x, nu=nu: np.log(x+nu), True))

    t = transform.Log(base=10)
    t.nu = 0.5
    out.append(("Log10(nu=0.5)", t,
                lambda x: np.log(x+0.5)/math.log(10), True))

    # lam=0 and lam=1e-11 take the log branch, 1e-9 the power branch
    for nu, lam in [(0.1, 0.2), (1., 0.5), (0.01, 1.), (2., 0.),
                    (0.5, 1e-11), (0.5, 1e-9), (1., 2.), (0.3, 3.)]:
        t = transform.BoxCox2()
        t.nu = nu
        t.lam = lam
        if abs(lam) > 1e-10:
            f = lambda x, nu=nu, lam=lam: ((x+nu)**lam-1)/lam
        else:
            f = lambda x, nu=nu: np.log(x+nu)
        # (x^lam-1)/lam loses digits when lam is tiny: looser check there
        out.append((f"BoxCox2(nu={nu},lam={lam})", t, f, True))

    for nu in [1e-10, 0.1, 3.]:
        t = transform.Reciprocal()
        t.nu = nu
        out.append((f"Reciprocal(nu={nu})", t,
                    lambda x, nu=nu: -1./(nu+x), True))

    for nu, scale in [(0., 1.), (-2., 0.1), (5., 3.), (0.5, 1e-3)]:
        t = transform.Sinh()
        t.nu = nu
        t.scale = scale
        out.append((f"Sinh(nu={nu},scale={scale})", t,
                    lambda x, nu=nu, scale=scale: np.arcsinh((x-nu)*scale),
                    False))
    return out


def nondegenerate(x):
    """ mean and standard deviation not within 1e-6 (relative) of zero """
    x = np.asarray(x, dtype=float)
    if len(x) < 2 or not np.all(np.isfinite(x)):
        return False
    sc = np.max(np.abs(x))
    if sc == 0:
        return False
    return abs(np.mean(x)) > 1e-4*sc and np.std(x) > 1e-4*sc


def gen_series(rng, n, positive, kind):
    """ obs, sim float64 series """
    if kind == "gamma":
        obs = rng.gamma(1.5, 3., size=n)
        sim = obs*rng.uniform(0.5, 1.5, size=n)+rng.uniform(0, 1, size=n)
    elif kind == "ties":
        obs = rng.integers(1, 5, size=n).astype(float)
        sim = rng.integers(1, 5, size=n).astype(float)
    elif kind == "large":
        obs = rng.uniform(1e5, 2e5, size=n)
        sim = rng.uniform(1e5, 2e5, size=n)
    elif kind == "small":
        obs = rng.uniform(1e-4, 2e-3, size=n)
        sim = rng.uniform(1e-4, 2e-3, size=n)
    elif kind == "zeros":
        obs = np.maximum(rng.normal(1., 2., size=n), 0.)
        sim = np.maximum(rng.normal(1., 2., size=n), 0.)
    else:
        obs = rng.normal(3., 4., size=n)
        sim = obs+rng.normal(0.5, 2., size=n)
    if positive:
        obs, sim = np.abs(obs), np.abs(sim)
    return obs.astype(np.float64), sim.astype(np.float64)


def scatter_null(rng, obs, sim):
    """ NaN / inf scattered in either series, at least 2 clean pairs """
    n = len(obs)
    o2, s2 = obs.copy(), sim.copy()
    nbad = max(1, n//4)
    if n-2*nbad < 2:
        nbad = max(0, (n-2)//2)
    vals = [np.nan, np.inf, -np.inf, np.nan]
    pos = rng.permutation(n)
    for k in range(nbad):
        o2[pos[k]] = vals[rng.integers(0, 4)]
    for k in range(nbad, 2*nbad):
        s2[pos[k]] = vals[rng.integers(0, 4)]
    if nbad > 0 and n > 3:
        # one pair where both are missing
        s2[pos[0]] = np.nan
    return o2, s2


BIAS_TYPES = ["standard", "normalised", "log"]


def check_deterministic(rng):
    transforms = make_transforms()
    lengths = [2, 3, 5, 10, 64, 257, 1000]
    kinds = ["gamma", "ties", "large", "small", "zeros", "normal"]

    for tname, trans, formula, positive in transforms:
        for n, kind in itertools.product(lengths, kinds):
            if kind == "normal" and positive:
                continue
            for attempt in range(20):
                obs, sim = gen_series(rng, n, positive, kind)
                with np.errstate(all="ignore"):
                    tobs = np.asarray(trans.forward(obs))
                    tsim = np.asarray(trans.forward(sim))
                if nondegenerate(obs) and nondegenerate(tobs) and \
                        nondegenerate(tsim) and nondegenerate(sim):
                    break
            else:
                continue
            label = f"{tname} n={n} {kind}"
            obs0, sim0 = obs.copy(), sim.copy()

            # the transform is its formula
            tol = 1e-6 if "lam=1e-09" in tname else 1e-10
            check(np.allclose(tobs, formula(obs), rtol=tol, atol=tol*1e-2),
                  f"forward formula {label}")
            check(tobs.dtype == np.float64 and tobs.shape == obs.shape,
                  f"forward dtype/shape {label}")

            lo, ls = tobs.tolist(), tsim.tolist()

            # --- bias
            for bt in BIAS_TYPES:
                mo, ms = fmean(lo), fmean(ls)
                if bt == "log" and not (mo > 1e-6 and ms > 1e-6):
                    continue
                if bt == "normalised" and abs(ms+mo) < 1e-6*abs(mo):
                    continue
                v = metrics.bias(obs, sim, trans, type=bt)
                check(close(v, ref_bias(lo, ls, bt)),
                      f"bias {bt} {label}: {v} vs {ref_bias(lo, ls, bt)}")
                v2 = metrics.bias(tobs, tsim, type=bt)
                check(close(v, v2, 1e-12, 1e-12),
                      f"bias {bt} composition {label}")
                # perfect simulation
                v = metrics.bias(obs, obs.copy(), trans, type=bt)
                check(abs(float(v)) <= 1e-12, f"bias perfect {bt} {label}")

            # --- nse
            v = metrics.nse(obs, sim, trans)
            check(close(v, ref_nse(lo, ls)), f"nse {label}: {v}")
            check(close(v, metrics.nse(tobs, tsim), 1e-12, 1e-12),
                  f"nse composition {label}")
            check(float(v) <= 1+1e-12, f"nse<=1 {label}")
            v = metrics.nse(obs, obs.copy(), trans)
            check(float(v) == 1., f"nse perfect {label}")

            # --- kge
            v = metrics.kge(obs, sim, trans)
            check(close(v, ref_kge(lo, ls)), f"kge {label}: {v}")
            check(close(v, metrics.kge(tobs, tsim), 1e-12, 1e-12),
                  f"kge composition {label}")
            check(float(v) <= 1+1e-12, f"kge<=1 {label}")
            v = metrics.kge(obs, obs.copy(), trans)
            check(close(v, 1., 0, 1e-7), f"kge perfect {label}: {v}")

            # --- corr, single member
            for ctype, ref in [("Pearson", ref_pearson),
                               ("Spearman", ref_spearman)]:
                for stat in ["mean", "median"]:
                    v = metrics.corr(obs, sim, trans, stat=stat, type=ctype)
                    check(close(v, ref(lo, ls)),
                          f"corr {ctype}/{stat} {label}: {v} vs {ref(lo, ls)}")
                    v = metrics.corr(obs, obs.copy(), trans,
                                     stat=stat, type=ctype)
                    check(close(v, 1., 0, 1e-9),
                          f"corr perfect {ctype}/{stat} {label}")

            # inputs are left untouched
            check(np.array_equal(obs, obs0) and np.array_equal(sim, sim0),
                  f"inputs modified {label}")

            # --- excludenull = removal of incomplete pairs
            if n >= 3:
                o2, s2 = scatter_null(rng, obs, sim)
                with np.errstate(all="ignore"):
                    to2 = np.asarray(trans.forward(o2))
                    ts2 = np.asarray(trans.forward(s2))
                ok = np.isfinite(to2) & np.isfinite(ts2)
                oc, sc = o2[ok], s2[ok]
                if nondegenerate(to2[ok]) and nondegenerate(ts2[ok]):
                    lo2, ls2 = to2[ok].tolist(), ts2[ok].tolist()
                    o2c, s2c = o2.copy(), s2.copy()
                    v = metrics.nse(o2, s2, trans, excludenull=True)
                    check(close(v, ref_nse(lo2, ls2)),
                          f"nse excludenull {label}")
                    check(close(v, metrics.nse(oc, sc, trans), 1e-12, 1e-12),
                          f"nse excludenull=removal {label}")
                    v = metrics.kge(o2, s2, trans, excludenull=True)
                    check(close(v, ref_kge(lo2, ls2)),
                          f"kge excludenull {label}")
                    check(close(v, metrics.kge(oc, sc, trans), 1e-12, 1e-12),
                          f"kge excludenull=removal {label}")
                    for bt in BIAS_TYPES:
                        mo, ms = fmean(lo2), fmean(ls2)
                        if bt == "log" and not (mo > 1e-6 and ms > 1e-6):
                            continue
                        if bt == "normalised" and abs(ms+mo) < 1e-6*abs(mo):
                            continue
                        v = metrics.bias(o2, s2, trans, excludenull=True,
                                         type=bt)
                        check(close(v, ref_bias(lo2, ls2, bt)),
                              f"bias excludenull {bt} {label}")
                        check(close(v, metrics.bias(oc, sc, trans, type=bt),
                                    1e-12, 1e-12),
                              f"bias excludenull=removal {bt} {label}")
                    for ctype, ref in [("Pearson", ref_pearson),
                                       ("Spearman", ref_spearman)]:
                        v = metrics.corr(o2, s2, trans, excludenull=True,
                                         type=ctype, stat="mean")
                        check(close(v, ref(lo2, ls2)),
                              f"corr excludenull {ctype} {label}")
                    check(np.array_equal(o2, o2c, equal_nan=True) and
                          np.array_equal(s2, s2c, equal_nan=True),
                          f"null inputs modified {label}")

                    # without excludenull a NaN propagates
                    if np.any(np.isnan(o2)) or np.any(np.isnan(s2)):
                        v = metrics.nse(o2, s2, trans)
                        check(math.isnan(float(v)), f"nse nan {label}")

    # series given as [n, 1] arrays or with excludenull and nothing to remove
    obs, sim = gen_series(rng, 50, True, "gamma")
    t = transform.Log()
    t.nu = 0.1
    lo, ls = np.log(obs+0.1).tolist(), np.log(sim+0.1).tolist()
    for o, s in [(obs[:, None], sim[:, None]), (obs, sim[:, None]),
                 (obs[:, None], sim)]:
        check(close(metrics.nse(o, s, t), ref_nse(lo, ls)), "nse [n,1]")
        check(close(metrics.kge(o, s, t), ref_kge(lo, ls)), "kge [n,1]")
        check(close(metrics.bias(o, s, t), ref_bias(lo, ls, "standard")),
              "bias [n,1]")
        check(close(metrics.corr(o, s, t, type="Pearson"),
                    ref_pearson(lo, ls)), "corr [n,1]")
    check(close(metrics.nse(obs, sim, t, excludenull=True), ref_nse(lo, ls)),
          "nse excludenull no null")

    # float64 series held in other memory layouts: read-only arrays,
    # strided views, columns of a Fortran-ordered table
    ro_o, ro_s = obs.copy(), sim.copy()
    ro_o.flags.writeable = False
    ro_s.flags.writeable = False
    tab = np.asfortranarray(np.column_stack([obs, sim, obs]))
    wide = np.zeros((50, 4))
    wide[:, 1] = obs
    wide[:, 3] = sim
    for nm, o, s in [("readonly", ro_o, ro_s),
                     ("fortran", tab[:, 0], tab[:, 1]),
                     ("strided", wide[:, 1], wide[:, 3]),
                     ("reversed", obs[::-1][::-1], sim[::-1][::-1])]:
        for ex in [False, True]:
            check(close(metrics.nse(o, s, t, ex), ref_nse(lo, ls)),
                  f"nse {nm}")
            check(close(metrics.kge(o, s, t, ex), ref_kge(lo, ls)),
                  f"kge {nm}")
            for bt in BIAS_TYPES:
                check(close(metrics.bias(o, s, t, ex, bt),
                            ref_bias(lo, ls, bt)), f"bias {bt} {nm}")
            check(close(metrics.corr(o, s, t, ex, type="Pearson"),
                        ref_pearson(lo, ls)), f"corr P {nm}")
            check(close(metrics.corr(o, s, t, ex, type="Spearman"),
                        ref_spearman(lo, ls)), f"corr S {nm}")


def check_ensemble_corr(rng):
    """ corr uses the mean / median of the transformed ensemble """
    for tname, trans, formula, positive in make_transforms():
        for n, nens in [(2, 3), (5, 2), (30, 1), (30, 4), (200, 7)]:
            for attempt in range(20):
                obs = rng.gamma(2., 2., size=n)+0.1
                ens = obs[:, None]*rng.uniform(0.3, 2., size=(n, nens))
                if nondegenerate(trans.forward(obs)):
                    break
            tobs = np.asarray(trans.forward(obs))
            tens = np.asarray(trans.forward(ens))
            for stat in ["mean", "median"]:
                rows = tens.tolist()
                if stat == "mean":
                    ts = [fmean(r) for r in rows]
                else:
                    ts = []
                    for r in rows:
                        r = sorted(r)
                        m = len(r)
                        ts.append(r[m//2] if m % 2 == 1
                                  else (r[m//2-1]+r[m//2])/2)
                if not nondegenerate(ts):
                    continue
                for ctype, ref in [("Pearson", ref_pearson),
                                   ("Spearman", ref_spearman)]:
                    v = metrics.corr(obs, ens, trans, stat=stat, type=ctype)
                    e = ref(tobs.tolist(), ts)
                    check(close(v, e),
                          f"corr ens {tname} n={n} nens={nens} "
                          f"{stat}/{ctype}: {v} vs {e}")

                    # excludenull, rows lost in obs or in the whole ensemble
                    if n >= 30:
                        o2, e2 = obs.copy(), ens.copy()
                        o2[[1, 7]] = [np.nan, np.inf]
                        e2[3, :] = np.nan
                        e2[9, :] = np.inf
                        # incomplete pairs are those not finite once
                        # transformed (Reciprocal maps inf to -0.)
                        with np.errstate(all="ignore"):
                            to2 = np.asarray(trans.forward(o2))
                            te2 = np.asarray(trans.forward(e2))
                        keep = np.isfinite(to2) & np.all(np.isfinite(te2),
                                                         axis=1)
                        check(not keep[1] and not keep[3], "nan rows kept")
                        if not np.array_equal(to2[keep], tobs[keep]):
                            continue
                        if np.sum(keep) != n-2 and np.sum(keep) != n-4:
                            continue
                        if np.sum(keep) == n-2:
                            # inf rows stay in after the transform:
                            # the ensemble statistic of these rows
                            tsk = list(ts)
                            for i in [7, 9]:
                                r = sorted(te2[i].tolist())
                                m = len(r)
                                if stat == "mean":
                                    tsk[i] = fmean(r)
                                else:
                                    tsk[i] = r[m//2] if m % 2 == 1 \
                                        else (r[m//2-1]+r[m//2])/2
                            tobsk = to2
                        else:
                            tsk, tobsk = ts, tobs
                        v = metrics.corr(o2, e2, trans, excludenull=True,
                                         stat=stat, type=ctype)
                        e = ref(tobsk[keep].tolist(),
                                [t for t, k in zip(tsk, keep) if k])
                        check(close(v, e),
                              f"corr ens excludenull {tname} n={n} "
                              f"nens={nens} {stat}/{ctype}: {v} vs {e}")


def check_invariances(rng):
    for n in [2, 3, 17, 400]:
        for rep in range(10):
            obs, sim = gen_series(rng, n, False, "normal")
            if not (nondegenerate(obs) and nondegenerate(sim)):
                continue
            # simulating the observed mean scores NSE 0
            v = metrics.nse(obs, np.full(n, np.mean(obs)))
            check(abs(float(v)) <= 1e-9, f"nse mean sim n={n}: {v}")

            # NSE under common affine map
            ref = float(metrics.nse(obs, sim))
            for a, b in [(2., 0.), (-3., 10.), (1e-3, -7.), (250., 1e4),
                         (1., 0.5)]:
                if not nondegenerate(a*obs+b):
                    continue
                v = metrics.nse(a*obs+b, a*sim+b)
                check(close(v, ref, 1e-7, 1e-7),
                      f"nse affine a={a} b={b} n={n}: {v} vs {ref}")

            # bias and KGE under common positive scaling
            refk = float(metrics.kge(obs, sim))
            for c in [0.5, 3., 1e-4, 1e6]:
                v = metrics.kge(c*obs, c*sim)
                check(close(v, refk, 1e-9, 1e-9), f"kge scaling c={c} n={n}")
                for bt in BIAS_TYPES:
                    if bt == "log" and not (np.mean(obs) > 1e-3 and
                                            np.mean(sim) > 1e-3):
                        continue
                    if bt == "normalised" and \
                            abs(np.mean(obs)+np.mean(sim)) < 1e-3:
                        continue
                    refb = float(metrics.bias(obs, sim, type=bt))
                    v = metrics.bias(c*obs, c*sim, type=bt)
                    check(close(v, refb, 1e-9, 1e-9),
                          f"bias {bt} scaling c={c} n={n}")

            check(float(metrics.nse(obs, sim)) <= 1., "nse <= 1")
            check(float(metrics.kge(obs, sim)) <= 1., "kge <= 1")


# --------------------------------------------------------------------
# Categorical scores
# --------------------------------------------------------------------
def table_of(cm):
    return np.asarray(cm)


def check_confusion(rng):
    for ncat in range(2, 7):
        for n in [1, 2, 3, 10, 100, 1000]:
            for rep in range(6):
                cats = np.arange(ncat)
                if rep % 3 == 1 and ncat > 2:
                    # categories absent from either series
                    co = rng.choice(cats, size=max(1, ncat-2), replace=False)
                    cs = rng.choice(cats, size=max(1, ncat-1), replace=False)
                elif rep % 3 == 2:
                    co, cs = cats[:1], cats
                else:
                    co, cs = cats, cats
                obs = rng.choice(co, size=n)
                sim = rng.choice(cs, size=n)
                obs0, sim0 = obs.copy(), sim.copy()

                exp = np.zeros((ncat, ncat), dtype=np.int64)
                for o, s in zip(obs.tolist(), sim.tolist()):
                    exp[o, s] += 1

                label = f"ncat={ncat} n={n} rep={rep}"
                cm = table_of(metrics.confusion_matrix(obs, sim, ncat=ncat))
                check(cm.shape == (ncat, ncat), f"cm shape {label}")
                check(cm.shape == exp.shape and np.array_equal(cm, exp),
                      f"cm counts {label}")
                check(cm.sum() == n, f"cm total {label}")

                # inferred ncat: largest category present + 1
                ninf = int(max(obs.max(), sim.max()))+1
                cm = table_of(metrics.confusion_matrix(obs, sim))
                check(cm.shape == (ninf, ninf), f"cm inferred shape {label}")
                check(cm.shape == (ninf, ninf) and
                      np.array_equal(cm, exp[:ninf, :ninf]),
                      f"cm inferred counts {label}")
                check(cm.sum() == n, f"cm inferred total {label}")

                check(np.array_equal(obs, obs0) and np.array_equal(sim, sim0),
                      f"cm inputs modified {label}")

    # binary forecasts given as booleans
    o = rng.uniform(size=200) > 0.4
    s = rng.uniform(size=200) > 0.6
    cm = table_of(metrics.confusion_matrix(o, s))
    exp = [[np.sum(~o & ~s), np.sum(~o & s)], [np.sum(o & ~s), np.sum(o & s)]]
    check(np.array_equal(cm, exp), "cm boolean")


def ref_binary(TN, FP, FN, TP):
    n = TN+FP+FN+TP
    H = TP/(TP+FN)
    F = FP/(FP+TN)
    theta = (TP*TN)/(FP*FN)
    return {
        "truepos": TP, "falsepos": FP, "trueneg": TN, "falseneg": FN,
        "hitrate": H,
        "falsealarm": F,
        "precision": TP/(TP+FP),
        "accuracy": (TP+TN)/n,
        "bias": (TP+FP)/(TP+FN),
        "F1": 2*TP/(2*TP+FP+FN),
        "MCC": (TP*TN-FP*FN)/math.sqrt((TP+FP)*(TP+FN)*(TN+FP)*(TN+FN)),
        "LOR": math.log(TP)+math.log(TN)-math.log(FP)-math.log(FN),
        "ORSS": (TP*TN-FP*FN)/(TP*TN+FP*FN)
        }


def check_binary(rng):
    tables = []
    small = [1, 2, 3, 7]
    tables += list(itertools.product(small, repeat=4))
    # odds ratio exactly 1
    tables += [(2, 4, 3, 6), (5, 5, 5, 5), (10, 20, 30, 60), (1, 1, 1, 1)]
    for rep in range(300):
        hi = [10, 1000, 100000, 10**7][rep % 4]
        tables.append(tuple(int(v) for v in rng.integers(1, hi, size=4)))
    tables.append((2680, 72, 23, 28))
    tables.append((10**9, 3, 5, 10**9))

    for TN, FP, FN, TP in tables:
        mat = [[TN, FP], [FN, TP]]
        exp = ref_binary(TN, FP, FN, TP)
        for inp in [mat, np.array(mat), np.array(mat, dtype=np.int64)]:
            scores, scores_rand = metrics.binary(inp)
            for key, e in exp.items():
                v = scores[key]
                check(close(v, e, 1e-9, 1e-9),
                      f"binary {key} {mat}: {v} vs {e}")
            th = (TP*TN)/(FP*FN)
            if th > 1:
                check(scores["LOR"] > -1e-12 and scores["ORSS"] > -1e-12,
                      f"odds>1 {mat}")
            elif th < 1:
                check(scores["LOR"] < 1e-12 and scores["ORSS"] < 1e-12,
                      f"odds<1 {mat}")
            else:
                check(abs(scores["LOR"]) < 1e-12 and
                      abs(scores["ORSS"]) < 1e-12, f"odds=1 {mat}")

    # confusion matrix -> binary chain
    o = rng.integers(0, 2, size=500)
    s = np.where(rng.uniform(size=500) < 0.7, o, 1-o)
    cm = metrics.confusion_matrix(o, s)
    sc, _ = metrics.binary(cm)
    TP = int(np.sum((o == 1) & (s == 1)))
    TN = int(np.sum((o == 0) & (s == 0)))
    FP = int(np.sum((o == 0) & (s == 1)))
    FN = int(np.sum((o == 1) & (s == 0)))
    for key, e in ref_binary(TN, FP, FN, TP).items():
        check(close(sc[key], e), f"chain binary {key}")


# --------------------------------------------------------------------
# Histories: the answer to a call does not depend on the calls made before
# --------------------------------------------------------------------
def check_histories(rng):
    t = transform.BoxCox2()
    t.nu = 0.1
    t.lam = 0.3
    tl = transform.Log()
    tl.nu = 1.

    def bc(x, nu, lam):
        return (((x+nu)**lam-1)/lam).tolist()

    # long, then short, then long series; same arrays edited in place
    big_o, big_s = gen_series(rng, 5000, True, "gamma")
    sm_o, sm_s = gen_series(rng, 7, True, "gamma")
    for rep in range(3):
        for o, s in [(big_o, big_s), (sm_o, sm_s), (big_o[:100], big_s[:100]),
                     (sm_o[:2], sm_s[:2]), (big_o[::-1], big_s[::-1]),
                     (big_o[::3], big_s[::3])]:
            lo, ls = bc(o, 0.1, 0.3), bc(s, 0.1, 0.3)
            check(close(metrics.nse(o, s, t), ref_nse(lo, ls)), "hist nse")
            check(close(metrics.kge(o, s, t), ref_kge(lo, ls)), "hist kge")
            check(close(metrics.bias(o, s, t), ref_bias(lo, ls, "standard")),
                  "hist bias")
            check(close(metrics.corr(o, s, t, type="Spearman"),
                        ref_spearman(lo, ls)), "hist corr")
        # edit in place: a later call must see the new content
        sm_s[rep] = sm_s[rep]*2+1
        big_s[10*rep] += 5.

    # transform parameters changed between calls (attribute, item, vector,
    # in-place edit of the value array)
    o, s = gen_series(rng, 40, True, "gamma")
    for setter in ["attr", "item", "vector", "inplace"]:
        for nu, lam in [(0.5, 0.5), (2., 0.), (0.5, 0.5), (1., 1e-11),
                        (1., 2.), (0.2, 1e-9)]:
            if setter == "attr":
                t.nu = nu
                t.lam = lam
            elif setter == "item":
                t["nu"] = nu
                t["lam"] = lam
            elif setter == "vector":
                t.params.values = [nu, lam]
            else:
                t.params.values[0] = nu
                t.params.values[1] = lam
            if abs(lam) > 1e-10:
                lo, ls = bc(o, nu, lam), bc(s, nu, lam)
                tol = 1e-5 if lam < 1e-8 else RTOL
            else:
                lo, ls = np.log(o+nu).tolist(), np.log(s+nu).tolist()
                tol = RTOL
            check(close(metrics.nse(o, s, t), ref_nse(lo, ls), tol, tol),
                  f"param change {setter} nu={nu} lam={lam} nse")
            check(close(metrics.kge(o, s, t), ref_kge(lo, ls), tol, tol),
                  f"param change {setter} nu={nu} lam={lam} kge")
        t.reset()
        lo, ls = bc(o, 1e-10, 1.), bc(s, 1e-10, 1.)
        check(close(metrics.nse(o, s, t), ref_nse(lo, ls)), "after reset")

    for nu in [1., 3., 1., 0.01]:
        tl.nu = nu
        lo, ls = np.log(o+nu).tolist(), np.log(s+nu).tolist()
        check(close(metrics.bias(o, s, tl), ref_bias(lo, ls, "standard")),
              f"log nu={nu} change")
        # another instance set differently does not interfere
        tc = transform.Log()
        tc.nu = nu+1
        lo2, ls2 = np.log(o+nu+1).tolist(), np.log(s+nu+1).tolist()
        check(close(metrics.bias(o, s, tc), ref_bias(lo2, ls2, "standard")),
              f"log nu={nu} other instance")
        check(close(metrics.bias(o, s, tl), ref_bias(lo, ls, "standard")),
              f"log nu={nu} instances are independent")

    # two transforms of the same class used in turn
    ta, tb = transform.Sinh(), transform.Sinh()
    ta.params.values = [0., 1.]
    tb.params.values = [2., 0.1]
    x, y = gen_series(rng, 30, False, "normal")
    for rep in range(3):
        for tt, (nu, sc) in [(ta, (0., 1.)), (tb, (2., 0.1))]:
            lo = np.arcsinh((x-nu)*sc).tolist()
            ls = np.arcsinh((y-nu)*sc).tolist()
            check(close(metrics.nse(x, y, tt), ref_nse(lo, ls)),
                  "two transforms")

    # categorical: same call repeated; result edited by the caller;
    # same content with another ncat; arrays edited in place
    obs = rng.integers(0, 3, size=50)
    sim = rng.integers(0, 3, size=50)
    for rep in range(3):
        for ncat in [None, 3, 5, 6, 3]:
            nn = 3 if ncat is None else ncat
            exp = np.zeros((nn, nn), dtype=np.int64)
            for a, b in zip(obs.tolist(), sim.tolist()):
                exp[a, b] += 1
            cm = metrics.confusion_matrix(obs, sim, ncat=ncat)
            check(np.array_equal(table_of(cm), exp), f"hist cm ncat={ncat}")
            # caller scribbles on the result
            try:
                cm.iloc[0, 0] = -99
            except Exception:
                pass
            cm = metrics.confusion_matrix(obs, sim, ncat=ncat)
            check(np.array_equal(table_of(cm), exp),
                  f"hist cm after edit ncat={ncat}")
        obs[rep] = (obs[rep]+1) % 3
        sim[-1-rep] = (sim[-1-rep]+2) % 3
    # short after long
    cm = metrics.confusion_matrix([1], [0])
    check(np.array_equal(table_of(cm), [[0, 0], [1, 0]]), "cm n=1")
    cm = metrics.confusion_matrix(np.array([0]), np.array([0]), ncat=2)
    check(np.array_equal(table_of(cm), [[1, 0], [0, 0]]), "cm n=1 ncat=2")

    for rep in range(3):
        for mat in [[[5, 2], [3, 9]], [[5, 3], [2, 9]], [[9, 2], [3, 5]],
                    [[5, 2], [3, 9]]]:
            (TN, FP), (FN, TP) = mat
            sc, scr = metrics.binary(mat)
            for key, e in ref_binary(TN, FP, FN, TP).items():
                check(close(sc[key], e), f"hist binary {key} {mat}")
            # caller scribbles on the result
            sc["hitrate"] = -1.
            scr["hitrate"] = -1.
            sc2, scr2 = metrics.binary(mat)
            check(close(sc2["hitrate"], TP/(TP+FN)), "binary after edit")
            check(close(scr2["hitrate"], (TP+FP)/(TN+FP+FN+TP)),
                  "binary rand after edit")


def main():
    rng = np.random.default_rng(20240604)
    check_deterministic(rng)
    check_ensemble_corr(rng)
    check_invariances(rng)
    check_confusion(rng)
    check_binary(rng)
    check_histories(rng)

    print(f"{NCHECK[0]} checks, {len(FAILS)} failures")
    return 1 if FAILS else 0


if __name__ == "__main__":
    sys.exit(main())
